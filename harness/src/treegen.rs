//! Shared by the C07 / C08 / C09 binaries (`#[path = "../treegen.rs"] mod treegen;`):
//! in-memory random trees, writing them through a real `Store`, and the compact Coq
//! encoding of everything read back from the store (Model/TreeCase.v).
#![allow(dead_code)]
use std::collections::BTreeMap;
use std::collections::BTreeSet;
use std::collections::HashMap;
use std::sync::Arc;

use jj_lib::backend::CommitId;
use jj_lib::backend::CopyId;
use jj_lib::backend::FileId;
use jj_lib::backend::SymlinkId;
use jj_lib::backend::TreeId;
use jj_lib::backend::TreeValue;
use jj_lib::config::ConfigLayer;
use jj_lib::config::ConfigSource;
use jj_lib::merge::Merge;
use jj_lib::object_id::ObjectId as _;
use jj_lib::repo_path::RepoPath;
use jj_lib::repo_path::RepoPathBuf;
use jj_lib::repo_path::RepoPathComponentBuf;
use jj_lib::settings::UserSettings;
use jj_lib::store::Store;
use jjv::Rng;
use jjv::coq;
use pollster::FutureExt as _;
use testutils::TestRepo;
use testutils::TestRepoBackend;

/// File contents. 0..=7: one family of five-line texts whose three-way merges often
/// succeed (edits of different lines) or conflict (edits of the same line); 8..: one-line
/// texts that are pairwise unmergeable.
pub const CONTENTS: &[&str] = &[
    "a\nb\nc\nd\ne\n",
    "A\nb\nc\nd\ne\n",
    "a\nb\nc\nd\nE\n",
    "A\nb\nc\nd\nE\n",
    "X\nb\nc\nd\ne\n",
    "a\nb\nC\nd\ne\n",
    "a\nb\nc\nd\n",
    "",
    "p\n",
    "q\n",
    "r\n",
    "s\n",
];
pub const LINKS: &[&str] = &["t0", "t1", "t2"];

#[derive(Clone, Debug, PartialEq, Eq)]
pub enum V {
    File { c: usize, x: bool, cp: u8 },
    Link(usize),
    Sub(u8),
    Dir(T),
}
pub type T = BTreeMap<u8, V>;

pub fn settings(accept: bool) -> UserSettings {
    let mut config = testutils::base_user_config();
    let text = format!(
        "merge.same-change = \"{}\"\n",
        if accept { "accept" } else { "keep" }
    );
    config.add_layer(ConfigLayer::parse(ConfigSource::CommandArg, &text).unwrap());
    UserSettings::from_config(config).unwrap()
}

pub fn test_repo(accept: bool, simple: bool) -> TestRepo {
    let backend = if simple {
        TestRepoBackend::Simple
    } else {
        TestRepoBackend::Test
    };
    TestRepo::init_with_backend_and_settings(backend, &settings(accept))
}

// ------------------------------------------------------------------ generation

pub fn gen_leaf(rng: &mut Rng, rich: bool) -> V {
    let k = rng.below(if rich { 12 } else { 8 });
    match k {
        0..=7 => V::File {
            c: if rng.chance(1, 2) {
                rng.usize(8)
            } else {
                8 + rng.usize(CONTENTS.len() - 8)
            },
            x: rich && rng.chance(1, 5),
            cp: if rich && rng.chance(1, 8) { 1 + rng.below(2) as u8 } else { 0 },
        },
        8 | 9 => V::Link(rng.usize(LINKS.len())),
        10 => V::Sub(rng.below(2) as u8),
        _ => V::File { c: 8, x: true, cp: 0 },
    }
}

/// A random tree: `width` names per directory drawn from 0..names, nesting up to `depth`.
pub fn gen_tree(rng: &mut Rng, depth: u32, names: u8, rich: bool) -> T {
    let mut t = T::new();
    let n = if rng.chance(1, 8) { 0 } else { 1 + rng.below(names as u64 + 1) };
    for _ in 0..n {
        let name = rng.below(names as u64) as u8;
        let v = if depth > 0 && rng.chance(1, 3) {
            let sub = gen_tree(rng, depth - 1, names, rich);
            if sub.is_empty() {
                continue;
            }
            V::Dir(sub)
        } else {
            gen_leaf(rng, rich)
        };
        t.insert(name, v);
    }
    t
}

pub fn has_sub(t: &T) -> bool {
    t.values().any(|v| match v {
        V::Sub(_) => true,
        V::Dir(sub) => has_sub(sub),
        _ => false,
    })
}

fn all_paths_into(t: &T, prefix: &mut Vec<u8>, out: &mut BTreeSet<Vec<u8>>) {
    for (n, v) in t {
        prefix.push(*n);
        out.insert(prefix.clone());
        if let V::Dir(sub) = v {
            all_paths_into(sub, prefix, out);
        }
        prefix.pop();
    }
}
pub fn all_paths(t: &T) -> BTreeSet<Vec<u8>> {
    let mut out = BTreeSet::new();
    all_paths_into(t, &mut vec![], &mut out);
    out
}

fn get_mut<'a>(t: &'a mut T, path: &[u8]) -> Option<&'a mut T> {
    let mut cur = t;
    for n in path {
        match cur.get_mut(n) {
            Some(V::Dir(sub)) => cur = sub,
            _ => return None,
        }
    }
    Some(cur)
}

fn prune(t: &mut T) {
    let names: Vec<u8> = t.keys().copied().collect();
    for n in names {
        let empty = match t.get_mut(&n) {
            Some(V::Dir(sub)) => {
                prune(sub);
                sub.is_empty()
            }
            _ => false,
        };
        if empty {
            t.remove(&n);
        }
    }
}

/// One random edit of `t` (no empty directories are left behind).
pub fn mutate(rng: &mut Rng, t: &mut T, names: u8, rich: bool) {
    let paths: Vec<Vec<u8>> = all_paths(t).into_iter().collect();
    let op = rng.below(10);
    if paths.is_empty() || op == 0 {
        // add at the root or in a random directory
        let dirs: Vec<Vec<u8>> = std::iter::once(vec![])
            .chain(paths.iter().filter(|p| get_mut(&mut t.clone(), p).is_some()).cloned())
            .collect();
        let d = rng.pick(&dirs).clone();
        let name = rng.below(names as u64) as u8;
        let v = if rng.chance(1, 4) {
            let mut sub = T::new();
            sub.insert(rng.below(names as u64) as u8, gen_leaf(rng, rich));
            V::Dir(sub)
        } else {
            gen_leaf(rng, rich)
        };
        if let Some(dir) = get_mut(t, &d) {
            dir.insert(name, v);
        }
        prune(t);
        return;
    }
    let p = rng.pick(&paths).clone();
    let (dirp, name) = p.split_at(p.len() - 1);
    let name = name[0];
    let dir = get_mut(t, dirp).unwrap();
    let old = dir.get(&name).cloned().unwrap();
    match op {
        1 | 2 => {
            dir.remove(&name);
        }
        3 | 4 | 5 => {
            // modify a file's content within the mergeable family, or replace
            let new = match &old {
                V::File { c, x, cp } if *c < 8 => V::File { c: rng.usize(8), x: *x, cp: *cp },
                V::File { x, cp, .. } => V::File { c: 8 + rng.usize(CONTENTS.len() - 8), x: *x, cp: *cp },
                _ => gen_leaf(rng, rich),
            };
            dir.insert(name, new);
        }
        6 => {
            // flip the executable bit / copy id of a file
            let new = match &old {
                V::File { c, x, cp } => {
                    if rng.chance(2, 3) {
                        V::File { c: *c, x: !*x, cp: *cp }
                    } else {
                        V::File { c: *c, x: *x, cp: (cp + 1) % 3 }
                    }
                }
                _ => gen_leaf(rng, rich),
            };
            dir.insert(name, new);
        }
        7 => {
            // file <-> directory replacement
            let new = match &old {
                V::Dir(_) => gen_leaf(rng, rich),
                other => {
                    let mut sub = T::new();
                    sub.insert(rng.below(names as u64) as u8, if rng.chance(1, 2) { other.clone() } else { gen_leaf(rng, rich) });
                    V::Dir(sub)
                }
            };
            dir.insert(name, new);
        }
        8 => {
            dir.insert(name, gen_leaf(rng, rich));
        }
        _ => {
            // edit inside a directory if it is one
            if let Some(V::Dir(sub)) = dir.get_mut(&name) {
                let nm = rng.below(names as u64) as u8;
                sub.insert(nm, gen_leaf(rng, rich));
            } else {
                dir.remove(&name);
            }
        }
    }
    prune(t);
}

pub fn mutated(rng: &mut Rng, base: &T, edits: u64, names: u8, rich: bool) -> T {
    let mut t = base.clone();
    for _ in 0..edits {
        mutate(rng, &mut t, names, rich);
    }
    t
}

// ------------------------------------------------------------------ store access

/// `[a; b; c]` from already rendered items.
pub fn list_of(items: Vec<String>) -> String {
    format!("[{}]", items.join("; "))
}

pub fn comp(n: u8) -> RepoPathComponentBuf {
    RepoPathComponentBuf::new(format!("{n}")).unwrap()
}
pub fn repo_path(p: &[u8]) -> RepoPathBuf {
    let mut r = RepoPathBuf::root();
    for n in p {
        r = r.join(&comp(*n));
    }
    r
}
pub fn path_numbers(p: &RepoPath) -> Vec<u8> {
    p.components()
        .map(|c| c.as_internal_str().parse::<u8>().unwrap())
        .collect()
}

pub fn copy_id(cp: u8) -> CopyId {
    if cp == 0 {
        CopyId::placeholder()
    } else {
        CopyId::new(vec![cp])
    }
}

thread_local! {
    /// (store address, path, rendered value) -> what was written, so that repeated
    /// sub-trees and files cost no further backend calls.
    static WRITTEN: std::cell::RefCell<HashMap<(usize, String, String), Option<TreeValue>>> =
        std::cell::RefCell::new(HashMap::new());
}

pub fn write_value(store: &Arc<Store>, path: &RepoPath, v: &V) -> Option<TreeValue> {
    let key = (
        Arc::as_ptr(store) as usize,
        path.as_internal_file_string().to_owned(),
        format!("{v:?}"),
    );
    if let Some(hit) = WRITTEN.with(|w| w.borrow().get(&key).cloned()) {
        return hit;
    }
    let res = write_value_uncached(store, path, v);
    WRITTEN.with(|w| w.borrow_mut().insert(key, res.clone()));
    res
}

fn write_value_uncached(store: &Arc<Store>, path: &RepoPath, v: &V) -> Option<TreeValue> {
    Some(match v {
        V::File { c, x, cp } => {
            let id = store
                .write_file(path, &mut CONTENTS[*c].as_bytes())
                .block_on()
                .unwrap();
            TreeValue::File {
                id,
                executable: *x,
                copy_id: copy_id(*cp),
            }
        }
        V::Link(l) => TreeValue::Symlink(store.write_symlink(path, LINKS[*l]).block_on().unwrap()),
        V::Sub(s) => TreeValue::GitSubmodule(CommitId::new(vec![*s + 1; 20])),
        V::Dir(sub) => {
            if sub.is_empty() {
                return None;
            }
            TreeValue::Tree(write_tree_uncached(store, path, sub))
        }
    })
}

pub fn write_tree(store: &Arc<Store>, dir: &RepoPath, t: &T) -> TreeId {
    if dir.is_root() {
        // the root may be empty; memoise it like a directory value
        let key = (Arc::as_ptr(store) as usize, String::new(), format!("root{t:?}"));
        if let Some(Some(TreeValue::Tree(id))) = WRITTEN.with(|w| w.borrow().get(&key).cloned()) {
            return id;
        }
        let id = write_tree_uncached(store, dir, t);
        WRITTEN.with(|w| w.borrow_mut().insert(key, Some(TreeValue::Tree(id.clone()))));
        return id;
    }
    write_tree_uncached(store, dir, t)
}

fn write_tree_uncached(store: &Arc<Store>, dir: &RepoPath, t: &T) -> TreeId {
    let mut entries = vec![];
    for (n, v) in t {
        let name = comp(*n);
        let path = dir.join(&name);
        if let Some(value) = write_value(store, &path, v) {
            entries.push((name, value));
        }
    }
    let tree = jj_lib::backend::Tree::from_sorted_entries(entries);
    store.write_tree(dir, tree).block_on().unwrap().id().clone()
}

pub fn read_file(store: &Arc<Store>, path: &RepoPath, id: &FileId) -> Vec<u8> {
    testutils::read_file(store, path, id)
}

/// Numbers objects of one case by first appearance and collects the flat tree table.
pub struct Interner {
    pub store: Arc<Store>,
    files: HashMap<FileId, u64>,
    links: HashMap<SymlinkId, u64>,
    subs: HashMap<CommitId, u64>,
    copies: HashMap<CopyId, u64>,
    trees: HashMap<TreeId, u64>,
    pub tab: Vec<String>,
}

impl Interner {
    pub fn new(store: Arc<Store>) -> Self {
        let mut copies = HashMap::new();
        copies.insert(CopyId::placeholder(), 0);
        Interner {
            store,
            files: HashMap::new(),
            links: HashMap::new(),
            subs: HashMap::new(),
            copies,
            trees: HashMap::new(),
            tab: vec![],
        }
    }
    pub fn file(&mut self, id: &FileId) -> u64 {
        let n = self.files.len() as u64;
        *self.files.entry(id.clone()).or_insert(n)
    }
    pub fn value(&mut self, path: &RepoPath, v: &TreeValue) -> String {
        match v {
            TreeValue::File {
                id,
                executable,
                copy_id,
            } => {
                let f = self.file(id);
                let n = self.copies.len() as u64;
                let c = *self.copies.entry(copy_id.clone()).or_insert(n);
                format!("(CF {} {} {})", f, coq::b(*executable), c)
            }
            TreeValue::Symlink(id) => {
                let n = self.links.len() as u64;
                format!("(CL {})", *self.links.entry(id.clone()).or_insert(n))
            }
            TreeValue::GitSubmodule(id) => {
                let n = self.subs.len() as u64;
                format!("(CM {})", *self.subs.entry(id.clone()).or_insert(n))
            }
            TreeValue::Tree(id) => format!("(CT {})", self.tree(path, id)),
        }
    }
    pub fn oval(&mut self, path: &RepoPath, v: &Option<TreeValue>) -> String {
        match v {
            None => "None".into(),
            Some(v) => format!("(Some {})", self.value(path, v)),
        }
    }
    /// Number of the tree `id` located at directory `dir` (rows of children come first).
    pub fn tree(&mut self, dir: &RepoPath, id: &TreeId) -> u64 {
        if let Some(n) = self.trees.get(id) {
            return *n;
        }
        let tree = self.store.get_tree(dir.to_owned(), id).block_on().unwrap();
        let mut row = vec![];
        for entry in tree.entries_non_recursive() {
            let name: u64 = entry.name().as_internal_str().parse().unwrap();
            let path = dir.join(entry.name());
            let v = self.value(&path, entry.value());
            row.push(format!("({name}, {v})"));
        }
        let n = self.tab.len() as u64;
        self.tab.push(format!("[{}]", row.join("; ")));
        self.trees.insert(id.clone(), n);
        n
    }
    pub fn trees(&mut self, ids: &Merge<TreeId>) -> String {
        let v: Vec<u64> = ids.iter().map(|id| self.tree(RepoPath::root(), id)).collect();
        coq::list(v.iter(), |x| coq::n(*x))
    }
    pub fn table(&self) -> String {
        format!("[{}]", self.tab.join("; "))
    }
}

/// Backend-independent rendering of a tree (file contents instead of ids).
pub fn dump_tree(store: &Arc<Store>, dir: &RepoPath, id: &TreeId, out: &mut String) {
    let tree = store.get_tree(dir.to_owned(), id).block_on().unwrap();
    out.push('{');
    for entry in tree.entries_non_recursive() {
        let path = dir.join(entry.name());
        out.push_str(entry.name().as_internal_str());
        out.push(':');
        dump_value(store, &path, entry.value(), out);
        out.push(',');
    }
    out.push('}');
}
pub fn dump_value(store: &Arc<Store>, path: &RepoPath, v: &TreeValue, out: &mut String) {
    match v {
        TreeValue::File {
            id,
            executable,
            copy_id,
        } => {
            out.push_str(&format!(
                "F{:?}x{}c{}",
                String::from_utf8_lossy(&read_file(store, path, id)),
                executable,
                copy_id.hex()
            ));
        }
        TreeValue::Symlink(id) => {
            out.push_str(&format!("L{:?}", store.read_symlink(path, id).block_on().unwrap()));
        }
        TreeValue::GitSubmodule(id) => out.push_str(&format!("M{}", id.hex())),
        TreeValue::Tree(id) => dump_tree(store, path, id, out),
    }
}
pub fn dump_oval(store: &Arc<Store>, path: &RepoPath, v: &Option<TreeValue>, out: &mut String) {
    match v {
        None => out.push('-'),
        Some(v) => dump_value(store, path, v, out),
    }
}

/// Every path (files and directories) below the tree `id`.
pub fn stored_paths(store: &Arc<Store>, dir: &RepoPath, id: &TreeId, out: &mut BTreeSet<Vec<u8>>) {
    let tree = store.get_tree(dir.to_owned(), id).block_on().unwrap();
    for entry in tree.entries_non_recursive() {
        let path = dir.join(entry.name());
        out.insert(path_numbers(&path));
        if let TreeValue::Tree(sub) = entry.value() {
            stored_paths(store, &path, sub, out);
        }
    }
}

/// Content-merge outcomes (what files::try_merge + write_file give for the simplified
/// file-id conflict) for every path whose simplified terms are all files, over all rounds
/// of MergedTree::resolve started from `unresolved` (merge, simplify, merge again while
/// sides get cancelled). Rows are `(key, outcome)` Coq pairs; `seen` dedups keys.
pub fn oracle_rounds(
    store: &Arc<Store>,
    intern: &mut Interner,
    unresolved: &Merge<TreeId>,
    seen: &mut BTreeSet<Vec<u64>>,
    out: &mut Vec<String>,
) {
    let root = RepoPath::root();
    let mut current = unresolved.clone();
    for _round in 0..20 {
        if current.is_resolved() {
            return;
        }
        let mut paths = BTreeSet::new();
        for id in current.iter() {
            stored_paths(store, root, id, &mut paths);
        }
        let trees: Vec<_> = current
            .iter()
            .map(|id| store.get_tree(root.to_owned(), id).block_on().unwrap())
            .collect();
        for p in &paths {
            let path = repo_path(p);
            let vals: Vec<Option<TreeValue>> = trees
                .iter()
                .map(|t| t.path_value(&path).block_on().unwrap())
                .collect();
            let simplified = Merge::from_vec(vals).simplify();
            let Ok(ids) = simplified.try_map(|v| match v {
                Some(TreeValue::File { id, .. }) => Ok(id.clone()),
                _ => Err(()),
            }) else {
                continue;
            };
            let ids = ids.simplify();
            if ids.is_resolved() {
                continue;
            }
            let key: Vec<u64> = ids.iter().map(|id| intern.file(id)).collect();
            if !seen.insert(key.clone()) {
                continue;
            }
            let contents = ids.map(|id| read_file(store, &path, id));
            let merged = jj_lib::files::try_merge(&contents, store.merge_options());
            let res = merged.map(|content| {
                let id = store
                    .write_file(&path, &mut content.as_slice())
                    .block_on()
                    .unwrap();
                intern.file(&id)
            });
            out.push(coq::pair(
                coq::list(key.iter(), |x| coq::n(*x)),
                coq::opt(res, coq::n),
            ));
        }
        let Some(Ok(merged)) =
            jjv::catch(|| jj_lib::tree_merge::merge_trees(store, current.clone()).block_on())
        else {
            return;
        };
        if merged.is_resolved() {
            return;
        }
        let simplified = merged.simplify();
        if simplified.iter().count() == merged.iter().count() {
            return;
        }
        current = simplified;
    }
}
