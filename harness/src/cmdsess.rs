//! Shared by c40.rs / c42.rs (`#[path = "../cmdsess.rs"] mod cmdsess;`): isolated CLI
//! sessions of the harness-built `jj` (jjbin) and in-process readers of the operation log.
#![allow(dead_code)]
use std::collections::BTreeMap;
use std::path::Path;
use std::path::PathBuf;
use std::process::Command;
use std::process::Stdio;
use std::time::Duration;
use std::time::Instant;

use jj_lib::object_id::ObjectId as _;
use jj_lib::op_store::OperationId;
use jj_lib::operation::Operation;
use jj_lib::repo::RepoLoader;
use pollster::FutureExt as _;

pub struct Out {
    pub rc: i32,
    pub stdout: String,
    pub stderr: String,
    pub timed_out: bool,
}

/// One isolated CLI environment: own HOME, own user config, deterministic seeds/timestamps.
pub struct Sess {
    pub root: PathBuf,
    pub cfg_path: PathBuf,
    home: PathBuf,
    jj: PathBuf,
    counter: u64,
    seed: u64,
    pub invocations: u64,
}

pub const BASE_CONFIG: &str = r#"[user]
name = "V"
email = "v@example.com"
[ui]
paginate = "never"
color = "never"
"#;

impl Sess {
    pub fn new(root: &Path, seed: u64) -> Sess {
        let _ = std::fs::remove_dir_all(root);
        std::fs::create_dir_all(root.join("home")).unwrap();
        let root = &std::fs::canonicalize(root).unwrap();
        let s = Sess {
            root: root.to_path_buf(),
            cfg_path: root.join("config.toml"),
            home: root.join("home"),
            jj: jjv::jj_bin_path(),
            counter: 0,
            seed,
            invocations: 0,
        };
        s.set_config("");
        s
    }

    /// Rewrites the user config: the fixed base plus `extra` (TOML).
    pub fn set_config(&self, extra: &str) {
        std::fs::write(&self.cfg_path, format!("{BASE_CONFIG}{extra}")).unwrap();
    }

    /// Runs `jj args` in `cwd` with a 120 s watchdog. Output goes through files so that a
    /// chatty command can never block on a full pipe.
    pub fn jj(&mut self, cwd: &Path, args: &[String]) -> Out {
        self.counter += 1;
        self.invocations += 1;
        let n = self.counter;
        let out_path = self.root.join("stdout.txt");
        let err_path = self.root.join("stderr.txt");
        let out_f = std::fs::File::create(&out_path).unwrap();
        let err_f = std::fs::File::create(&err_path).unwrap();
        // 2001-01-01T00:00:00Z + n seconds: distinct per command, so that rewriting a commit
        // back to an earlier shape never reproduces an old commit id.
        let secs = n % 60;
        let mins = (n / 60) % 60;
        let hours = (n / 3600) % 24;
        let ts = format!("2001-01-01T{hours:02}:{mins:02}:{secs:02}+00:00");
        let mut cmd = Command::new(&self.jj);
        cmd.current_dir(cwd)
            .args(args)
            .env_clear()
            .env("PATH", std::env::var_os("PATH").unwrap_or_default())
            .env("HOME", &self.home)
            .env("JJ_CONFIG", &self.cfg_path)
            .env("JJ_USER", "V")
            .env("JJ_EMAIL", "v@example.com")
            .env("JJ_OP_HOSTNAME", "host")
            .env("JJ_OP_USERNAME", "verif")
            .env("JJ_TZ_OFFSET_MINS", "0")
            .env("GIT_CONFIG_SYSTEM", "/dev/null")
            .env("GIT_CONFIG_GLOBAL", "/dev/null")
            .env("JJ_RANDOMNESS_SEED", format!("{}", self.seed.wrapping_mul(1000).wrapping_add(n) % 1_000_000_007))
            .env("JJ_TIMESTAMP", &ts)
            .env("JJ_OP_TIMESTAMP", &ts)
            .env("COLUMNS", "200")
            .stdin(Stdio::null())
            .stdout(Stdio::from(out_f))
            .stderr(Stdio::from(err_f));
        let mut child = cmd.spawn().expect("spawn jjbin");
        let t0 = Instant::now();
        let mut timed_out = false;
        let rc = loop {
            match child.try_wait().expect("try_wait") {
                Some(st) => break st.code().unwrap_or(-1),
                None => {
                    if t0.elapsed() > Duration::from_secs(120) {
                        let _ = child.kill();
                        let _ = child.wait();
                        timed_out = true;
                        break -2;
                    }
                    std::thread::sleep(Duration::from_millis(3));
                }
            }
        };
        Out {
            rc,
            stdout: std::fs::read_to_string(&out_path).unwrap_or_default(),
            stderr: std::fs::read_to_string(&err_path).unwrap_or_default(),
            timed_out,
        }
    }

    pub fn jjs(&mut self, cwd: &Path, args: &[&str]) -> Out {
        let v: Vec<String> = args.iter().map(|s| s.to_string()).collect();
        self.jj(cwd, &v)
    }
}

/// Operation heads straight from the heads directory.
pub fn op_heads(ws_root: &Path) -> Vec<String> {
    let dir = repo_dir(ws_root).join("op_heads").join("heads");
    let mut v: Vec<String> = std::fs::read_dir(dir)
        .map(|rd| rd.filter_map(|e| e.ok()).map(|e| e.file_name().to_string_lossy().to_string()).collect())
        .unwrap_or_default();
    v.sort();
    v
}

/// `.jj/repo` may be a file holding the path of the main workspace's repo directory.
pub fn repo_dir(ws_root: &Path) -> PathBuf {
    let p = ws_root.join(".jj").join("repo");
    if p.is_file() {
        let s = std::fs::read_to_string(&p).unwrap();
        let q = PathBuf::from(s.trim());
        if q.is_absolute() { q } else { ws_root.join(".jj").join(q) }
    } else {
        p
    }
}

pub fn loader(ws_root: &Path) -> RepoLoader {
    let settings = testutils::user_settings();
    RepoLoader::init_from_file_system(
        &settings,
        &repo_dir(ws_root),
        &jj_lib::default_backend_factories::default_backend_factories(),
    )
    .expect("RepoLoader")
}

pub fn load_op(loader: &RepoLoader, hex: &str) -> Operation {
    let id = OperationId::try_from_hex(hex).expect("op id hex");
    loader.load_operation(&id).block_on().expect("load_operation")
}

/// All operations reachable from `heads` that are not in `known` (ids as hex), children
/// before parents; each with its parent ids.
pub fn new_ops(loader: &RepoLoader, heads: &[String], known: &dyn Fn(&str) -> bool) -> Vec<Operation> {
    let mut out: Vec<Operation> = vec![];
    let mut seen: BTreeMap<String, ()> = BTreeMap::new();
    let mut todo: Vec<String> = heads.to_vec();
    while let Some(h) = todo.pop() {
        if known(&h) || seen.contains_key(&h) {
            continue;
        }
        seen.insert(h.clone(), ());
        let op = load_op(loader, &h);
        for p in op.parent_ids() {
            todo.push(p.hex());
        }
        out.push(op);
    }
    out
}
