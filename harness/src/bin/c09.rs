//! C09: squash (rewrite::squash_commits), absorb (absorb::absorb_hunks) and split (the library
//! calls of cli/src/commands/split.rs) on random stacks with descendants, followed by
//! MutableRepo::rebase_descendants; every commit written is recorded.
#[path = "../treegen.rs"]
mod treegen;

use std::collections::BTreeSet;
use std::collections::HashMap;
use std::sync::Arc;

use futures::StreamExt as _;
use jj_lib::absorb::AbsorbSource;
use jj_lib::absorb::absorb_hunks;
use jj_lib::backend::CommitId;
use jj_lib::backend::MergedTreeValue;
use jj_lib::backend::TreeValue;
use jj_lib::commit::Commit;
use jj_lib::matchers::EverythingMatcher;
use jj_lib::merge::Merge;
use jj_lib::merged_tree::MergedTree;
use jj_lib::merged_tree_builder::MergedTreeBuilder;
use jj_lib::repo::MutableRepo;
use jj_lib::repo::Repo;
use jj_lib::repo_path::RepoPath;
use jj_lib::repo_path::RepoPathBuf;
use jj_lib::revset::RevsetExpression;
use jj_lib::rewrite::CommitWithSelection;
use jj_lib::rewrite::RebaseOptions;
use jj_lib::rewrite::merge_commit_trees_no_resolve;
use jj_lib::rewrite::squash_commits;
use jj_lib::store::Store;
use jjv::Rng;
use jjv::coq;
use pollster::FutureExt as _;
use treegen::*;

fn resolved_tree(store: &Arc<Store>, t: &T) -> MergedTree {
    MergedTree::resolved(store.clone(), write_tree(store, RepoPath::root(), t))
}

#[derive(Clone)]
enum Kind {
    Rebase,
    Keep,
    Given(MergedTree),
    /// base: None = own tree rebased onto the new parents; Some(id) = that commit's tree
    Merge(Option<CommitId>, Vec<MergedTree>),
}

struct NewCommit {
    commit: Commit,
    origin: CommitId,
    kind: Kind,
}

/// A selection between `parent` and `tree`: every changed path is taken or left; now and
/// then a file changed in two places is taken half (a hunk-level selection).
fn select(rng: &mut Rng, store: &Arc<Store>, parent: &MergedTree, tree: &MergedTree, full: bool) -> MergedTree {
    if full {
        return tree.clone();
    }
    let mut builder = MergedTreeBuilder::new(parent.clone());
    let entries: Vec<_> = parent
        .diff_stream(tree, &EverythingMatcher)
        .collect::<Vec<_>>()
        .block_on();
    for entry in entries {
        let path: RepoPathBuf = entry.path;
        let values = entry.values.unwrap();
        match rng.below(4) {
            0 | 1 => builder.set_or_remove(path, values.after),
            2 => {
                // half of the change, when both sides are the two-hunk texts 0 -> 3
                let half = match (values.before.as_normal(), values.after.as_normal()) {
                    (
                        Some(TreeValue::File { id: b, .. }),
                        Some(TreeValue::File {
                            id: a,
                            executable,
                            copy_id,
                        }),
                    ) if read_file(store, &path, b) == CONTENTS[0].as_bytes()
                        && read_file(store, &path, a) == CONTENTS[3].as_bytes() =>
                    {
                        let c = 1 + rng.usize(2);
                        let id = store
                            .write_file(&path, &mut CONTENTS[c].as_bytes())
                            .block_on()
                            .unwrap();
                        Some(TreeValue::File {
                            id,
                            executable: *executable,
                            copy_id: copy_id.clone(),
                        })
                    }
                    _ => None,
                };
                if let Some(v) = half {
                    let mv: MergedTreeValue = Merge::normal(v);
                    builder.set_or_remove(path, mv);
                }
            }
            _ => {}
        }
    }
    builder.write_tree().block_on().unwrap()
}

/// `base` with some top-level entries replaced by leaf values.
fn with_overrides(store: &Arc<Store>, base: &MergedTree, edits: &[(u8, V)]) -> MergedTree {
    let mut b = MergedTreeBuilder::new(base.clone());
    for (name, v) in edits {
        let path = repo_path(&[*name]);
        let val = write_value(store, &path, v).unwrap();
        b.set_or_remove(path, Merge::normal(val));
    }
    b.write_tree().block_on().unwrap()
}

fn order_by_index(repo: &MutableRepo, ids: Vec<CommitId>) -> Vec<CommitId> {
    if ids.is_empty() {
        return ids;
    }
    let revset = RevsetExpression::commits(ids).evaluate(repo).unwrap();
    let mut v: Vec<CommitId> = revset
        .stream()
        .map(|r| r.unwrap())
        .collect::<Vec<_>>()
        .block_on();
    v.reverse();
    v
}

fn main() {
    jjv::run("C09", "C09", |ctx| {
        if std::env::var("JJV_DEBUG").is_ok() {
            let _ = std::panic::take_hook();
        }
        let repos: Vec<_> = [false, true].iter().map(|a| test_repo(*a, false)).collect();
        for i in ctx.indices() {
            let mut rng = ctx.rng(i);
            let accept = rng.chance(2, 3);
            let repo = &repos[accept as usize].repo;
            let store = repo.store().clone();
            let mut tx = repo.start_transaction();
            let mut_repo = tx.repo_mut();
            let names = rng.range(2, 4) as u8;
            let depth = rng.range(0, 2) as u32;
            let rich = rng.chance(1, 4);

            // ---- a stack with side branches and merges; position 0 is the root commit
            // Index 0 (fixed) and one case in ten: a MERGE commit (2-3 parents that changed
            // different and overlapping paths, the merge re-editing what its parents
            // touched, 0-3 descendants) is squashed whole into one of its parents.
            let corpus = i == 0;
            let special = corpus || rng.chance(1, 10);
            let mut n = rng.range(4, 9) as usize;
            let mut commits: Vec<Commit> = vec![store.root_commit()];
            let mut parents: Vec<Vec<usize>> = vec![vec![]];
            let mut mem: Vec<Option<T>> = vec![Some(T::new())];
            let mut forced: Option<(usize, usize)> = None;
            if special {
                let fl = |c: usize| V::File { c, x: false, cp: 0 };
                let mut t_b = if corpus { T::new() } else { gen_tree(&mut rng, 1, 4, false) };
                t_b.insert(0, fl(0));
                t_b.insert(1, fl(8));
                let k = if corpus || rng.chance(2, 3) { 2 } else { 3 };
                let mut plan: Vec<(Vec<usize>, T)> = vec![(vec![0], t_b.clone())];
                let mut t1 = if corpus { t_b.clone() } else { let e = rng.below(2); mutated(&mut rng, &t_b, e, 4, false) };
                t1.insert(0, fl(1));
                plan.push((vec![1], t1));
                let mut t2 = if corpus { t_b.clone() } else { let e = rng.below(2); mutated(&mut rng, &t_b, e, 4, false) };
                if corpus || rng.chance(1, 2) {
                    t2.insert(0, fl(2));
                }
                t2.insert(1, fl(9));
                plan.push((vec![1], t2));
                if k == 3 {
                    let e = 1 + rng.below(2);
                    let t3 = mutated(&mut rng, &t_b, e, 4, false);
                    plan.push((vec![if rng.chance(1, 2) { 1 } else { 2 }], t3));
                }
                for (ps, t) in plan {
                    let pids: Vec<CommitId> = ps.iter().map(|p| commits[*p].id().clone()).collect();
                    let commit = mut_repo
                        .new_commit(pids, resolved_tree(&store, &t))
                        .write()
                        .block_on()
                        .unwrap();
                    commits.push(commit);
                    parents.push(ps);
                    mem.push(Some(t));
                }
                // the merge commit: the auto-merged parents, with entries its parents touched edited again
                let mps: Vec<usize> = (2..2 + k).collect();
                let pc: Vec<Commit> = mps.iter().map(|p| commits[*p].clone()).collect();
                let auto = jj_lib::rewrite::merge_commit_trees(mut_repo, &pc).block_on().unwrap();
                let mut edits: Vec<(u8, V)> = vec![];
                if corpus || rng.chance(2, 3) {
                    edits.push((1, fl(10)));
                }
                if !corpus && rng.chance(1, 2) {
                    edits.push((0, fl(if rng.chance(1, 2) { 4 } else { 3 })));
                }
                if !corpus && rng.chance(1, 3) {
                    edits.push((2, fl(11)));
                }
                let mtree = with_overrides(&store, &auto, &edits);
                let pids: Vec<CommitId> = mps.iter().map(|p| commits[*p].id().clone()).collect();
                let m = mut_repo.new_commit(pids, mtree).write().block_on().unwrap();
                commits.push(m);
                parents.push(mps.clone());
                mem.push(None);
                let m_idx = commits.len() - 1;
                let nd = if corpus { 2 } else { rng.usize(4) };
                for _ in 0..nd {
                    let prev = commits.len() - 1;
                    let name = if corpus { 3 } else { rng.below(4) as u8 };
                    let c = if corpus { 9 } else { 8 + rng.usize(4) };
                    let t = with_overrides(&store, &commits[prev].tree(), &[(name, fl(c))]);
                    let ps = if !corpus && prev != m_idx && rng.chance(1, 4) { vec![prev, m_idx] } else { vec![prev] };
                    let pids: Vec<CommitId> = ps.iter().map(|p| commits[*p].id().clone()).collect();
                    let c = mut_repo.new_commit(pids, t).write().block_on().unwrap();
                    commits.push(c);
                    parents.push(ps);
                    mem.push(None);
                }
                n = commits.len() - 1;
                forced = Some((m_idx, if corpus { 2 } else { 2 + rng.usize(k) }));
            }
            for k in 1..=(if special { 0 } else { n }) {
                let ps: Vec<usize> = match rng.below(10) {
                    0..=6 => vec![k - 1],
                    7 => vec![rng.usize(k)],
                    _ if k >= 2 => {
                        let o = rng.usize(k - 1);
                        vec![k - 1, o]
                    }
                    _ => vec![k - 1],
                };
                let base = mem[ps[0]].clone();
                let (tree, m): (MergedTree, Option<T>) = match rng.below(12) {
                    0 => (commits[ps[0]].tree(), base.clone()),
                    1 if ps.len() > 1 => {
                        let pc: Vec<Commit> = ps.iter().map(|p| commits[*p].clone()).collect();
                        (
                            jj_lib::rewrite::merge_commit_trees(mut_repo, &pc).block_on().unwrap(),
                            None,
                        )
                    }
                    2 if base.is_some() => {
                        let b = base.clone().unwrap();
                        let l = mutated(&mut rng, &b, 1, names, rich);
                        let r = mutated(&mut rng, &b, 2, names, rich);
                        let merged = MergedTree::merge(Merge::from_vec(vec![
                            (resolved_tree(&store, &l), "l".to_string()),
                            (resolved_tree(&store, &b), "b".to_string()),
                            (resolved_tree(&store, &r), "r".to_string()),
                        ]))
                        .block_on()
                        .unwrap();
                        (merged, None)
                    }
                    _ => {
                        let t = match &base {
                            Some(b) => {
                                let e = 1 + rng.geometric(3);
                                mutated(&mut rng, b, e, names, rich)
                            }
                            None => gen_tree(&mut rng, depth, names, rich),
                        };
                        (resolved_tree(&store, &t), Some(t))
                    }
                };
                let pids: Vec<CommitId> = ps.iter().map(|p| commits[*p].id().clone()).collect();
                let commit = mut_repo.new_commit(pids, tree).write().block_on().unwrap();
                commits.push(commit);
                parents.push(ps);
                mem.push(m);
            }
            let pos_in_table = |id: &CommitId| commits.iter().position(|c| c.id() == id);
            let descendants_of = |c: usize| -> Vec<usize> {
                let mut below = vec![false; n + 1];
                below[c] = true;
                for k in c + 1..=n {
                    below[k] = parents[k].iter().any(|p| below[*p]);
                }
                (c + 1..=n).filter(|k| below[*k]).collect()
            };
            let ancestors_of = |c: usize| -> Vec<usize> {
                let mut above = vec![false; n + 1];
                above[c] = true;
                for k in (0..=c).rev() {
                    if above[k] {
                        for p in &parents[k] {
                            above[*p] = true;
                        }
                    }
                }
                (1..c).filter(|k| above[*k]).collect()
            };

            // ---- the operation
            let what = if forced.is_some() { 0 } else { rng.below(20) };
            let src = match forced {
                Some((m, _)) => m,
                None => 2 + rng.usize(n - 1), // a commit with at least one non-root ancestor candidate
            };
            let source = commits[src].clone();
            let parent_tree = source.parent_tree(mut_repo as &dyn Repo).block_on().unwrap();
            let mut news: Vec<NewCommit> = vec![];
            let mut keep_top: Option<CommitId> = None; // final version of the top commit
            // squash makes its promise for a destination that is the source's only parent
            let mut in_scope = true;
            let mut descendants_only = false;
            let mut failed = false;
            let op_name;
            let what_code;
            if what < 9 {
                // ---------------- squash into an ancestor (usually the parent)
                op_name = "squash";
                let anc = ancestors_of(src);
                let dst = if let Some((_, d)) = forced {
                    d
                } else if anc.is_empty() || rng.chance(5, 6) && parents[src][0] != 0 {
                    parents[src][0]
                } else {
                    *rng.pick(&anc)
                };
                in_scope = parents[src] == vec![dst];
                // A merge commit squashed whole into ONE of its parents is outside the kept-trees
                // law: the destination does not become the merge (it lacks the other parents'
                // changes) and, when the merge's own edits conflict with that parent, the
                // descendants do not keep their trees on the unchanged code either (observed:
                // 8 of 50 such cases). These cases are compared by correspondence only.
                descendants_only = false;
                if dst == 0 {
                    // the root commit cannot be rewritten: nothing to do in this case
                    ctx.count("skipped: destination is the root");
                    continue;
                }
                let full = forced.is_some() || rng.chance(1, 2);
                let keep_emptied = forced.is_none() && rng.chance(1, 6);
                let selected = select(&mut rng, &store, &parent_tree, &source.tree(), full);
                let destination = commits[dst].clone();
                let sel = CommitWithSelection {
                    commit: source.clone(),
                    selected_tree: selected.clone(),
                    parent_tree: parent_tree.clone(),
                };
                let abandon = !keep_emptied && sel.is_full_selection();
                // a selection squashed out of a conflicted source is outside the statement
                what_code = if !sel.is_full_selection() && !source.tree_ids().is_resolved() { 3 } else { 0 };
                let skip = !abandon && sel.is_empty_selection();
                let res = jjv::catch(|| {
                    let squashed = squash_commits(mut_repo, &[sel], &destination, keep_emptied)
                        .block_on()
                        .ok()??;
                    let new_dest = squashed.commit_builder.write().block_on().ok()?;
                    Some(new_dest)
                });
                match res {
                    Some(Some(new_dest)) => {
                        if !abandon {
                            // the rewritten source was written first
                            let ids = mut_repo.new_parents(&[source.id().clone()]);
                            let s1 = store.get_commit(&ids[0]).unwrap();
                            news.push(NewCommit {
                                commit: s1,
                                origin: source.id().clone(),
                                kind: Kind::Merge(Some(source.id().clone()), vec![selected.clone(), parent_tree.clone()]),
                            });
                        }
                        news.push(NewCommit {
                            commit: new_dest.clone(),
                            origin: destination.id().clone(),
                            kind: Kind::Merge(Some(destination.id().clone()), vec![parent_tree.clone(), selected.clone()]),
                        });
                        if abandon {
                            keep_top = Some(new_dest.id().clone());
                        }
                    }
                    Some(None) if skip => {
                        ctx.count("skipped: empty selection");
                        continue;
                    }
                    _ => failed = true,
                }
            } else if what < 15 {
                // ---------------- absorb path-level selections into ancestors
                op_name = "absorb";
                what_code = 1;
                let anc: Vec<usize> = ancestors_of(src);
                if anc.is_empty() {
                    ctx.count("skipped: no destination");
                    continue;
                }
                let asrc = AbsorbSource::from_commit(mut_repo as &dyn Repo, source.clone())
                    .block_on()
                    .unwrap();
                let entries: Vec<_> = parent_tree
                    .diff_stream(&source.tree(), &EverythingMatcher)
                    .collect::<Vec<_>>()
                    .block_on();
                let mut builders: HashMap<CommitId, MergedTreeBuilder> = HashMap::new();
                let mut twins: HashMap<CommitId, MergedTreeBuilder> = HashMap::new();
                for entry in entries {
                    if rng.chance(1, 3) {
                        continue;
                    }
                    let d = *rng.pick(&anc);
                    let id = commits[d].id().clone();
                    let values = entry.values.unwrap();
                    builders
                        .entry(id.clone())
                        .or_insert_with(|| MergedTreeBuilder::new(parent_tree.clone()))
                        .set_or_remove(entry.path.clone(), values.after.clone());
                    twins
                        .entry(id)
                        .or_insert_with(|| MergedTreeBuilder::new(parent_tree.clone()))
                        .set_or_remove(entry.path, values.after);
                }
                if builders.is_empty() {
                    ctx.count("skipped: nothing selected");
                    continue;
                }
                let selected: HashMap<CommitId, MergedTree> = twins
                    .into_iter()
                    .map(|(id, b)| (id, b.write_tree().block_on().unwrap()))
                    .collect();
                let stats = jjv::catch(|| absorb_hunks(mut_repo, &asrc, builders).block_on().ok()).flatten();
                match stats {
                    Some(stats) => {
                        for (k, old) in commits.iter().enumerate() {
                            if k == 0 {
                                continue;
                            }
                            let ids = mut_repo.new_parents(&[old.id().clone()]);
                            if ids.len() != 1 || &ids[0] == old.id() {
                                continue;
                            }
                            if k == src && stats.rewritten_source.is_none() {
                                // abandoned: the top resulting commit is what replaced it
                                keep_top = Some(ids[0].clone());
                                continue;
                            }
                            let new = store.get_commit(&ids[0]).unwrap();
                            let kind = if k == src {
                                Kind::Keep
                            } else if let Some(x) = selected.get(old.id()) {
                                Kind::Merge(None, vec![parent_tree.clone(), x.clone()])
                            } else {
                                Kind::Rebase
                            };
                            news.push(NewCommit {
                                commit: new,
                                origin: old.id().clone(),
                                kind,
                            });
                        }
                    }
                    None => failed = true,
                }
            } else {
                // ---------------- split (the library calls of cmd_split / rewrite_descendants)
                let parallel = what == 19;
                op_name = if parallel { "split-parallel" } else { "split" };
                what_code = 2;
                let full = rng.chance(1, 8);
                let selected = select(&mut rng, &store, &parent_tree, &source.tree(), full);
                let res = jjv::catch(|| {
                    let first = {
                        let mut b = mut_repo.rewrite_commit(&source).detach();
                        b.set_tree(selected.clone());
                        b.write(mut_repo).block_on().ok()?
                    };
                    let second_tree = if parallel {
                        MergedTree::merge(Merge::from_vec(vec![
                            (source.tree(), "split revision".to_string()),
                            (selected.clone(), "selected".to_string()),
                            (parent_tree.clone(), "parents".to_string()),
                        ]))
                        .block_on()
                        .ok()?
                    } else {
                        source.tree()
                    };
                    let second = {
                        let mut b = mut_repo.rewrite_commit(&source).detach();
                        let ps = if parallel {
                            source.parent_ids().to_vec()
                        } else {
                            vec![first.id().clone()]
                        };
                        b.set_parents(ps).set_tree(second_tree);
                        b.clear_rewrite_source();
                        b.generate_new_change_id();
                        b.write(mut_repo).block_on().ok()?
                    };
                    let mut rebased: Vec<(CommitId, Commit)> = vec![];
                    mut_repo
                        .transform_descendants(vec![source.id().clone()], async |mut rewriter| {
                            let old = rewriter.old_commit().id().clone();
                            if parallel {
                                rewriter.replace_parent(first.id(), [first.id(), second.id()]);
                            } else {
                                rewriter.replace_parent(first.id(), [second.id()]);
                            }
                            let c = rewriter.rebase().await?.write().await?;
                            rebased.push((old, c));
                            Ok(())
                        })
                        .block_on()
                        .ok()?;
                    Some((first, second, rebased))
                })
                .flatten();
                match res {
                    Some((first, second, rebased)) => {
                        news.push(NewCommit {
                            commit: first,
                            origin: source.id().clone(),
                            kind: Kind::Given(selected.clone()),
                        });
                        let kind = if parallel {
                            Kind::Merge(Some(source.id().clone()), vec![selected.clone(), parent_tree.clone()])
                        } else {
                            Kind::Keep
                        };
                        if !parallel {
                            keep_top = Some(second.id().clone());
                        }
                        news.push(NewCommit {
                            commit: second,
                            origin: source.id().clone(),
                            kind,
                        });
                        for (old, c) in rebased {
                            news.push(NewCommit {
                                commit: c,
                                origin: old,
                                kind: Kind::Rebase,
                            });
                        }
                    }
                    None => failed = true,
                }
            }

            // ---- rebase the descendants of everything rewritten (no-op after absorb / split)
            let map: HashMap<CommitId, CommitId> = if failed {
                HashMap::new()
            } else {
                jjv::catch(|| {
                    testutils::rebase_descendants_with_options_return_map(mut_repo, &RebaseOptions::default())
                })
                .unwrap_or_else(|| {
                    failed = true;
                    HashMap::new()
                })
            };
            if failed {
                ctx.panicked();
                ctx.note(format!("case {i}: {op_name} failed"));
                continue;
            }
            let abandoned: BTreeSet<CommitId> = map
                .iter()
                .filter(|(old, new)| {
                    // Abandoned { parent_id }: the "new" commit is not a rewrite of the old one
                    let new_commit = store.get_commit(new).unwrap();
                    let old_commit = store.get_commit(old).unwrap();
                    new_commit.change_id() != old_commit.change_id()
                })
                .map(|(old, _)| old.clone())
                .collect();
            for (old, new) in &map {
                if abandoned.contains(old) {
                    continue;
                }
                news.push(NewCommit {
                    commit: store.get_commit(new).unwrap(),
                    origin: old.clone(),
                    kind: Kind::Rebase,
                });
            }

            // ---- order the new commits by index position and number them
            let order = order_by_index(mut_repo, news.iter().map(|x| x.commit.id().clone()).collect());
            let mut rows: Vec<&NewCommit> = vec![];
            for id in &order {
                if let Some(x) = news.iter().find(|x| x.commit.id() == id) {
                    rows.push(x);
                }
            }
            let ref_of = |id: &CommitId| -> Option<u64> {
                if let Some(p) = pos_in_table(id) {
                    return Some(p as u64);
                }
                rows.iter()
                    .position(|x| x.commit.id() == id)
                    .map(|j| (n + 1 + j) as u64)
            };
            // final version of an original commit
            let final_of = |old: &CommitId| -> CommitId {
                let mut cur = old.clone();
                for _ in 0..10 {
                    let next = news
                        .iter()
                        .find(|x| x.origin == cur && x.commit.id() != &cur && !matches!(x.kind, Kind::Given(_)))
                        .map(|x| x.commit.id().clone());
                    match next {
                        Some(nx) => cur = nx,
                        None => break,
                    }
                }
                cur
            };

            // ---- encode
            let mut intern = Interner::new(store.clone());
            let mut crow = vec![];
            for (k, c) in commits.iter().enumerate() {
                crow.push(coq::pair(
                    coq::list(parents[k].iter(), |p| coq::n(*p as u64)),
                    intern.trees(c.tree_ids()),
                ));
            }
            let mut seen = BTreeSet::new();
            let mut oracle_rows = vec![];
            let mut rrow = vec![];
            let mut bad_ref = false;
            for x in &rows {
                let origin = ref_of(&x.origin).unwrap_or_else(|| {
                    bad_ref = true;
                    0
                });
                let ps: Vec<u64> = x
                    .commit
                    .parent_ids()
                    .iter()
                    .map(|p| {
                        ref_of(p).unwrap_or_else(|| {
                            bad_ref = true;
                            0
                        })
                    })
                    .collect();
                let kind = match &x.kind {
                    Kind::Rebase => "KRebase".to_string(),
                    Kind::Keep => "KKeep".to_string(),
                    Kind::Given(t) => format!("(KGiven {})", intern.trees(t.tree_ids())),
                    Kind::Merge(base, terms) => {
                        let b = match base {
                            Some(id) => format!("(Some {})", ref_of(id).unwrap()),
                            None => "None".to_string(),
                        };
                        let ts: Vec<String> = terms.iter().map(|t| intern.trees(t.tree_ids())).collect();
                        format!("(KMerge {b} {})", list_of(ts))
                    }
                };
                rrow.push(coq::app(
                    "mk_row",
                    &[
                        coq::n(origin),
                        kind,
                        coq::list(ps.iter(), |p| coq::n(*p)),
                        format!("(Some {})", intern.trees(x.commit.tree_ids())),
                    ],
                ));
                // content merges that computing this commit's tree may need
                let origin_commit = store.get_commit(&x.origin).unwrap();
                let old_parents: Vec<Commit> = origin_commit.parents().block_on().unwrap();
                let new_parents: Vec<Commit> = x.commit.parents().block_on().unwrap();
                let mut inputs: Vec<Merge<jj_lib::backend::TreeId>> = vec![];
                let needs_rebase = matches!(x.kind, Kind::Rebase | Kind::Merge(None, _));
                let mut rebased_tree: Option<MergedTree> = None;
                if needs_rebase {
                    let ob = merge_commit_trees_no_resolve(mut_repo as &dyn Repo, &old_parents)
                        .block_on()
                        .unwrap();
                    let nb = merge_commit_trees_no_resolve(mut_repo as &dyn Repo, &new_parents)
                        .block_on()
                        .unwrap();
                    inputs.push(ob.tree_ids().clone());
                    inputs.push(nb.tree_ids().clone());
                    let obr = jj_lib::rewrite::merge_commit_trees(mut_repo as &dyn Repo, &old_parents)
                        .block_on()
                        .unwrap();
                    let nbr = jj_lib::rewrite::merge_commit_trees(mut_repo as &dyn Repo, &new_parents)
                        .block_on()
                        .unwrap();
                    let m = Merge::from_vec(vec![
                        (nbr, "nb".to_string()),
                        (obr, "ob".to_string()),
                        (origin_commit.tree(), "ot".to_string()),
                    ]);
                    inputs.push(MergedTree::merge_no_resolve(m.clone()).into_tree_ids());
                    rebased_tree = MergedTree::merge(m).block_on().ok();
                }
                if let Kind::Merge(base, terms) = &x.kind {
                    let b = match base {
                        Some(id) => Some(store.get_commit(id).unwrap().tree()),
                        None => rebased_tree.clone(),
                    };
                    if let Some(b) = b {
                        let mut v = vec![(b, "base".to_string())];
                        for t in terms {
                            v.push((t.clone(), "term".to_string()));
                        }
                        inputs.push(MergedTree::merge_no_resolve(Merge::from_vec(v)).into_tree_ids());
                    }
                }
                for ts0 in &inputs {
                    oracle_rounds(&store, &mut intern, ts0, &mut seen, &mut oracle_rows);
                }
            }
            if bad_ref {
                ctx.panicked();
                ctx.note(format!("case {i}: {op_name}: a new commit refers to an unknown commit"));
                continue;
            }
            // the top commit and its descendants must keep their trees
            let mut keeps: Vec<(u64, u64)> = vec![];
            let mut keeps_side: Vec<(u64, u64)> = vec![];
            let top_final = keep_top.clone().unwrap_or_else(|| final_of(source.id()));
            let parallel_split = op_name == "split-parallel";
            if in_scope || descendants_only {
                if !parallel_split && !descendants_only {
                    // (split --parallel has no single top commit)
                    if let Some(r) = ref_of(&top_final) {
                        keeps.push((src as u64, r));
                    }
                }
                // descendants that also descend, through another parent outside the source's
                // line, from a commit rewritten to a different tree go to the second list
                let line: Vec<usize> = std::iter::once(src).chain(descendants_of(src)).collect();
                let mut tainted = vec![false; n + 1];
                for d in descendants_of(src) {
                    tainted[d] = parents[d].iter().any(|p| {
                        if line.contains(p) {
                            tainted[*p]
                        } else {
                            let f = final_of(commits[*p].id());
                            store.get_commit(&f).unwrap().tree_ids() != commits[*p].tree_ids()
                        }
                    });
                    let f = final_of(commits[d].id());
                    if let Some(r) = ref_of(&f) {
                        if tainted[d] {
                            keeps_side.push((d as u64, r));
                        } else {
                            keeps.push((d as u64, r));
                        }
                    }
                }
            }
            let term = coq::app(
                "C09.mk_case",
                &[
                    coq::b(accept),
                    intern.table(),
                    list_of(crow),
                    list_of(oracle_rows),
                    list_of(rrow),
                    coq::list(keeps.iter(), |(a, b)| coq::pair(coq::n(*a), coq::n(*b))),
                    coq::list(keeps_side.iter(), |(a, b)| coq::pair(coq::n(*a), coq::n(*b))),
                    coq::n(what_code),
                ],
            );
            let conflicted = commits.iter().any(|c| !c.tree_ids().is_resolved());
            let plain = keeps_side.is_empty() && what_code != 3 && !special && in_scope;
            let shape = format!(
                "{op_name}{}{}{}{}{}",
                if keeps_side.is_empty() { "" } else { " side-merge" },
                if what_code == 3 { " (selection of a conflicted source)" } else { "" },
                if special { " (merge into a parent)" } else if in_scope { "" } else { " (ancestor dest)" },
                if plain { format!(" desc={}", descendants_of(src).len().min(2)) } else { String::new() },
                if conflicted { " conflicted-input" } else { "" }
            );
            // merge commits squashed into a parent carry no kept pairs: they count through
            // the correspondence of the rows they produce
            ctx.emit(i, term, !rows.is_empty() && (!keeps.is_empty() || special), &shape);
        }
    });
}
