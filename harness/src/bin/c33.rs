//! C33: Git ref names <-> jj bookmark/tag symbols. Runs the real `parse_git_ref`,
//! `to_git_ref_name`, `validate_remote_name`, `parse_remote_tag_ref`,
//! `to_git_or_remote_tag_ref_name` (lib/src/git.rs; the private ones through the add-only
//! `verif_*` re-exports) and records every answer as an observation.
use gix::bstr::ByteSlice as _;
use jj_lib::git::GitRefKind;
use jj_lib::git::GitRemoteNameError;
use jj_lib::git::parse_git_ref;
use jj_lib::git::verif_parse_remote_tag_ref;
use jj_lib::git::verif_to_git_or_remote_tag_ref_name;
use jj_lib::git::verif_to_git_ref_name;
use jj_lib::git::verif_validate_remote_name;
use jj_lib::ref_name::GitRefName;
use jj_lib::ref_name::RefName;
use jj_lib::ref_name::RemoteName;
use jj_lib::ref_name::RemoteRefSymbol;
use jjv::Rng;
use jjv::coq;

const COMPONENTS: &[&str] = &[
    "a", "b", "c", "main", "HEAD", "git", "origin", "refs", "heads", "tags", "remotes", "jj",
    "remote-tags", "é", "日本", "x y", ".", "..", "-", "@", "head", "Git", "gi", "gitt", "HEA",
    "HEADS", "a.lock", "*",
];

fn component(rng: &mut Rng) -> String {
    if rng.chance(1, 12) {
        // a fresh short unicode/ascii string
        let pool = ['a', 'b', 'z', 'G', 'é', 'ß', '日', '😀', ' ', '-', '.', '\\', ':', '~'];
        (0..rng.range(1, 3)).map(|_| *rng.pick(&pool)).collect()
    } else {
        rng.pick(COMPONENTS).to_string()
    }
}

/// A name of 1..3 components; `clean` = no empty components.
fn name(rng: &mut Rng, clean: bool) -> String {
    let k = 1 + rng.geometric(2) as usize;
    let mut parts: Vec<String> = (0..k).map(|_| component(rng)).collect();
    if !clean {
        match rng.below(6) {
            0 => parts.insert(0, String::new()),
            1 => parts.push(String::new()),
            2 => {
                let at = rng.usize(parts.len() + 1);
                parts.insert(at, String::new());
            }
            3 => return String::new(),
            _ => {}
        }
    }
    parts.join("/")
}

fn remote(rng: &mut Rng) -> String {
    match rng.below(20) {
        0..=6 => "git".to_string(),
        7..=13 => component(rng),
        14..=16 => name(rng, true), // may contain '/'
        17 => name(rng, false),
        18 => String::new(),
        _ => format!("git/{}", component(rng)),
    }
}

const NAMESPACES: &[&str] = &[
    "refs/heads/",
    "refs/remotes/",
    "refs/tags/",
    "refs/jj/remote-tags/",
    "refs/remotes/git/",
    "refs/",
    "refs/head/",
    "refs/heads",
    "refs/Heads/",
    "refs/notes/",
    "refs/jj/",
    "",
    "/refs/heads/",
];

#[derive(Clone, PartialEq, Eq)]
struct Sym {
    tag: bool,
    name: String,
    remote: String,
}

fn kind_of(tag: bool) -> GitRefKind {
    if tag { GitRefKind::Tag } else { GitRefKind::Bookmark }
}

fn coq_kind(tag: bool) -> &'static str {
    if tag { "C33.Tag" } else { "C33.Bookmark" }
}

fn coq_sym(name: &str, remote: &str) -> String {
    coq::pair(coq::bytes(name.as_bytes()), coq::bytes(remote.as_bytes()))
}

fn coq_ksym(tag: bool, name: &str, remote: &str) -> String {
    coq::pair(coq_kind(tag).to_string(), coq_sym(name, remote))
}

struct Obs {
    terms: Vec<String>,
    panicked: bool,
    exports_ok: usize,
    parses_ok: usize,
    slash_remote: bool,
    validated_ok: bool,
    seen_refs: Vec<String>,
    seen_syms: Vec<Sym>,
}

impl Obs {
    fn git_valid(&mut self, r: &str) {
        if gix::validate::reference::name(r.as_bytes().as_bstr()).is_ok() {
            self.terms
                .push(coq::app("C33.OGitValid", &[coq::bytes(r.as_bytes())]));
        }
    }

    /// parse_git_ref(r), then export of the parsed symbol.
    fn parse(&mut self, r: &str, follow: bool) {
        if self.seen_refs.iter().any(|x| x == r) || self.terms.len() > 60 {
            return;
        }
        self.seen_refs.push(r.to_string());
        let res = jjv::catch(|| {
            parse_git_ref(GitRefName::new(r)).map(|(k, s)| {
                (
                    k == GitRefKind::Tag,
                    s.name.as_str().to_string(),
                    s.remote.as_str().to_string(),
                )
            })
        });
        let Some(res) = res else {
            self.panicked = true;
            return;
        };
        self.terms.push(coq::app(
            "C33.OParse",
            &[
                coq::bytes(r.as_bytes()),
                coq::opt(res.clone(), |(t, n, rm)| coq_ksym(t, &n, &rm)),
            ],
        ));
        self.git_valid(r);
        if let Some((tag, name, remote)) = res {
            self.parses_ok += 1;
            if follow {
                self.export(&Sym { tag, name, remote }, true);
            }
        }
    }

    /// to_git_ref_name(kind, symbol), then parse of the exported ref.
    fn export(&mut self, s: &Sym, follow: bool) {
        if self.seen_syms.iter().any(|x| x == s) || self.terms.len() > 60 {
            return;
        }
        self.seen_syms.push(s.clone());
        let res = jjv::catch(|| {
            let symbol = RemoteRefSymbol {
                name: RefName::new(&s.name),
                remote: RemoteName::new(&s.remote),
            };
            verif_to_git_ref_name(kind_of(s.tag), symbol).map(|r| r.as_str().to_string())
        });
        let Some(res) = res else {
            self.panicked = true;
            return;
        };
        self.terms.push(coq::app(
            "C33.OExport",
            &[
                coq_kind(s.tag).to_string(),
                coq_sym(&s.name, &s.remote),
                coq::opt(res.clone(), |r| coq::bytes(r.as_bytes())),
            ],
        ));
        if s.remote.contains('/') {
            self.slash_remote = true;
        }
        if let Some(r) = res {
            self.exports_ok += 1;
            if follow {
                self.parse(&r, true);
            }
        }
    }

    fn validate(&mut self, rm: &str) {
        let gix_ok = jjv::catch(|| gix::remote::name::validated(rm).is_ok());
        let res = jjv::catch(|| verif_validate_remote_name(RemoteName::new(rm)));
        let (Some(gix_ok), Some(res)) = (gix_ok, res) else {
            self.panicked = true;
            return;
        };
        let verdict = match res {
            Ok(()) => {
                self.validated_ok = true;
                "C33.RvOk"
            }
            Err(GitRemoteNameError::InvalidName(_)) => "C33.RvInvalidName",
            Err(GitRemoteNameError::ReservedForLocalGitRepo) => "C33.RvReserved",
            Err(GitRemoteNameError::WithSlash(_)) => "C33.RvWithSlash",
        };
        self.terms.push(coq::app(
            "C33.OValidate",
            &[coq::bytes(rm.as_bytes()), coq::b(gix_ok), verdict.to_string()],
        ));
    }

    fn rtag_parse(&mut self, r: &str) {
        let res = jjv::catch(|| {
            verif_parse_remote_tag_ref(GitRefName::new(r)).map(|(k, s)| {
                (
                    k == GitRefKind::Tag,
                    s.name.as_str().to_string(),
                    s.remote.as_str().to_string(),
                )
            })
        });
        let Some(res) = res else {
            self.panicked = true;
            return;
        };
        self.terms.push(coq::app(
            "C33.ORtagParse",
            &[
                coq::bytes(r.as_bytes()),
                coq::opt(res, |(t, n, rm)| coq_ksym(t, &n, &rm)),
            ],
        ));
    }

    fn rtag_export(&mut self, s: &Sym) {
        let res = jjv::catch(|| {
            let symbol = RemoteRefSymbol {
                name: RefName::new(&s.name),
                remote: RemoteName::new(&s.remote),
            };
            verif_to_git_or_remote_tag_ref_name(symbol).as_str().to_string()
        });
        let Some(r) = res else {
            self.panicked = true;
            return;
        };
        self.terms.push(coq::app(
            "C33.ORtagExport",
            &[coq_sym(&s.name, &s.remote), coq::bytes(r.as_bytes())],
        ));
        self.rtag_parse(&r);
        self.parse(&r, true);
    }
}

fn main() {
    jjv::run("C33", "C33", |ctx| {
        for i in ctx.indices() {
            let mut rng = ctx.rng(i);
            let mut o = Obs {
                terms: vec![],
                panicked: false,
                exports_ok: 0,
                parses_ok: 0,
                slash_remote: false,
                validated_ok: false,
                seen_refs: vec![],
                seen_syms: vec![],
            };
            // --- symbols: one random, one "neighbour" aimed at a collision
            let clean = !rng.chance(1, 5);
            let s1 = Sym {
                tag: rng.chance(1, 3),
                name: name(&mut rng, clean),
                remote: remote(&mut rng),
            };
            let s2 = match rng.below(6) {
                // move the name/remote boundary: "c"@"a/b" vs "b/c"@"a"
                0 | 1 => {
                    let joined = format!("{}/{}", s1.remote, s1.name);
                    let cuts: Vec<usize> =
                        joined.match_indices('/').map(|(p, _)| p).collect();
                    let p = *rng.pick(&cuts);
                    Sym {
                        tag: s1.tag,
                        name: joined[p + 1..].to_string(),
                        remote: joined[..p].to_string(),
                    }
                }
                // the other kind
                2 => Sym { tag: !s1.tag, ..s1.clone() },
                // local name that spells a remote ref / tag
                3 => Sym {
                    tag: rng.chance(1, 2),
                    name: format!("{}{}", rng.pick(NAMESPACES), s1.name),
                    remote: "git".to_string(),
                },
                // "git" remote spelled as a name prefix
                4 => Sym {
                    tag: false,
                    name: format!("git/{}", s1.name),
                    remote: remote(&mut rng),
                },
                _ => Sym {
                    tag: rng.chance(1, 3),
                    name: name(&mut rng, true),
                    remote: remote(&mut rng),
                },
            };
            for s in [&s1, &s2] {
                o.export(s, true);
                o.validate(&s.remote);
                o.rtag_export(s);
            }
            // --- refs: namespace x name, and damaged copies of an exported ref
            let n_refs = 1 + rng.below(2);
            for _ in 0..n_refs {
                let r = match rng.below(5) {
                    0 | 1 => format!("{}{}", rng.pick(NAMESPACES), name(&mut rng, true)),
                    2 => format!("{}{}", rng.pick(NAMESPACES), name(&mut rng, false)),
                    3 => format!("refs/remotes/{}/{}", remote(&mut rng), name(&mut rng, true)),
                    _ => {
                        // drop or double one character of an already seen ref
                        let base = if o.seen_refs.is_empty() {
                            "refs/heads/main".to_string()
                        } else {
                            rng.pick(&o.seen_refs).clone()
                        };
                        let chars: Vec<char> = base.chars().collect();
                        if chars.is_empty() {
                            base
                        } else {
                            let p = rng.usize(chars.len());
                            let mut v = chars.clone();
                            if rng.chance(1, 2) {
                                v.remove(p);
                            } else {
                                v.insert(p, chars[p]);
                            }
                            v.into_iter().collect()
                        }
                    }
                };
                o.parse(&r, true);
                o.rtag_parse(&r);
            }
            // --- explicit edge pool (the exclusions and the empty-part cases)
            if rng.chance(1, 3) {
                const EDGE_REFS: &[&str] = &[
                    "refs/heads/HEAD",
                    "refs/remotes/origin/HEAD",
                    "refs/remotes/git/main",
                    "refs/remotes/git/HEAD",
                    "refs/heads/",
                    "refs/tags/",
                    "refs/remotes/origin/",
                    "refs/remotes//x",
                    "refs/remotes/origin",
                    "refs/heads/HEAD/x",
                    "refs/heads/x/HEAD",
                    "refs/tags/HEAD",
                    "refs/remotes/a/b/HEAD",
                    "refs/remotes/gi/t",
                    "refs/jj/remote-tags/origin/v1",
                    "refs/jj/remote-tags/git/v1",
                    "refs/jj/remote-tags/origin",
                    "HEAD",
                    "refs/heads",
                    "refs/heads/head",
                    "refs/heads/Head",
                    "refs/remotes/origin/head",
                    "refs/remotes/Git/main",
                    "refs/remotes/GIT/HEAD",
                    "refs/Heads/main",
                    "refs/Tags/v1",
                    "Refs/heads/main",
                    "refs/jj/remote-tags/Git/v1",
                ];
                let r = *rng.pick(EDGE_REFS);
                o.parse(r, true);
                o.rtag_parse(r);
            }
            if rng.chance(1, 6) {
                let s = Sym {
                    tag: rng.chance(1, 2),
                    name: rng
                        .pick(&["HEAD", "", "HEAD/x", "x/HEAD", "refs/heads/main", "head", "Head"])
                        .to_string(),
                    remote: rng.pick(&["git", "origin", "", "HEAD", "Git", "GIT"]).to_string(),
                };
                o.export(&s, true);
                o.rtag_export(&s);
            }
            if o.panicked {
                ctx.panicked();
            }
            let term = coq::app(
                "C33.mk_case",
                &[coq::list(o.terms.iter(), |t| t.clone()), coq::b(o.panicked)],
            );
            let shape = format!(
                "exports_ok={} parses_ok={} slash_remote={} remote_accepted={}",
                o.exports_ok.min(2),
                o.parses_ok.min(2),
                o.slash_remote,
                o.validated_ok
            );
            let nontrivial = o.exports_ok >= 1 && o.parses_ok >= 1;
            ctx.emit(i, term, nontrivial, &shape);
        }
    });
}
