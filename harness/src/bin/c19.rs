//! C19: revset evaluation vs set semantics, and the optimizer vs its model.
//!
//! Per block of cases one random DAG is built in a real `TestRepo` over 1-3 transactions
//! (hidden commits, redundant / unnormalized view heads when evaluated inside an open
//! transaction). Per case one random expression is built PROGRAMMATICALLY from the
//! `RevsetExpression` constructors (never through the parser), nesting depth <= 4, and
//!  * `optimize(expr)` is read back from the Rust enum and emitted as a Coq term,
//!  * `expr.evaluate(repo)` (optimized) and `expr.evaluate_unoptimized(repo)` are streamed
//!    and listed as index positions (position = creation order; checked per case by
//!    listing `Commits(all ids)`).
use std::collections::HashMap;
use std::sync::Arc;

use futures::TryStreamExt as _;
use jj_lib::backend::CommitId;
use jj_lib::backend::MillisSinceEpoch;
use jj_lib::backend::Signature;
use jj_lib::backend::Timestamp;
use jj_lib::config::ConfigLayer;
use jj_lib::config::ConfigSource;
use jj_lib::repo::Repo;
use jj_lib::revset::ResolvedRevsetExpression;
use jj_lib::revset::RevsetExpression;
use jj_lib::revset::RevsetFilterPredicate;
use jj_lib::revset::optimize;
use jj_lib::settings::UserSettings;
use jj_lib::str_util::StringExpression;
use jj_lib::str_util::StringPattern;
use jjv::Rng;
use jjv::coq;
use pollster::FutureExt as _;
use testutils::TestRepo;

const U32MAX: u64 = u32::MAX as u64;
const U64MAX: u64 = u64::MAX;
const LETTERS: [&str; 3] = ["a", "b", "c"];
const BLOCK: usize = 10;

type Gen = (u64, u64);
type Pr = (u32, u32);

/// Mirror of Model/C19.v `expr`.
#[derive(Clone, Debug)]
enum E {
    None,
    All,
    VisibleHeads,
    VisibleHeadsOrReferenced,
    Root,
    Commits(Vec<usize>),
    Ancestors(Box<E>, Gen, Pr),
    Descendants(Box<E>, Gen),
    Range(Box<E>, Box<E>, Gen, Pr),
    DagRange(Box<E>, Box<E>),
    Reachable(Box<E>, Box<E>),
    Heads(Box<E>),
    HeadsRange(Box<E>, Box<E>, Pr, Box<E>),
    Roots(Box<E>),
    Forks,
    ForkPoint(Box<E>),
    MergePoint(Box<E>),
    Bisect(Box<E>),
    Latest(Box<E>, usize),
    Filter(usize),
    AsFilter(Box<E>),
    WithinReference(Box<E>, Vec<usize>),
    WithinVisibility(Box<E>, Vec<usize>),
    Coalesce(Box<E>, Box<E>),
    Present(Box<E>),
    NotIn(Box<E>),
    Union(Box<E>, Box<E>),
    Intersection(Box<E>, Box<E>),
    Difference(Box<E>, Box<E>),
}

fn coq_gen(g: &Gen) -> String {
    format!("({}, {})", g.0, g.1)
}
fn coq_pr(p: &Pr) -> String {
    format!("({}, {})", p.0, p.1)
}
fn coq_pos(xs: &[usize]) -> String {
    coq::list(xs.iter(), |x| format!("{x}"))
}

impl E {
    fn coq(&self) -> String {
        match self {
            E::None => "ENone".into(),
            E::All => "EAll".into(),
            E::VisibleHeads => "EVisibleHeads".into(),
            E::VisibleHeadsOrReferenced => "EVisibleHeadsOrReferenced".into(),
            E::Root => "ERoot".into(),
            E::Commits(l) => format!("(eCommits {})", coq_pos(l)),
            E::Ancestors(h, g, p) => format!("(EAncestors {} {} {})", h.coq(), coq_gen(g), coq_pr(p)),
            E::Descendants(r, g) => format!("(EDescendants {} {})", r.coq(), coq_gen(g)),
            E::Range(r, h, g, p) => {
                format!("(ERange {} {} {} {})", r.coq(), h.coq(), coq_gen(g), coq_pr(p))
            }
            E::DagRange(r, h) => format!("(EDagRange {} {})", r.coq(), h.coq()),
            E::Reachable(s, d) => format!("(EReachable {} {})", s.coq(), d.coq()),
            E::Heads(c) => format!("(EHeads {})", c.coq()),
            E::HeadsRange(r, h, p, f) => {
                format!("(EHeadsRange {} {} {} {})", r.coq(), h.coq(), coq_pr(p), f.coq())
            }
            E::Roots(c) => format!("(ERoots {})", c.coq()),
            E::Forks => "EForks".into(),
            E::ForkPoint(c) => format!("(EForkPoint {})", c.coq()),
            E::MergePoint(c) => format!("(EMergePoint {})", c.coq()),
            E::Bisect(c) => format!("(EBisect {})", c.coq()),
            E::Latest(c, k) => format!("(ELatest {} {k})", c.coq()),
            E::Filter(f) => format!("(eFilter {f})"),
            E::AsFilter(c) => format!("(EAsFilter {})", c.coq()),
            E::WithinReference(c, l) => format!("(eWithinReference {} {})", c.coq(), coq_pos(l)),
            E::WithinVisibility(c, l) => format!("(eWithinVisibility {} {})", c.coq(), coq_pos(l)),
            E::Coalesce(a, b) => format!("(ECoalesce {} {})", a.coq(), b.coq()),
            E::Present(c) => format!("(EPresent {})", c.coq()),
            E::NotIn(c) => format!("(ENotIn {})", c.coq()),
            E::Union(a, b) => format!("(EUnion {} {})", a.coq(), b.coq()),
            E::Intersection(a, b) => format!("(EIntersection {} {})", a.coq(), b.coq()),
            E::Difference(a, b) => format!("(EDifference {} {})", a.coq(), b.coq()),
        }
    }

    fn size(&self) -> usize {
        match self {
            E::None
            | E::All
            | E::VisibleHeads
            | E::VisibleHeadsOrReferenced
            | E::Root
            | E::Commits(_)
            | E::Forks
            | E::Filter(_) => 1,
            E::Ancestors(c, ..)
            | E::Descendants(c, _)
            | E::Heads(c)
            | E::Roots(c)
            | E::ForkPoint(c)
            | E::MergePoint(c)
            | E::Bisect(c)
            | E::Latest(c, _)
            | E::AsFilter(c)
            | E::WithinReference(c, _)
            | E::WithinVisibility(c, _)
            | E::Present(c)
            | E::NotIn(c) => 1 + c.size(),
            E::Range(a, b, ..)
            | E::DagRange(a, b)
            | E::Reachable(a, b)
            | E::Coalesce(a, b)
            | E::Union(a, b)
            | E::Intersection(a, b)
            | E::Difference(a, b) => 1 + a.size() + b.size(),
            E::HeadsRange(a, b, _, c) => 1 + a.size() + b.size() + c.size(),
        }
    }

    /// Commits mentioned by `Commits` leaves and trusted scopes (for building well-scoped
    /// `WithinReference` inputs).
    fn commits(&self, out: &mut Vec<usize>) {
        match self {
            E::Commits(l) => out.extend(l),
            E::WithinReference(_, l) => out.extend(l),
            E::WithinVisibility(c, l) => {
                out.extend(l);
                c.commits(out);
            }
            E::None
            | E::All
            | E::VisibleHeads
            | E::VisibleHeadsOrReferenced
            | E::Root
            | E::Forks
            | E::Filter(_) => {}
            E::Ancestors(c, ..)
            | E::Descendants(c, _)
            | E::Heads(c)
            | E::Roots(c)
            | E::ForkPoint(c)
            | E::MergePoint(c)
            | E::Bisect(c)
            | E::Latest(c, _)
            | E::AsFilter(c)
            | E::Present(c)
            | E::NotIn(c) => c.commits(out),
            E::Range(a, b, ..)
            | E::DagRange(a, b)
            | E::Reachable(a, b)
            | E::Coalesce(a, b)
            | E::Union(a, b)
            | E::Intersection(a, b)
            | E::Difference(a, b) => {
                a.commits(out);
                b.commits(out);
            }
            E::HeadsRange(a, b, _, c) => {
                a.commits(out);
                b.commits(out);
                c.commits(out);
            }
        }
    }

    fn build(&self, ids: &[CommitId]) -> Arc<ResolvedRevsetExpression> {
        type R = ResolvedRevsetExpression;
        let idv = |l: &[usize]| -> Vec<CommitId> { l.iter().map(|&x| ids[x].clone()).collect() };
        match self {
            E::None => R::none(),
            E::All => R::all(),
            E::VisibleHeads => R::visible_heads(),
            E::VisibleHeadsOrReferenced => Arc::new(RevsetExpression::VisibleHeadsOrReferenced),
            E::Root => R::root(),
            E::Commits(l) => R::commits(idv(l)),
            E::Ancestors(h, g, p) => Arc::new(RevsetExpression::Ancestors {
                heads: h.build(ids),
                generation: g.0..g.1,
                parents_range: p.0..p.1,
            }),
            E::Descendants(r, g) => r.build(ids).descendants_range(g.0..g.1),
            E::Range(r, h, g, p) => Arc::new(RevsetExpression::Range {
                roots: r.build(ids),
                heads: h.build(ids),
                generation: g.0..g.1,
                parents_range: p.0..p.1,
            }),
            E::DagRange(r, h) => r.build(ids).dag_range_to(&h.build(ids)),
            E::Reachable(s, d) => s.build(ids).reachable(&d.build(ids)),
            E::Heads(c) => c.build(ids).heads(),
            E::HeadsRange(r, h, p, f) => Arc::new(RevsetExpression::HeadsRange {
                roots: r.build(ids),
                heads: h.build(ids),
                parents_range: p.0..p.1,
                filter: f.build(ids),
            }),
            E::Roots(c) => c.build(ids).roots(),
            E::Forks => R::forks(),
            E::ForkPoint(c) => c.build(ids).fork_point(),
            E::MergePoint(c) => c.build(ids).merge_point(),
            E::Bisect(c) => c.build(ids).bisect(),
            E::Latest(c, k) => c.build(ids).latest(*k),
            E::Filter(f) => R::filter(RevsetFilterPredicate::Description(StringExpression::substring(
                LETTERS[*f],
            ))),
            E::AsFilter(c) => Arc::new(RevsetExpression::AsFilter(c.build(ids))),
            E::WithinReference(c, l) => Arc::new(RevsetExpression::WithinReference {
                candidates: c.build(ids),
                commits: idv(l),
            }),
            E::WithinVisibility(c, l) => Arc::new(RevsetExpression::WithinVisibility {
                candidates: c.build(ids),
                visible_heads: idv(l),
            }),
            E::Coalesce(a, b) => R::coalesce(&[a.build(ids), b.build(ids)]),
            E::Present(c) => c.build(ids).present(),
            E::NotIn(c) => c.build(ids).negated(),
            E::Union(a, b) => a.build(ids).union(&b.build(ids)),
            E::Intersection(a, b) => a.build(ids).intersection(&b.build(ids)),
            E::Difference(a, b) => a.build(ids).minus(&b.build(ids)),
        }
    }
}

/// Reads a real (optimized) expression back into the mirror type. `None` if it contains
/// something the model does not have.
fn read_back(e: &ResolvedRevsetExpression, pos: &HashMap<CommitId, usize>) -> Option<E> {
    let b = |x: &Arc<ResolvedRevsetExpression>| read_back(x, pos).map(Box::new);
    let pv = |l: &[CommitId]| -> Option<Vec<usize>> { l.iter().map(|id| pos.get(id).copied()).collect() };
    Some(match e {
        RevsetExpression::None => E::None,
        RevsetExpression::All => E::All,
        RevsetExpression::VisibleHeads => E::VisibleHeads,
        RevsetExpression::VisibleHeadsOrReferenced => E::VisibleHeadsOrReferenced,
        RevsetExpression::Root => E::Root,
        RevsetExpression::Commits(l) => E::Commits(pv(l)?),
        RevsetExpression::CommitRef(_) => return None,
        RevsetExpression::Ancestors {
            heads,
            generation,
            parents_range,
        } => E::Ancestors(
            b(heads)?,
            (generation.start, generation.end),
            (parents_range.start, parents_range.end),
        ),
        RevsetExpression::Descendants { roots, generation } => {
            E::Descendants(b(roots)?, (generation.start, generation.end))
        }
        RevsetExpression::Range {
            roots,
            heads,
            generation,
            parents_range,
        } => E::Range(
            b(roots)?,
            b(heads)?,
            (generation.start, generation.end),
            (parents_range.start, parents_range.end),
        ),
        RevsetExpression::DagRange { roots, heads } => E::DagRange(b(roots)?, b(heads)?),
        RevsetExpression::Reachable { sources, domain } => E::Reachable(b(sources)?, b(domain)?),
        RevsetExpression::Heads(c) => E::Heads(b(c)?),
        RevsetExpression::HeadsRange {
            roots,
            heads,
            parents_range,
            filter,
        } => E::HeadsRange(
            b(roots)?,
            b(heads)?,
            (parents_range.start, parents_range.end),
            b(filter)?,
        ),
        RevsetExpression::Roots(c) => E::Roots(b(c)?),
        RevsetExpression::Forks => E::Forks,
        RevsetExpression::ForkPoint(c) => E::ForkPoint(b(c)?),
        RevsetExpression::MergePoint(c) => E::MergePoint(b(c)?),
        RevsetExpression::Bisect(c) => E::Bisect(b(c)?),
        RevsetExpression::HasSize { .. } => return None,
        RevsetExpression::Latest { candidates, count } => E::Latest(b(candidates)?, *count),
        RevsetExpression::Filter(RevsetFilterPredicate::Description(StringExpression::Pattern(p))) => {
            match p.as_ref() {
                StringPattern::Substring(s) => E::Filter(LETTERS.iter().position(|l| l == s)?),
                _ => return None,
            }
        }
        RevsetExpression::Filter(_) => return None,
        RevsetExpression::AsFilter(c) => E::AsFilter(b(c)?),
        RevsetExpression::Divergent => return None,
        RevsetExpression::AtOperation { .. } => return None,
        RevsetExpression::WithinReference { candidates, commits } => {
            E::WithinReference(b(candidates)?, pv(commits)?)
        }
        RevsetExpression::WithinVisibility {
            candidates,
            visible_heads,
        } => E::WithinVisibility(b(candidates)?, pv(visible_heads)?),
        RevsetExpression::Coalesce(x, y) => E::Coalesce(b(x)?, b(y)?),
        RevsetExpression::Present(c) => E::Present(b(c)?),
        RevsetExpression::NotIn(c) => E::NotIn(b(c)?),
        RevsetExpression::Union(x, y) => E::Union(b(x)?, b(y)?),
        RevsetExpression::Intersection(x, y) => E::Intersection(b(x)?, b(y)?),
        RevsetExpression::Difference(x, y) => E::Difference(b(x)?, b(y)?),
    })
}

// ---------------------------------------------------------------- generators

fn gen_gen(rng: &mut Rng, edge: bool) -> Gen {
    if edge && rng.chance(1, 3) {
        // around the u32 / u64 boundaries (fold_generation saturation, to_u32 conversion)
        return *rng.pick(&[
            (U32MAX, U32MAX + 1),
            (U32MAX - 1, U64MAX),
            (U32MAX, U64MAX),
            (U32MAX + 1, U64MAX),
            (U64MAX - 1, U64MAX),
            (U64MAX, U64MAX),
            (0, U32MAX),
            (0, U32MAX + 1),
            (1, U64MAX - 1),
            (0, U64MAX - 1),
            (2, U32MAX),
        ]);
    }
    match rng.below(20) {
        0..=6 => (0, U64MAX),
        7..=9 => {
            let k = rng.below(4);
            (k, k + 1)
        }
        10..=11 => (0, rng.below(4)),
        12..=14 => (1 + rng.below(3), U64MAX),
        15 => (2, 2),
        16 => (3, 1),
        _ => {
            let a = rng.below(3);
            (a, a + 1 + rng.below(3))
        }
    }
}

fn gen_pr(rng: &mut Rng) -> Pr {
    match rng.below(20) {
        0..=12 => (0, u32::MAX),
        13..=16 => (0, 1),
        17 => (1, 2),
        18 => (0, 2),
        _ => *rng.pick(&[(0, 0), (1, u32::MAX), (2, 3)]),
    }
}

struct GenCtx {
    n: usize,
    edge: bool,
}

fn gen_commits(rng: &mut Rng, n: usize) -> Vec<usize> {
    let k = match rng.below(10) {
        0 => 0,
        1..=5 => 1,
        6..=7 => 2,
        _ => 3 + rng.usize(3),
    };
    (0..k).map(|_| rng.usize(n)).collect()
}

fn gen_leaf(rng: &mut Rng, c: &GenCtx) -> E {
    match rng.below(24) {
        0 => E::None,
        1..=2 => E::All,
        3..=4 => E::VisibleHeads,
        5 => E::Root,
        6 => E::VisibleHeadsOrReferenced,
        7 => E::Forks,
        8..=11 => E::Filter(rng.usize(3)),
        _ => E::Commits(gen_commits(rng, c.n)),
    }
}

fn gen_expr(rng: &mut Rng, c: &GenCtx, depth: usize) -> E {
    if depth == 0 || rng.chance(1, 6) {
        return gen_leaf(rng, c);
    }
    let d = depth - 1;
    let sub = |rng: &mut Rng| Box::new(gen_expr(rng, c, d));
    match rng.below(100) {
        0..=13 => E::Ancestors(sub(rng), gen_gen(rng, c.edge), gen_pr(rng)),
        14..=21 => E::Descendants(sub(rng), gen_gen(rng, c.edge)),
        22..=28 => {
            let (g, p) = if rng.chance(2, 3) { ((0, U64MAX), (0, u32::MAX)) } else { (gen_gen(rng, c.edge), gen_pr(rng)) };
            E::Range(sub(rng), sub(rng), g, p)
        }
        29..=32 => E::DagRange(sub(rng), sub(rng)),
        33..=35 => E::Reachable(sub(rng), sub(rng)),
        36..=41 => E::Heads(sub(rng)),
        42..=45 => E::Roots(sub(rng)),
        46..=47 => E::ForkPoint(sub(rng)),
        48..=49 => E::MergePoint(sub(rng)),
        50 => E::Bisect(sub(rng)),
        51..=52 => E::Latest(sub(rng), rng.usize(4)),
        53..=55 => E::Coalesce(sub(rng), sub(rng)),
        56..=57 => E::Present(sub(rng)),
        58..=66 => E::NotIn(sub(rng)),
        67..=75 => E::Union(sub(rng), sub(rng)),
        76..=88 => E::Intersection(sub(rng), sub(rng)),
        89..=95 => E::Difference(sub(rng), sub(rng)),
        96 => E::AsFilter(sub(rng)),
        97 => {
            let cnd = sub(rng);
            let mut cs = vec![];
            cnd.commits(&mut cs);
            if rng.chance(1, 2) {
                cs.push(rng.usize(c.n));
            }
            E::WithinReference(cnd, cs)
        }
        98 => {
            // a visibility scope always has at least one head (views are never empty)
            let mut vh = gen_commits(rng, c.n);
            if vh.is_empty() {
                vh.push(rng.usize(c.n));
            }
            E::WithinVisibility(sub(rng), vh)
        }
        _ => E::HeadsRange(sub(rng), sub(rng), gen_pr(rng), Box::new(if rng.chance(1, 2) { E::All } else { gen_expr(rng, c, d) })),
    }
}

/// Shapes the optimizer has dedicated rules for (so that the rules actually fire).
fn gen_idiom(rng: &mut Rng, c: &GenCtx) -> E {
    let leaf = |rng: &mut Rng| Box::new(gen_expr(rng, c, 1));
    let full = (0, U64MAX);
    let pf = (0, u32::MAX);
    let anc = |x: Box<E>| Box::new(E::Ancestors(x, full, pf));
    match rng.below(12) {
        // ::x | ::y,  ~::x & ~::y
        0 => E::Union(anc(leaf(rng)), Box::new(E::Ancestors(leaf(rng), (1 + rng.below(2), U64MAX), pf))),
        1 => E::Intersection(Box::new(E::NotIn(anc(leaf(rng)))), Box::new(E::NotIn(anc(leaf(rng))))),
        // heads(x..y & f), heads(::y & f), ::(x..y), heads(~x & f)
        2 => E::Heads(Box::new(E::Intersection(
            Box::new(E::Range(leaf(rng), leaf(rng), full, gen_pr(rng))),
            Box::new(E::Filter(rng.usize(3))),
        ))),
        3 => E::Heads(Box::new(E::Intersection(anc(leaf(rng)), leaf(rng)))),
        4 => E::Ancestors(Box::new(E::Range(leaf(rng), leaf(rng), full, pf)), full, pf),
        5 => E::Heads(Box::new(E::Intersection(Box::new(E::NotIn(leaf(rng))), Box::new(E::Filter(rng.usize(3)))))),
        // nested generations: x---, x+++ , ::(x-), (x::)+
        6 => E::Ancestors(
            Box::new(E::Ancestors(leaf(rng), gen_gen(rng, c.edge), pf)),
            gen_gen(rng, c.edge),
            if rng.chance(4, 5) { pf } else { (0, 1) },
        ),
        7 => E::Descendants(Box::new(E::Descendants(leaf(rng), gen_gen(rng, c.edge))), gen_gen(rng, c.edge)),
        // filters mixed with sets: (f & s) & s,  f | s, ~f, x ~ f
        8 => E::Intersection(
            Box::new(E::Intersection(Box::new(E::Filter(rng.usize(3))), leaf(rng))),
            leaf(rng),
        ),
        9 => E::Intersection(
            Box::new(E::Union(Box::new(E::Filter(rng.usize(3))), leaf(rng))),
            Box::new(E::NotIn(Box::new(E::Filter(rng.usize(3))))),
        ),
        // a & (b & (c & d)), differences of ancestors
        10 => E::Intersection(
            leaf(rng),
            Box::new(E::Intersection(leaf(rng), Box::new(E::Intersection(anc(leaf(rng)), Box::new(E::NotIn(anc(leaf(rng)))))))),
        ),
        _ => E::Difference(anc(leaf(rng)), Box::new(E::Ancestors(leaf(rng), (rng.below(3), U64MAX), pf))),
    }
}

// ---------------------------------------------------------------- the repo

fn settings() -> UserSettings {
    let mut config = testutils::base_user_config();
    config.add_layer(
        ConfigLayer::parse(
            ConfigSource::CommandArg,
            "debug.commit-timestamp = \"2001-02-03T04:05:06+07:00\"\n",
        )
        .unwrap(),
    );
    UserSettings::from_config(config).unwrap()
}

struct World {
    _test_repo: TestRepo,
    repo: Arc<jj_lib::repo::ReadonlyRepo>,
    /// open transaction with extra (unnormalized) head edits, if the case evaluates there
    tx: Option<jj_lib::transaction::Transaction>,
    ids: Vec<CommitId>,
    pos: HashMap<CommitId, usize>,
    parents: Vec<Vec<usize>>,
    ts: Vec<i64>,
    letters: Vec<Vec<bool>>,
}

fn build_world(rng: &mut Rng, thorough: bool) -> World {
    let settings = settings();
    let test_repo = TestRepo::init_with_settings(&settings);
    let mut repo = test_repo.repo.clone();
    let store = repo.store().clone();
    let n_new = if rng.chance(1, 10) {
        rng.range(0, 3) as usize
    } else {
        rng.range(4, if thorough { 40 } else { 22 }) as usize
    };
    let mut ids = vec![store.root_commit_id().clone()];
    let mut parents: Vec<Vec<usize>> = vec![vec![]];
    let mut ts = vec![store.root_commit().committer().timestamp.timestamp.0];
    let mut letters = vec![vec![false; 3]];
    let style = rng.below(3);
    let n_tx = 1 + rng.usize(3);
    let mut bounds: Vec<usize> = (0..n_tx - 1).map(|_| rng.usize(n_new + 1)).collect();
    bounds.sort();
    bounds.push(n_new);
    let mut k = 0;
    for &b in &bounds {
        let mut tx = repo.start_transaction();
        while k < b {
            k += 1; // position of the new commit
            let np = match rng.below(100) {
                0..=5 => 0,
                6..=69 => 1,
                70..=92 => 2,
                _ => 3,
            };
            let mut ps: Vec<usize> = vec![];
            let mut tries = 0;
            while ps.len() < np && tries < 30 {
                tries += 1;
                let p = if style == 1 || rng.chance(1, 3) {
                    rng.usize(k)
                } else {
                    k - 1 - (rng.geometric(5) as usize).min(k - 1)
                };
                if !ps.contains(&p) {
                    ps.push(p);
                }
            }
            if ps.is_empty() {
                ps.push(0);
            }
            let lt: Vec<bool> = (0..3).map(|_| rng.chance(1, 2)).collect();
            let desc: String = (0..3).filter(|&j| lt[j]).map(|j| LETTERS[j]).collect::<Vec<_>>().join(" ");
            let t = 1000 * (1 + rng.below(4) as i64);
            let sig = Signature {
                name: "n".into(),
                email: "e".into(),
                timestamp: Timestamp {
                    timestamp: MillisSinceEpoch(t),
                    tz_offset: 0,
                },
            };
            let commit = tx
                .repo_mut()
                .new_commit(ps.iter().map(|&p| ids[p].clone()).collect(), store.empty_merged_tree())
                .set_description(format!("{desc} #{k}"))
                .set_author(sig.clone())
                .set_committer(sig)
                .write()
                .block_on()
                .unwrap();
            ts.push(commit.committer().timestamp.timestamp.0);
            ids.push(commit.id().clone());
            parents.push(ps);
            letters.push(lt);
        }
        repo = tx.commit("c19").block_on().unwrap();
    }
    // hide some commits: remove heads (with or without re-adding their parents)
    let n = ids.len();
    let mut tx = repo.start_transaction();
    let n_hide = if rng.chance(1, 4) { 0 } else { 1 + rng.usize(3) };
    for _ in 0..n_hide {
        let heads: Vec<CommitId> = tx.repo().view().heads().iter().cloned().collect();
        let mut hs: Vec<usize> = heads.iter().map(|h| ids.iter().position(|i| i == h).unwrap()).collect();
        hs.sort();
        let h = *rng.pick(&hs);
        if h == 0 {
            continue;
        }
        tx.repo_mut().remove_head(&ids[h]);
        if rng.chance(2, 3) {
            for &p in &parents[h] {
                let c = store.get_commit(&ids[p]).unwrap();
                tx.repo_mut().add_head(&c).block_on().unwrap();
            }
        }
        if tx.repo().view().heads().is_empty() {
            let c = store.root_commit();
            tx.repo_mut().add_head(&c).block_on().unwrap();
        }
    }
    let open = rng.chance(1, 3);
    let (repo, tx) = if open {
        // evaluate inside the transaction: redundant heads, heads not normalized
        for _ in 0..rng.usize(3) {
            let x = rng.usize(n);
            let c = store.get_commit(&ids[x]).unwrap();
            tx.repo_mut().add_head(&c).block_on().unwrap();
        }
        (repo, Some(tx))
    } else {
        (tx.commit("c19 hide").block_on().unwrap(), None)
    };
    let pos = ids.iter().enumerate().map(|(i, id)| (id.clone(), i)).collect();
    World {
        _test_repo: test_repo,
        repo,
        tx,
        ids,
        pos,
        parents,
        ts,
        letters,
    }
}

fn listing(
    r: Result<Box<dyn jj_lib::revset::Revset + '_>, jj_lib::revset::RevsetEvaluationError>,
    pos: &HashMap<CommitId, usize>,
) -> Option<Vec<usize>> {
    let revset = r.ok()?;
    let ids: Vec<CommitId> = revset.stream().try_collect().block_on().ok()?;
    ids.iter().map(|id| pos.get(id).copied()).collect()
}

fn main() {
    jjv::run("C19", "C19", |ctx| {
        // SAFETY: single-threaded at this point.
        unsafe { std::env::set_var("TMPDIR", &ctx.scratch) };
        let thorough = ctx.tier == "thorough";
        let mut cur_block = usize::MAX;
        let mut world: Option<World> = None;
        for i in ctx.indices() {
            let block = i / BLOCK;
            if block != cur_block {
                let mut wrng = ctx.rng(1_000_000_000 + block);
                drop(world.take()); // drop the previous repo first
                world = Some(build_world(&mut wrng, thorough));
                cur_block = block;
            }
            let w = world.as_ref().unwrap();
            let repo: &dyn Repo = match &w.tx {
                Some(tx) => tx.repo(),
                None => w.repo.as_ref(),
            };
            let mut rng = ctx.rng(i);
            let n = w.ids.len();
            let gc = GenCtx { n, edge: rng.chance(1, 12) };
            let gen_one = |rng: &mut Rng| -> E {
                match rng.below(10) {
                    0..=2 => gen_idiom(rng, &gc),
                    3 => {
                        // an idiom below a random context
                        let inner = Box::new(gen_idiom(rng, &gc));
                        match rng.below(4) {
                            0 => E::Heads(inner),
                            1 => E::Intersection(inner, Box::new(gen_expr(rng, &gc, 1))),
                            2 => E::NotIn(inner),
                            _ => E::Union(Box::new(gen_expr(rng, &gc, 1)), inner),
                        }
                    }
                    _ => {
                        let depth = 1 + rng.usize(4);
                        gen_expr(rng, &gc, depth)
                    }
                }
            };
            // empty results carry less evidence: most of them are regenerated (up to twice)
            let mut e = gen_one(&mut rng);
            for _ in 0..2 {
                let probe = jjv::catch(|| listing(e.build(&w.ids).evaluate_unoptimized(repo), &w.pos)).flatten();
                if matches!(probe.as_deref(), Some([])) && rng.chance(3, 4) {
                    e = gen_one(&mut rng);
                } else {
                    break;
                }
            }
            let real = e.build(&w.ids);
            let opt = jjv::catch(|| optimize(real.clone())).and_then(|o| read_back(&o, &w.pos));
            let res_opt = jjv::catch(|| listing(real.clone().evaluate(repo), &w.pos));
            let res_unopt = jjv::catch(|| listing(real.evaluate_unoptimized(repo), &w.pos));
            if res_opt.is_none() || res_unopt.is_none() {
                ctx.panicked();
            }
            let res_opt = res_opt.flatten();
            let res_unopt = res_unopt.flatten();
            let order = listing(
                ResolvedRevsetExpression::commits(w.ids.clone()).evaluate_unoptimized(repo),
                &w.pos,
            )
            .unwrap_or_default();
            let vis: Vec<usize> = {
                let mut v: Vec<usize> = repo.view().heads().iter().map(|h| w.pos[h]).collect();
                v.sort();
                v
            };
            let filters: Vec<Vec<usize>> = (0..3)
                .map(|j| (0..n).filter(|&x| w.letters[x][j]).collect())
                .collect();
            let term = coq::app(
                "C19.mk_case",
                &[
                    coq::list(w.parents.iter(), |ps| coq_pos(ps)),
                    coq::list(w.ts.iter(), |t| coq::z(*t)),
                    coq::list(filters.iter(), |f| coq_pos(f)),
                    coq_pos(&vis),
                    coq::b(repo.view().is_heads_normalized()),
                    e.coq(),
                    coq::opt(opt.as_ref(), |o| o.coq()),
                    coq::opt(res_opt.as_ref(), |l| coq_pos(l)),
                    coq::opt(res_unopt.as_ref(), |l| coq_pos(l)),
                    coq_pos(&order),
                ],
            );
            let changed = opt.as_ref().map(|o| o.coq() != e.coq()).unwrap_or(false);
            let hidden = n - listing(ResolvedRevsetExpression::all().evaluate_unoptimized(repo), &w.pos)
                .map(|l| l.len())
                .unwrap_or(0);
            let shape = format!(
                "size={} {} {}",
                match e.size() {
                    0..=2 => "1-2",
                    3..=5 => "3-5",
                    6..=10 => "6-10",
                    _ => "11+",
                },
                if changed { "rewritten" } else { "unchanged" },
                match &res_unopt {
                    None => "error",
                    Some(l) if l.is_empty() => "empty",
                    Some(_) => "nonempty",
                },
            );
            if hidden > 0 {
                ctx.count("(cases on a graph with hidden commits)");
            }
            if w.tx.is_some() {
                ctx.count("(cases evaluated inside an open transaction, heads not normalized)");
            }
            let nontrivial = e.size() >= 3 && n >= 4;
            ctx.emit(i, term, nontrivial, &shape);
        }
    });
}
