//! C38: file annotation (`jj_lib::annotate::FileAnnotator`) on random histories of random
//! edits to one small file (3-10 commits incl. merges, commits that do not touch the file,
//! commits where it is absent), annotated from a random commit within a random domain.
//! Recorded per case: the DAG, the file text of every commit, the graph stream of the revset
//! `process_commits` searches, the by-line matching (`ContentDiff::by_line`) of every
//! (node, edge target) pair, and the REAL `line_origins()` / `text()`.
use std::collections::HashMap;
use std::sync::Arc;

use futures::TryStreamExt as _;
use jj_lib::annotate::FileAnnotator;
use jj_lib::backend::CommitId;
use jj_lib::config::ConfigLayer;
use jj_lib::config::ConfigSource;
use jj_lib::diff::ContentDiff;
use jj_lib::diff::DiffHunkKind;
use jj_lib::fileset::FilesetExpression;
use jj_lib::graph::GraphEdgeType;
use jj_lib::repo::Repo;
use jj_lib::revset::ResolvedRevsetExpression;
use jj_lib::revset::RevsetFilterPredicate;
use jj_lib::settings::UserSettings;
use jjv::Rng;
use jjv::coq;
use pollster::FutureExt as _;
use testutils::TestRepo;
use testutils::repo_path;

fn settings() -> UserSettings {
    let mut config = testutils::base_user_config();
    config.add_layer(
        ConfigLayer::parse(
            ConfigSource::CommandArg,
            "debug.commit-timestamp = \"2001-02-03T04:05:06+07:00\"\n",
        )
        .unwrap(),
    );
    UserSettings::from_config(config).unwrap()
}

const POOL: [&str; 7] = ["a", "b", "c", "d", "e", "xx", ""];

fn lines_to_string(lines: &[String], final_newline: bool) -> String {
    let mut s = lines.join("\n");
    if !lines.is_empty() && final_newline {
        s.push('\n');
    }
    s
}

fn split_lines(s: &str) -> Vec<Vec<u8>> {
    s.as_bytes().split_inclusive(|b| *b == b'\n').map(|l| l.to_vec()).collect()
}

fn edit(rng: &mut Rng, mut lines: Vec<String>) -> Vec<String> {
    let n_ops = 1 + rng.geometric(3) as usize;
    for _ in 0..n_ops {
        let len = lines.len();
        match rng.below(7) {
            0 | 1 if len < 12 => {
                let at = rng.usize(len + 1);
                lines.insert(at, rng.pick(&POOL).to_string());
            }
            2 if len > 0 => {
                lines.remove(rng.usize(len));
            }
            3 if len > 0 => {
                let at = rng.usize(len);
                lines[at] = rng.pick(&POOL).to_string();
            }
            4 if len > 0 && len < 12 => {
                let at = rng.usize(len);
                let l = lines[at].clone();
                lines.insert(rng.usize(len + 1), l);
            }
            5 if len > 1 => {
                let a = rng.usize(len);
                let b = rng.usize(len);
                lines.swap(a, b);
            }
            6 if len > 2 => {
                // move a block
                let a = rng.usize(len - 1);
                let blk: Vec<String> = lines.drain(a..a + 2).collect();
                let at = rng.usize(lines.len() + 1);
                for (k, l) in blk.into_iter().enumerate() {
                    lines.insert(at + k, l);
                }
            }
            _ => {}
        }
    }
    lines
}

/// Count lines as annotate.rs's `count_lines` does.
fn count_lines(text: &[u8]) -> usize {
    let newlines = text.iter().filter(|b| **b == b'\n').count();
    newlines + usize::from(text.last().is_some_and(|b| *b != b'\n'))
}

/// `copy_same_lines_with`: the (current_start, parent_start, count) of every matching hunk.
fn matching(cur: &[u8], par: &[u8]) -> Vec<(usize, usize, usize)> {
    let diff = ContentDiff::by_line([cur, par]);
    let mut out = vec![];
    let (mut c, mut p) = (0, 0);
    for hunk in diff.hunks() {
        match hunk.kind {
            DiffHunkKind::Matching => {
                let count = count_lines(hunk.contents[0]);
                out.push((c, p, count));
                c += count;
                p += count;
            }
            DiffHunkKind::Different => {
                c += count_lines(hunk.contents[0]);
                p += count_lines(hunk.contents[1]);
            }
        }
    }
    out
}

fn main() {
    jjv::run("C38", "C38", |ctx| {
        // SAFETY: single-threaded at this point.
        unsafe { std::env::set_var("TMPDIR", &ctx.scratch) };
        let settings = settings();
        let path = repo_path("f");
        let other = repo_path("g");
        // one real repo per block of cases; every case builds its own history from the root
        let mut cur_block = usize::MAX;
        let mut block_repo: Option<(TestRepo, Arc<jj_lib::repo::ReadonlyRepo>)> = None;
        for i in ctx.indices() {
            let mut rng = ctx.rng(i);
            let thorough = ctx.tier == "thorough";
            if i / 12 != cur_block {
                drop(block_repo.take());
                let tr = TestRepo::init_with_settings(&settings);
                let r = tr.repo.clone();
                block_repo = Some((tr, r));
                cur_block = i / 12;
            }
            let repo = block_repo.as_ref().unwrap().1.clone();
            let store = repo.store().clone();
            let n_new = rng.range(2, if thorough { 14 } else { 9 }) as usize;
            // commit 0 = root (no file)
            let mut ids: Vec<CommitId> = vec![store.root_commit_id().clone()];
            let mut parents: Vec<Vec<usize>> = vec![vec![]];
            let mut texts: Vec<Option<String>> = vec![None];
            let mut tx = repo.start_transaction();
            let mut merges = 0;
            // pool: an omitted parent p shared by two children inside the domain, plus a
            // further in-domain ancestor q (p; q=child(p); c2=child(p); c1=merge(p,q);
            // start=merge(c1,c2)), optionally extended by random commits
            // index 0 is a fixed corpus case: the replay of the (repaired) finding
            // annotate-unresolved-root-counted-twice; it fails if the fix is reverted
            let corpus0 = i == 0;
            let shared_root_pool = corpus0 || rng.chance(1, 12);
            let n_new = if corpus0 { 5 } else if shared_root_pool { n_new.max(5) } else { n_new };
            // pool "fork below the domain": an omitted fork point P whose in-domain children
            // each keep a DIFFERENT part of P's lines (and rewrite the rest); start = merge of
            // the children restoring all of P's lines; domain = P..start or ~::P. P is reached
            // through one missing edge per child, each handing down lines the others did not.
            // Index 1 is the fixed corpus case of this shape (2 children, split {0,1} / {2,3}).
            // index 2: the same history annotated in two calls (P..start, then all())
            let corpus2 = i == 2;
            let corpus1 = i == 1 || corpus2;
            let fork_pool = corpus1 || (!shared_root_pool && rng.chance(1, 7));
            let fork_nch = if corpus1 || rng.chance(2, 3) { 2 } else { 3 };
            let fork_len = if corpus1 { 4 } else { (fork_nch + 1 + rng.usize(4)).max(4) };
            let fork_owner: Vec<usize> = if corpus1 {
                vec![0, 0, 1, 1]
            } else {
                // every child owns at least one line; uneven splits
                let mut v: Vec<usize> = (0..fork_len).map(|j| if j < fork_nch { j } else { rng.usize(fork_nch) }).collect();
                rng.shuffle(&mut v);
                v
            };
            let fork_overlap = !corpus1 && rng.chance(1, 3);
            let fork_new_line: Option<usize> = if !corpus1 && rng.chance(1, 3) { Some(rng.usize(fork_len + 1)) } else { None };
            let fork_start = 2 + fork_nch;
            let n_new = if corpus1 { fork_start } else if fork_pool { n_new.max(fork_start) } else { n_new };
            const POOL_PARENTS: [&[usize]; 5] = [&[0], &[1], &[1], &[1, 2], &[4, 3]];
            let pool_len = if corpus0 { 4 } else { 4 + rng.usize(4) };
            let pool_lines: Vec<usize> = if corpus0 {
                vec![1, 2, 0]
            } else {
                let mut v: Vec<usize> = (0..pool_len).collect();
                rng.shuffle(&mut v);
                v.truncate(3);
                v
            };
            for k in 1..=n_new {
                let np = if k >= 3 && rng.chance(1, 4) { 2 } else { 1 };
                let mut ps: Vec<usize> = vec![];
                let mut tries = 0;
                if shared_root_pool && k <= 5 {
                    ps = POOL_PARENTS[k - 1].to_vec();
                }
                if fork_pool && k <= fork_start {
                    ps = if k == 1 {
                        vec![0]
                    } else if k < fork_start {
                        vec![1]
                    } else {
                        (2..fork_start).collect()
                    };
                }
                while ps.len() < np && tries < 20 && !(shared_root_pool && k <= 5) && !(fork_pool && k <= fork_start) {
                    tries += 1;
                    let p = if k == 1 {
                        0
                    } else if rng.chance(2, 3) {
                        k - 1 - (rng.geometric(3) as usize).min(k - 2)
                    } else {
                        1 + rng.usize(k - 1)
                    };
                    if !ps.contains(&p) {
                        ps.push(p);
                    }
                }
                if ps.len() > 1 {
                    merges += 1;
                }
                let base: Option<String> = texts[ps[0]].clone();
                let text: Option<String> = if fork_pool && k <= fork_start {
                    let mut lines: Vec<String> = (0..fork_len).map(|x| format!("l{x}")).collect();
                    if k >= 2 && k < fork_start {
                        let child = k - 2;
                        for j in 0..fork_len {
                            let keeps = fork_owner[j] == child || (fork_overlap && fork_owner[j] + 1 == child);
                            if !keeps {
                                lines[j] = format!("c{child}_{j}");
                            }
                        }
                    } else if k == fork_start {
                        if let Some(at) = fork_new_line {
                            lines.insert(at, "new".to_string());
                        }
                    }
                    Some(lines_to_string(&lines, true))
                } else if shared_root_pool && k <= 5 {
                    // p has >= 4 distinct lines; q, c2, c1 each rewrite a different line
                    let base_lines: Vec<String> = (0..pool_len).map(|x| format!("l{x}")).collect();
                    let mut lines = base_lines.clone();
                    let touch = |lines: &mut Vec<String>, who: usize| {
                        let at = pool_lines[who];
                        lines[at] = format!("{}{}", ["q", "c2", "c1"][who], at);
                    };
                    match k {
                        1 => {}
                        2 => touch(&mut lines, 0),
                        3 => touch(&mut lines, 1),
                        4 => {
                            touch(&mut lines, 0);
                            touch(&mut lines, 2);
                        }
                        _ => {
                            touch(&mut lines, 0);
                            touch(&mut lines, 1);
                            touch(&mut lines, 2);
                        }
                    }
                    Some(lines_to_string(&lines, true))
                } else if k == 1 {
                    let len = rng.range(2, 7) as usize;
                    let lines: Vec<String> = (0..len).map(|_| rng.pick(&POOL).to_string()).collect();
                    Some(lines_to_string(&lines, !rng.chance(1, 8)))
                } else {
                    match rng.below(20) {
                        0 => None, // file absent in this commit
                        1..=5 => base.clone(), // does not touch the file
                        6..=7 if ps.len() > 1 => texts[ps[1]].clone(),
                        8..=9 if ps.len() > 1 => {
                            // interleave the two parents' lines
                            let a = split_lines(base.as_deref().unwrap_or(""));
                            let b = split_lines(texts[ps[1]].as_deref().unwrap_or(""));
                            let mut out: Vec<u8> = vec![];
                            let (mut x, mut y) = (0, 0);
                            while (x < a.len() || y < b.len()) && out.len() < 60 {
                                if y >= b.len() || (x < a.len() && rng.chance(1, 2)) {
                                    out.extend(&a[x]);
                                    if !a[x].ends_with(b"\n") {
                                        out.push(b'\n');
                                    }
                                    x += 1;
                                } else {
                                    out.extend(&b[y]);
                                    if !b[y].ends_with(b"\n") {
                                        out.push(b'\n');
                                    }
                                    y += 1;
                                }
                            }
                            Some(String::from_utf8(out).unwrap())
                        }
                        _ => {
                            let old = base.clone().unwrap_or_default();
                            let had_nl = old.ends_with('\n') || old.is_empty();
                            let lines: Vec<String> = old.lines().map(|l| l.to_string()).collect();
                            let lines = edit(&mut rng, lines);
                            let nl = if rng.chance(1, 6) { !had_nl } else { had_nl };
                            Some(lines_to_string(&lines, nl))
                        }
                    }
                };
                let tree = testutils::create_tree_with(&repo, |b| {
                    if let Some(t) = &text {
                        b.file(path, t.as_str());
                    }
                    b.file(other, format!("{k}").as_str());
                });
                let commit = tx
                    .repo_mut()
                    .new_commit(ps.iter().map(|&p| ids[p].clone()).collect(), tree)
                    .set_description(format!("case {i} c{k}"))
                    .write()
                    .block_on()
                    .unwrap();
                ids.push(commit.id().clone());
                parents.push(ps);
                texts.push(text);
            }
            let repo = tx.commit("c38").block_on().unwrap();
            block_repo.as_mut().unwrap().1 = repo.clone();
            let n = ids.len();
            let pos: HashMap<CommitId, usize> = ids.iter().enumerate().map(|(i, id)| (id.clone(), i)).collect();
            let text_of = |x: usize| -> Vec<u8> { texts[x].clone().unwrap_or_default().into_bytes() };

            let fork_case = corpus1 || fork_pool && rng.chance(4, 5);
            let start = if fork_case {
                fork_start
            } else if corpus0 || shared_root_pool && rng.chance(2, 3) {
                5
            } else if rng.chance(2, 3) {
                n - 1 - rng.usize(n.min(3)).min(n - 2)
            } else {
                1 + rng.usize(n - 1)
            };
            type R = ResolvedRevsetExpression;
            let commits_of = |xs: &[usize]| R::commits(xs.iter().map(|&x| ids[x].clone()).collect());
            let (domain, dshape): (Arc<R>, &str) = match if fork_case {
                if corpus1 || rng.chance(1, 2) { 99 } else { 98 }
            } else if corpus0 || shared_root_pool && rng.chance(2, 3) {
                99
            } else {
                rng.below(10)
            } {
                99 => (commits_of(&[1]).range(&commits_of(&[start])), "range"),
                98 => (commits_of(&[1]).ancestors().negated(), "range"),
                0..=3 => (R::all(), "all"),
                4 => (commits_of(&[start]).ancestors(), "ancestors"),
                5..=6 => {
                    let x = 1 + rng.usize(n - 1);
                    (commits_of(&[x]).range(&commits_of(&[start])), "range")
                }
                7 => {
                    let x = 1 + rng.usize(n - 1);
                    (commits_of(&[x]).descendants(), "descendants")
                }
                8 => {
                    let xs: Vec<usize> = (1..n).filter(|_| rng.chance(1, 2)).chain([start]).collect();
                    (commits_of(&xs), "subset")
                }
                _ => (commits_of(&[start]).ancestors_range(0..1 + rng.below(3)), "depth"),
            };

            // successive compute() calls on the same annotator: D1, then wider domains
            let mut domains: Vec<Arc<R>> = vec![domain.clone()];
            let multi = corpus2 || rng.chance(1, 5);
            if corpus2 {
                domains.push(R::all());
            } else if multi {
                let wider = match rng.below(3) {
                    0 => R::all(),
                    1 => domain.union(&commits_of(&[start]).ancestors_range(0..1 + rng.below(4))),
                    _ => {
                        let y = 1 + rng.usize(n - 1);
                        domain.union(&commits_of(&[y]).range(&commits_of(&[start])))
                    }
                };
                domains.push(wider);
                if rng.chance(1, 2) {
                    domains.push(R::all());
                }
            }
            let start_commit = store.get_commit(&ids[start]).unwrap();
            let predicate = RevsetFilterPredicate::File(FilesetExpression::file_path(path.to_owned()));
            type Nodes = Vec<(usize, Vec<(usize, u8)>)>;
            type PhaseOut = (Nodes, Vec<(bool, usize, usize)>, Vec<usize>);
            let result = jjv::catch(|| {
                let mut annotator = FileAnnotator::from_commit(&start_commit, path).block_on().unwrap();
                let mut outs: Vec<PhaseOut> = vec![];
                for dom in &domains {
                    // the graph stream this call of process_commits walks
                    let heads = R::commits(annotator.pending_commits().cloned().collect());
                    let revset = heads
                        .union(&dom.intersection(&heads.ancestors()).filtered(predicate.clone()))
                        .evaluate(repo.as_ref())
                        .unwrap();
                    let raw: Vec<(CommitId, Vec<jj_lib::graph::GraphEdge<CommitId>>)> =
                        revset.stream_graph().try_collect().block_on().unwrap();
                    let nodes: Nodes = raw
                        .iter()
                        .map(|(c, es)| {
                            (
                                pos[c],
                                es.iter()
                                    .map(|e| {
                                        (
                                            pos[&e.target],
                                            match e.edge_type {
                                                GraphEdgeType::Direct => 0,
                                                GraphEdgeType::Indirect => 1,
                                                GraphEdgeType::Missing => 2,
                                            },
                                        )
                                    })
                                    .collect(),
                            )
                        })
                        .collect();
                    annotator.compute(repo.as_ref(), dom).block_on().unwrap();
                    let annotation = annotator.to_annotation();
                    let origins: Vec<(bool, usize, usize)> = annotation
                        .line_origins()
                        .map(|(o, _line)| match o {
                            Ok(lo) => (true, pos[&lo.commit_id], lo.line_number),
                            Err(lo) => (false, pos[&lo.commit_id], lo.line_number),
                        })
                        .collect();
                    let mut pending: Vec<usize> = annotator.pending_commits().map(|id| pos[id]).collect();
                    pending.sort();
                    outs.push((nodes, origins, pending));
                }
                let text: Vec<u8> = annotator.to_annotation().text().to_vec();
                (outs, text)
            });
            let (outs, atext) = match result {
                Some(r) => r,
                None => {
                    ctx.panicked();
                    (vec![], b"<panic>\n".to_vec())
                }
            };
            let nodes: Nodes = outs.iter().flat_map(|o| o.0.clone()).collect();
            let origins: Vec<(bool, usize, usize)> = outs.last().map(|o| o.1.clone()).unwrap_or_default();
            let mut matchings: Vec<((usize, usize), Vec<(usize, usize, usize)>)> = vec![];
            for (c, es) in &nodes {
                for (t, _) in es {
                    if !matchings.iter().any(|(k, _)| *k == (*c, *t)) {
                        matchings.push(((*c, *t), matching(&text_of(*c), &text_of(*t))));
                    }
                }
            }

            let coq_lines = |bytes: &[u8]| coq::bytes(bytes);
            let term = coq::app(
                "C38.mk_case",
                &[
                    coq::list(parents.iter(), |ps| coq::list(ps.iter(), |p| format!("{p}"))),
                    coq::list(0..n, |x| coq_lines(&text_of(x))),
                    format!("{start}"),
                    coq::list(outs.iter(), |o| {
                        coq::list(o.0.iter(), |(c, es)| {
                            format!("({c}, {})", coq::list(es.iter(), |(t, k)| format!("({t}, {k})")))
                        })
                    }),
                    coq::list(matchings.iter(), |((c, t), rs)| {
                        format!(
                            "(({c}, {t}), {})",
                            coq::list(rs.iter(), |(a, b, k)| format!("({a}, {b}, {k})"))
                        )
                    }),
                    coq::list(outs.iter(), |o| {
                        coq::list(o.1.iter(), |(ok, c, l)| format!("({}, {c}, {l})", coq::b(*ok)))
                    }),
                    coq::list(outs.iter(), |o| coq::list(o.2.iter(), |p| format!("{p}"))),
                    coq_lines(&atext),
                ],
            );
            let n_err = origins.iter().filter(|o| !o.0).count();
            let distinct_origins = {
                let mut v: Vec<usize> = origins.iter().map(|o| o.1).collect();
                v.sort();
                v.dedup();
                v.len()
            };
            let shape = format!(
                "dom={dshape} merges={} {}",
                merges.min(1),
                if n_err > 0 { "unresolved" } else { "resolved" }
            );
            if shared_root_pool {
                ctx.count("(cases from the shared-omitted-parent pool)");
            }
            if fork_pool {
                ctx.count("(cases from the fork-below-the-domain pool)");
                let from_p = origins.iter().filter(|o| !o.0 && o.1 == 1).map(|o| o.2).collect::<Vec<_>>();
                let via: std::collections::HashSet<usize> = nodes
                    .iter()
                    .filter(|(_, es)| es.iter().any(|(t, k)| *t == 1 && *k == 2))
                    .map(|(c, _)| *c)
                    .collect();
                if via.len() >= 2 && from_p.len() >= 2 {
                    ctx.count("(fork pool: omitted parent reached by >= 2 missing edges, >= 2 lines left in it)");
                }
            }
            if outs.len() >= 2 {
                ctx.count("(cases with two or three compute() calls on one annotator)");
                let first_err = outs[0].1.iter().filter(|o| !o.0).count();
                if first_err > 0 && n_err < first_err {
                    ctx.count("(multi-call: a later call resolved lines the first left unresolved)");
                }
            }
            if distinct_origins >= 3 {
                ctx.count("(cases blaming >= 3 distinct commits)");
            }
            let nontrivial = origins.len() >= 2 && nodes.len() >= 2;
            ctx.emit(i, term, nontrivial, &shape);
        }
    });
}
