//! C16: SimpleOpStore write_view/read_view and write_operation/read_operation in fresh
//! stores, the bytes fed to the ContentHash hasher, and reads of hand-made (legacy) protos.
#![allow(deprecated)]
use std::collections::BTreeMap;
use std::collections::HashSet;
use std::path::Path;

use blake2::Blake2b512;
use digest::Digest as _;
use jj_lib::backend::CommitId;
use jj_lib::backend::MillisSinceEpoch;
use jj_lib::backend::Timestamp;
use jj_lib::content_hash::ContentHash;
use jj_lib::content_hash::DigestUpdate;
use jj_lib::merge::Merge;
use jj_lib::object_id::ObjectId as _;
use jj_lib::op_store::OpStore as _;
use jj_lib::op_store::OpStoreError;
use jj_lib::op_store::Operation;
use jj_lib::op_store::OperationId;
use jj_lib::op_store::OperationMetadata;
use jj_lib::op_store::RefTarget;
use jj_lib::op_store::RemoteRef;
use jj_lib::op_store::RemoteRefState;
use jj_lib::op_store::RemoteView;
use jj_lib::op_store::RootOperationData;
use jj_lib::op_store::TimestampRange;
use jj_lib::op_store::View;
use jj_lib::op_store::ViewId;
use jj_lib::protos::simple_op_store as pb;
use jj_lib::ref_name::RefName;
use jj_lib::ref_name::RemoteName;
use jj_lib::ref_name::WorkspaceName;
use jj_lib::simple_op_store::SimpleOpStore;
use jjv::Rng;
use jjv::coq;
use pollster::FutureExt as _;
use prost::Message as _;

struct Collect(Vec<u8>);
impl DigestUpdate for Collect {
    fn update(&mut self, data: &[u8]) {
        self.0.extend_from_slice(data);
    }
}

fn hashed_bytes(x: &impl ContentHash) -> Vec<u8> {
    let mut c = Collect(vec![]);
    x.hash(&mut c);
    c.0
}

fn blake(bytes: &[u8]) -> Vec<u8> {
    let mut h = Blake2b512::default();
    digest::Update::update(&mut h, bytes);
    h.finalize().to_vec()
}

// ------------------------------------------------------------------ generators

const NAMES: &[&str] = &[
    "", "a", "b", "ab", "main", "default", "git", "origin", "\u{e9}", "refs/tags/v1", "refs/tags/",
    "refs/heads/m", "refs/tags/w", "z",
];

fn gen_id(rng: &mut Rng) -> Vec<u8> {
    let alphabet = [0x00u8, 0x01, 0xff, 0xab];
    let len = match rng.below(8) {
        0 => 0,
        1..=4 => 1,
        5..=6 => 2,
        _ => 3,
    };
    (0..len).map(|_| *rng.pick(&alphabet)).collect()
}

fn gen_name(rng: &mut Rng) -> String {
    (*rng.pick(NAMES)).to_string()
}

fn gen_terms(rng: &mut Rng) -> Vec<Option<Vec<u8>>> {
    let sides = match rng.below(10) {
        0..=5 => 1,
        6..=8 => 2,
        _ => 3,
    };
    let len = 2 * sides - 1;
    (0..len)
        .map(|_| if rng.chance(1, 4) { None } else { Some(gen_id(rng)) })
        .collect()
}

fn to_target(terms: &[Option<Vec<u8>>]) -> RefTarget {
    RefTarget::from_merge(Merge::from_vec(
        terms.iter().map(|t| t.clone().map(CommitId::new)).collect::<Vec<_>>(),
    ))
}

fn gen_target(rng: &mut Rng) -> RefTarget {
    to_target(&gen_terms(rng))
}

fn gen_present_target(rng: &mut Rng) -> RefTarget {
    loop {
        let t = gen_target(rng);
        if t.is_present() {
            return t;
        }
    }
}

fn gen_remote_ref(rng: &mut Rng) -> RemoteRef {
    RemoteRef {
        target: gen_target(rng),
        state: if rng.chance(1, 2) { RemoteRefState::New } else { RemoteRefState::Tracked },
    }
}

fn gen_target_map<K: Ord + From<String>>(
    rng: &mut Rng,
    max: u64,
    present_only: bool,
) -> BTreeMap<K, RefTarget> {
    let n = rng.below(max + 1);
    (0..n)
        .map(|_| {
            let t = if present_only { gen_present_target(rng) } else { gen_target(rng) };
            (K::from(gen_name(rng)), t)
        })
        .collect()
}

fn gen_remote_refs(rng: &mut Rng) -> BTreeMap<jj_lib::ref_name::RefNameBuf, RemoteRef> {
    let n = rng.below(4);
    (0..n).map(|_| (gen_name(rng).into(), gen_remote_ref(rng))).collect()
}

/// A view assembled field by field. `allow_absent_local`: the O3 class (absent local
/// bookmark target, which the view mutators never produce).
fn gen_view(rng: &mut Rng, allow_absent_local: bool) -> View {
    let heads = rng.below(4);
    let remotes = match rng.below(6) {
        0..=1 => 0,
        2..=3 => 1,
        4 => 2,
        _ => 3,
    };
    View {
        head_ids: (0..heads).map(|_| CommitId::new(gen_id(rng))).collect(),
        local_bookmarks: gen_target_map(rng, 4, !allow_absent_local),
        local_tags: gen_target_map(rng, 3, false),
        remote_views: (0..remotes)
            .map(|_| {
                let rv = if rng.chance(1, 4) {
                    RemoteView::default() // remote with zero refs
                } else {
                    RemoteView { bookmarks: gen_remote_refs(rng), tags: gen_remote_refs(rng) }
                };
                (gen_name(rng).into(), rv)
            })
            .collect(),
        git_refs: gen_target_map(rng, 3, false),
        git_heads: gen_target_map(rng, 2, false),
        wc_commit_ids: (0..rng.below(4))
            .map(|_| (gen_name(rng).into(), CommitId::new(gen_id(rng))))
            .collect(),
    }
}

/// A view produced only by jj_lib::view::View's public mutators (absent targets delete).
fn gen_view_via_mutators(rng: &mut Rng) -> View {
    let mut v = jj_lib::view::View::new(View::make_root(CommitId::new(gen_id(rng))), false);
    let steps = rng.range(1, 14);
    for _ in 0..steps {
        let name = gen_name(rng);
        let remote = gen_name(rng);
        match rng.below(10) {
            0 => v.add_head(&CommitId::new(gen_id(rng))),
            1 | 2 => v.set_local_bookmark_target(RefName::new(&name), gen_target(rng)),
            3 => v.set_local_tag_target(RefName::new(&name), gen_target(rng)),
            4 | 5 => v.set_remote_bookmark(
                RefName::new(&name).to_remote_symbol(RemoteName::new(&remote)),
                gen_remote_ref(rng),
            ),
            6 => v.set_remote_tag(
                RefName::new(&name).to_remote_symbol(RemoteName::new(&remote)),
                gen_remote_ref(rng),
            ),
            7 => v.set_git_ref_target(jj_lib::ref_name::GitRefName::new(&name), gen_target(rng)),
            8 => v.set_git_head_target(WorkspaceName::new(&name), gen_target(rng)),
            _ => v.set_wc_commit(name.into(), CommitId::new(gen_id(rng))),
        }
    }
    v.store_view().clone()
}

/// An equal value rebuilt with different insertion orders and capacities.
fn rebuild_view(v: &View) -> View {
    let mut heads: Vec<_> = v.head_ids.iter().cloned().collect();
    heads.sort();
    heads.reverse();
    let mut head_ids = HashSet::with_capacity(64);
    for h in heads {
        head_ids.insert(h);
    }
    fn rev<K: Ord + Clone, V: Clone>(m: &BTreeMap<K, V>) -> BTreeMap<K, V> {
        let mut out = BTreeMap::new();
        for (k, v) in m.iter().rev() {
            out.insert(k.clone(), v.clone());
        }
        out
    }
    View {
        head_ids,
        local_bookmarks: rev(&v.local_bookmarks),
        local_tags: rev(&v.local_tags),
        remote_views: v
            .remote_views
            .iter()
            .rev()
            .map(|(k, rv)| {
                (k.clone(), RemoteView { bookmarks: rev(&rv.bookmarks), tags: rev(&rv.tags) })
            })
            .collect(),
        git_refs: rev(&v.git_refs),
        git_heads: rev(&v.git_heads),
        wc_commit_ids: rev(&v.wc_commit_ids),
    }
}

/// A second view: equal to `v`, or `v` with one component regenerated / moved.
fn mutate_view(rng: &mut Rng, v: &View) -> View {
    let mut w = v.clone();
    match rng.below(12) {
        0 | 1 => {}
        2 => {
            w.head_ids.insert(CommitId::new(gen_id(rng)));
        }
        3 => {
            w.local_bookmarks.insert(gen_name(rng).into(), gen_present_target(rng));
        }
        4 => {
            // move an entry between two maps of the same type
            if let Some((k, t)) = w.local_tags.pop_first() {
                w.git_heads.insert(k.as_str().to_string().into(), t);
            } else if let Some((k, t)) = w.local_bookmarks.pop_first() {
                w.local_tags.insert(k, t);
            }
        }
        5 => {
            // flip a state or change a term of some remote ref
            if let Some(rv) = w.remote_views.values_mut().next() {
                if let Some(rr) = rv.bookmarks.values_mut().next() {
                    rr.state = match rr.state {
                        RemoteRefState::New => RemoteRefState::Tracked,
                        RemoteRefState::Tracked => RemoteRefState::New,
                    };
                } else {
                    rv.tags.insert(gen_name(rng).into(), gen_remote_ref(rng));
                }
            } else {
                w.remote_views.insert(gen_name(rng).into(), RemoteView::default());
            }
        }
        6 => {
            // move a remote ref from bookmarks to tags
            if let Some(rv) = w.remote_views.values_mut().next() {
                if let Some((k, rr)) = rv.bookmarks.pop_first() {
                    rv.tags.insert(k, rr);
                }
            }
        }
        7 => {
            // absent <-> removed; None term <-> empty id
            if let Some(t) = w.git_refs.values_mut().next() {
                let terms: Vec<Option<Vec<u8>>> = t
                    .as_merge()
                    .iter()
                    .map(|x| match x {
                        None => Some(vec![]),
                        Some(id) if id.as_bytes().is_empty() => None,
                        Some(id) => Some(id.to_bytes()),
                    })
                    .collect();
                *t = to_target(&terms);
            } else {
                w.git_refs.insert(gen_name(rng).into(), RefTarget::absent());
            }
        }
        8 => {
            w.wc_commit_ids.insert(gen_name(rng).into(), CommitId::new(gen_id(rng)));
        }
        9 => {
            w.git_heads.insert(gen_name(rng).into(), gen_target(rng));
        }
        10 => {
            // shift a byte across the name/target boundary of a tag
            if let Some((k, _)) = w.local_tags.pop_first() {
                w.local_tags.insert(format!("{}a", k.as_str()).into(), gen_target(rng));
            }
        }
        _ => {
            w.remote_views.insert(gen_name(rng).into(), RemoteView::default());
        }
    }
    w
}

fn hash_id(rng: &mut Rng, len: usize) -> Vec<u8> {
    let fill = *rng.pick(&[0x00u8, 0x11, 0xfe]);
    let mut v = vec![fill; len];
    if len > 0 && rng.chance(1, 2) {
        v[len - 1] = rng.below(3) as u8;
    }
    v
}

fn gen_timestamp(rng: &mut Rng) -> Timestamp {
    let millis = *rng.pick(&[0i64, 1, -1, 999, 1_000_123, -1_000_123, i64::MAX, i64::MIN, 1 << 40]);
    let tz = *rng.pick(&[0i32, 60, -330, 1439, -1440, i32::MAX, i32::MIN]);
    Timestamp { timestamp: MillisSinceEpoch(millis), tz_offset: tz }
}

fn gen_text(rng: &mut Rng) -> String {
    (*rng.pick(&["", "a", "ab", "b", "snapshot working copy", "h\u{f4}te", "x\ny"])).to_string()
}

fn gen_operation(rng: &mut Rng, well_formed: bool) -> Operation {
    let idlen = |rng: &mut Rng| {
        if well_formed || rng.chance(4, 5) { 64 } else { *rng.pick(&[0usize, 1, 63, 65]) }
    };
    let nparents = rng.range(1, 3);
    let parents = (0..nparents)
        .map(|_| {
            let l = idlen(rng);
            OperationId::new(hash_id(rng, l))
        })
        .collect();
    let l = idlen(rng);
    let view_id = ViewId::new(hash_id(rng, l));
    let metadata = OperationMetadata {
        time: TimestampRange { start: gen_timestamp(rng), end: gen_timestamp(rng) },
        description: gen_text(rng),
        hostname: gen_text(rng),
        username: gen_text(rng),
        is_snapshot: rng.chance(1, 2),
        workspace_name: if rng.chance(1, 2) { Some(gen_name(rng).into()) } else { None },
        attributes: (0..rng.below(4)).map(|_| (gen_text(rng), gen_text(rng))).collect(),
    };
    let commit_predecessors = match rng.below(4) {
        0 => None,
        1 => Some(BTreeMap::new()),
        _ => Some(
            (0..rng.range(1, 3))
                .map(|_| {
                    let preds = (0..rng.below(3)).map(|_| CommitId::new(gen_id(rng))).collect();
                    (CommitId::new(gen_id(rng)), preds)
                })
                .collect(),
        ),
    };
    Operation { view_id, parents, metadata, commit_predecessors }
}

fn mutate_operation(rng: &mut Rng, o: &Operation) -> Operation {
    let mut w = o.clone();
    match rng.below(12) {
        0 | 1 => {}
        2 => w.parents.push(OperationId::new(hash_id(rng, 64))),
        3 => w.view_id = ViewId::new(hash_id(rng, 64)),
        4 => w.metadata.time.start = gen_timestamp(rng),
        5 => w.metadata.time.end.tz_offset = w.metadata.time.end.tz_offset.wrapping_add(1),
        6 => {
            // shift a byte across the description/hostname boundary
            if let Some(c) = w.metadata.description.pop() {
                w.metadata.hostname.insert(0, c);
            } else {
                w.metadata.hostname.push('a');
            }
        }
        7 => w.metadata.is_snapshot = !w.metadata.is_snapshot,
        8 => {
            w.metadata.workspace_name = match &w.metadata.workspace_name {
                None => Some("".to_string().into()),
                Some(_) => None,
            }
        }
        9 => {
            w.metadata.attributes.insert(gen_text(rng), gen_text(rng));
        }
        10 => {
            w.commit_predecessors = match &w.commit_predecessors {
                None => Some(BTreeMap::new()),
                Some(m) if m.is_empty() => None,
                Some(m) => {
                    let mut m = m.clone();
                    let (k, mut v) = m.pop_first().unwrap();
                    v.push(CommitId::new(gen_id(rng)));
                    m.insert(k, v);
                    Some(m)
                }
            }
        }
        _ => w.metadata.username = gen_text(rng),
    }
    w
}

// ---- hand-made protos (legacy forms, malformed values)

fn gen_p_target(rng: &mut Rng) -> Option<pb::RefTarget> {
    use pb::ref_target::Value;
    let value = match rng.below(16) {
        0 | 1 => return None,
        2 if rng.chance(1, 4) => None, // oneof unset: unwrap() panics
        2 => Some(Value::CommitId(gen_id(rng))),
        3..=5 => Some(Value::CommitId(gen_id(rng))),
        6..=8 => Some(Value::ConflictLegacy(pb::RefConflictLegacy {
            removes: (0..rng.below(3)).map(|_| gen_id(rng)).collect(),
            adds: (0..rng.below(4)).map(|_| gen_id(rng)).collect(),
        })),
        _ => {
            let terms = gen_terms(rng);
            let mut removes: Vec<_> =
                terms.iter().skip(1).step_by(2).map(|v| pb::ref_conflict::Term { value: v.clone() }).collect();
            let mut adds: Vec<_> =
                terms.iter().step_by(2).map(|v| pb::ref_conflict::Term { value: v.clone() }).collect();
            match rng.below(60) {
                0 => {
                    adds.pop();
                }
                1 => removes.push(pb::ref_conflict::Term { value: None }),
                _ => {}
            }
            Some(Value::Conflict(pb::RefConflict { removes, adds }))
        }
    };
    Some(pb::RefTarget { value })
}

fn gen_p_state(rng: &mut Rng) -> i32 {
    if rng.chance(1, 40) { *rng.pick(&[2, -1, 7]) } else { rng.below(2) as i32 }
}

fn gen_p_remote_refs(rng: &mut Rng) -> Vec<pb::RemoteRef> {
    (0..rng.below(3))
        .map(|_| {
            let mut terms = gen_terms(rng);
            if rng.chance(1, 40) {
                terms.pop();
            }
            pb::RemoteRef {
                name: gen_name(rng),
                target_terms: terms.into_iter().map(|value| pb::RefTargetTerm { value }).collect(),
                state: gen_p_state(rng),
            }
        })
        .collect()
}

fn gen_p_view(rng: &mut Rng) -> pb::View {
    let bookmarks = (0..rng.below(4))
        .map(|_| pb::Bookmark {
            name: gen_name(rng),
            local_target: gen_p_target(rng),
            remote_bookmarks: (0..rng.below(3))
                .map(|_| pb::RemoteBookmark {
                    remote_name: gen_name(rng),
                    target: gen_p_target(rng),
                    state: if rng.chance(1, 3) { None } else { Some(gen_p_state(rng)) },
                })
                .collect(),
        })
        .collect();
    let remote_views = if rng.chance(1, 2) {
        vec![]
    } else {
        (0..rng.range(1, 2))
            .map(|_| pb::RemoteView {
                name: gen_name(rng),
                bookmarks: gen_p_remote_refs(rng),
                tags: gen_p_remote_refs(rng),
            })
            .collect()
    };
    pb::View {
        head_ids: (0..rng.below(4)).map(|_| gen_id(rng)).collect(),
        wc_commit_id: if rng.chance(1, 2) { vec![] } else { gen_id(rng) },
        wc_commit_ids: (0..rng.below(3)).map(|_| (gen_name(rng), gen_id(rng))).collect(),
        bookmarks,
        local_tags: (0..rng.below(3))
            .map(|_| pb::Tag { name: gen_name(rng), target: gen_p_target(rng) })
            .collect(),
        remote_views,
        git_refs: (0..rng.below(4))
            .map(|_| pb::GitRef {
                name: gen_name(rng),
                commit_id: gen_id(rng),
                target: if rng.chance(1, 3) { None } else { gen_p_target(rng) },
            })
            .collect(),
        git_head_legacy: if rng.chance(1, 2) { vec![] } else { gen_id(rng) },
        git_head: if rng.chance(1, 2) { None } else { gen_p_target(rng) },
        has_git_refs_migrated_to_remote_tags: rng.chance(1, 2),
        git_heads: (0..rng.below(5).saturating_sub(2))
            .map(|_| pb::GitHead { name: gen_name(rng), target: gen_p_target(rng) })
            .collect(),
    }
}

fn gen_p_operation(rng: &mut Rng) -> pb::Operation {
    let idlen = |rng: &mut Rng| if rng.chance(5, 6) { 64 } else { *rng.pick(&[0usize, 1, 63, 65]) };
    let ts = |rng: &mut Rng| {
        if rng.chance(1, 4) {
            None
        } else {
            let t = gen_timestamp(rng);
            Some(pb::Timestamp { millis_since_epoch: t.timestamp.0, tz_offset: t.tz_offset })
        }
    };
    pb::Operation {
        view_id: {
            let l = idlen(rng);
            hash_id(rng, l)
        },
        parents: (0..rng.below(3))
            .map(|_| {
                let l = idlen(rng);
                hash_id(rng, l)
            })
            .collect(),
        metadata: if rng.chance(1, 5) {
            None
        } else {
            Some(pb::OperationMetadata {
                start_time: ts(rng),
                end_time: ts(rng),
                description: gen_text(rng),
                hostname: gen_text(rng),
                username: gen_text(rng),
                is_snapshot: rng.chance(1, 2),
                workspace_name: if rng.chance(1, 2) { Some(gen_name(rng)) } else { None },
                attributes: (0..rng.below(3)).map(|_| (gen_text(rng), gen_text(rng))).collect(),
            })
        },
        commit_predecessors: (0..rng.below(4))
            .map(|_| pb::CommitPredecessors {
                commit_id: gen_id(rng),
                predecessor_ids: (0..rng.below(3)).map(|_| gen_id(rng)).collect(),
            })
            .collect(),
        stores_commit_predecessors: rng.chance(2, 3),
    }
}

// ------------------------------------------------------------------ Coq printers

fn by(xs: &[u8]) -> String {
    coq::bytes(xs)
}

fn s(x: &str) -> String {
    by(x.as_bytes())
}

fn c_target(t: &RefTarget) -> String {
    coq::list(t.as_merge().iter(), |x| coq::opt(x.as_ref(), |id| by(id.as_bytes())))
}

fn c_remote_refs(m: &BTreeMap<jj_lib::ref_name::RefNameBuf, RemoteRef>) -> String {
    coq::list(m.iter(), |(k, rr)| {
        let st = match rr.state {
            RemoteRefState::New => "RNew",
            RemoteRefState::Tracked => "RTracked",
        };
        coq::pair(s(k.as_str()), coq::app("mk_rr", &[c_target(&rr.target), st.to_string()]))
    })
}

fn c_view(v: &View) -> String {
    let mut heads: Vec<_> = v.head_ids.iter().collect();
    heads.sort();
    coq::app(
        "mk_view",
        &[
            coq::list(heads, |h| by(h.as_bytes())),
            coq::list(v.local_bookmarks.iter(), |(k, t)| coq::pair(s(k.as_str()), c_target(t))),
            coq::list(v.local_tags.iter(), |(k, t)| coq::pair(s(k.as_str()), c_target(t))),
            coq::list(v.remote_views.iter(), |(k, rv)| {
                coq::pair(
                    s(k.as_str()),
                    coq::app("mk_rv", &[c_remote_refs(&rv.bookmarks), c_remote_refs(&rv.tags)]),
                )
            }),
            coq::list(v.git_refs.iter(), |(k, t)| coq::pair(s(k.as_str()), c_target(t))),
            coq::list(v.git_heads.iter(), |(k, t)| coq::pair(s(k.as_str()), c_target(t))),
            coq::list(v.wc_commit_ids.iter(), |(k, id)| coq::pair(s(k.as_str()), by(id.as_bytes()))),
        ],
    )
}

fn c_timestamp(t: &Timestamp) -> String {
    coq::app("mk_ts", &[coq::z(t.timestamp.0), coq::z(t.tz_offset as i64)])
}

fn c_operation(o: &Operation) -> String {
    let m = &o.metadata;
    let md = coq::app(
        "mk_md",
        &[
            c_timestamp(&m.time.start),
            c_timestamp(&m.time.end),
            s(&m.description),
            s(&m.hostname),
            s(&m.username),
            coq::b(m.is_snapshot),
            coq::opt(m.workspace_name.as_ref(), |w| s(w.as_str())),
            coq::list(m.attributes.iter(), |(k, v)| coq::pair(s(k), s(v))),
        ],
    );
    coq::app(
        "mk_op",
        &[
            by(o.view_id.as_bytes()),
            coq::list(o.parents.iter(), |p| by(p.as_bytes())),
            md,
            coq::opt(o.commit_predecessors.as_ref(), |m| {
                coq::list(m.iter(), |(k, v)| {
                    coq::pair(by(k.as_bytes()), coq::list(v.iter(), |p| by(p.as_bytes())))
                })
            }),
        ],
    )
}

fn c_obytes(x: &Option<Vec<u8>>) -> String {
    coq::opt(x.as_ref(), |b| by(b))
}

fn c_p_target(t: &Option<pb::RefTarget>) -> String {
    use pb::ref_target::Value;
    coq::opt(t.as_ref(), |t| {
        coq::opt(t.value.as_ref(), |v| match v {
            Value::CommitId(b) => coq::app("PCommitId", &[by(b)]),
            Value::ConflictLegacy(c) => coq::app(
                "PConflictLegacy",
                &[coq::list(c.removes.iter(), |b| by(b)), coq::list(c.adds.iter(), |b| by(b))],
            ),
            Value::Conflict(c) => coq::app(
                "PConflict",
                &[
                    coq::list(c.removes.iter(), |t| c_obytes(&t.value)),
                    coq::list(c.adds.iter(), |t| c_obytes(&t.value)),
                ],
            ),
        })
    })
}

fn c_p_remote_refs(l: &[pb::RemoteRef]) -> String {
    coq::list(l.iter(), |r| {
        coq::app(
            "mk_prr",
            &[s(&r.name), coq::list(r.target_terms.iter(), |t| c_obytes(&t.value)), coq::z(r.state as i64)],
        )
    })
}

/// Hash-ordered collections (head_ids after decoding is a Vec in HashSet order on write;
/// wc_commit_ids is a HashMap) are printed sorted.
fn c_p_view(p: &pb::View, sort_heads: bool) -> String {
    let mut heads: Vec<&Vec<u8>> = p.head_ids.iter().collect();
    if sort_heads {
        heads.sort();
    }
    let mut wcs: Vec<_> = p.wc_commit_ids.iter().collect();
    wcs.sort();
    coq::app(
        "mk_pview",
        &[
            coq::list(heads, |b| by(b)),
            by(&p.wc_commit_id),
            coq::list(wcs, |(k, v)| coq::pair(s(k), by(v))),
            coq::list(p.bookmarks.iter(), |b| {
                coq::app(
                    "mk_pb",
                    &[
                        s(&b.name),
                        c_p_target(&b.local_target),
                        coq::list(b.remote_bookmarks.iter(), |r| {
                            coq::app(
                                "mk_prb",
                                &[
                                    s(&r.remote_name),
                                    c_p_target(&r.target),
                                    coq::opt(r.state, |n| coq::z(n as i64)),
                                ],
                            )
                        }),
                    ],
                )
            }),
            coq::list(p.local_tags.iter(), |t| coq::pair(s(&t.name), c_p_target(&t.target))),
            coq::list(p.remote_views.iter(), |rv| {
                coq::app("mk_prv", &[s(&rv.name), c_p_remote_refs(&rv.bookmarks), c_p_remote_refs(&rv.tags)])
            }),
            coq::list(p.git_refs.iter(), |g| {
                coq::app("mk_pgr", &[s(&g.name), by(&g.commit_id), c_p_target(&g.target)])
            }),
            by(&p.git_head_legacy),
            c_p_target(&p.git_head),
            coq::b(p.has_git_refs_migrated_to_remote_tags),
            coq::list(p.git_heads.iter(), |t| coq::pair(s(&t.name), c_p_target(&t.target))),
        ],
    )
}

fn c_p_operation(p: &pb::Operation) -> String {
    let ts = |t: &Option<pb::Timestamp>| {
        coq::opt(t.as_ref(), |t| coq::app("mk_pts", &[coq::z(t.millis_since_epoch), coq::z(t.tz_offset as i64)]))
    };
    let md = coq::opt(p.metadata.as_ref(), |m| {
        let mut attrs: Vec<_> = m.attributes.iter().collect();
        attrs.sort();
        coq::app(
            "mk_pmd",
            &[
                ts(&m.start_time),
                ts(&m.end_time),
                s(&m.description),
                s(&m.hostname),
                s(&m.username),
                coq::b(m.is_snapshot),
                coq::opt(m.workspace_name.as_ref(), |w| s(w)),
                coq::list(attrs, |(k, v)| coq::pair(s(k), s(v))),
            ],
        )
    });
    coq::app(
        "mk_pop",
        &[
            by(&p.view_id),
            coq::list(p.parents.iter(), |b| by(b)),
            md,
            coq::list(p.commit_predecessors.iter(), |c| {
                coq::pair(by(&c.commit_id), coq::list(c.predecessor_ids.iter(), |b| by(b)))
            }),
            coq::b(p.stores_commit_predecessors),
        ],
    )
}

fn number_after(msg: &str, key: &str) -> Option<i64> {
    let rest = &msg[msg.find(key)? + key.len()..];
    let end = rest.find(|c: char| !(c.is_ascii_digit() || c == '-')).unwrap_or(rest.len());
    rest[..end].parse().ok()
}

/// Maps an OpStoreError to the model's `perr` by the PostDecodeError message in its chain.
fn c_err(e: &OpStoreError) -> String {
    let mut cur: Option<&dyn std::error::Error> = Some(e);
    while let Some(err) = cur {
        let msg = err.to_string();
        if msg.starts_with("Invalid hash length") {
            let exp = number_after(&msg, "expected ").unwrap_or(-1);
            let act = number_after(&msg, "got ").unwrap_or(-1);
            return format!("(Err (EInvalidHashLength {exp} {act}))");
        }
        if msg.starts_with("Invalid remote ref state value") {
            let n = number_after(&msg, "value ").unwrap_or(i64::MIN);
            return format!("(Err (EInvalidState {}))", coq::z(n));
        }
        if msg.starts_with("Invalid number of ref target terms") {
            let n = number_after(&msg, "terms ").unwrap_or(-1);
            return format!("(Err (EEvenTerms {n}))");
        }
        cur = err.source();
    }
    // not a PostDecodeError: never equal to a model outcome
    "(Err (EInvalidHashLength 0 0))".to_string()
}

fn c_res<T>(r: Option<Result<T, OpStoreError>>, f: impl Fn(&T) -> String) -> String {
    match r {
        None => "Panic".to_string(),
        Some(Ok(v)) => format!("(Ok {})", f(&v)),
        Some(Err(e)) => c_err(&e),
    }
}

fn new_store(dir: &Path) -> SimpleOpStore {
    std::fs::create_dir_all(dir).unwrap();
    SimpleOpStore::init(dir, RootOperationData { root_commit_id: CommitId::new(vec![0; 20]) }).unwrap()
}

fn load_store(dir: &Path) -> SimpleOpStore {
    SimpleOpStore::load(dir, RootOperationData { root_commit_id: CommitId::new(vec![0; 20]) })
}

fn main() {
    jjv::run("C16", "C16", |ctx| {
        for i in ctx.indices() {
            let mut rng = ctx.rng(i);
            let dir = ctx.scratch.join(format!("s{i}"));
            let dir2 = ctx.scratch.join(format!("t{i}"));
            let kind = match i % 8 {
                0..=2 => 0, // view assembled directly
                3 => 1,     // view via mutators
                4 | 5 => 2, // operation
                6 => 3,     // hand-made view proto
                _ => 4,     // hand-made operation proto
            };
            match kind {
                0 | 1 => {
                    let o3 = kind == 0 && rng.chance(1, 10);
                    let v = if kind == 1 { gen_view_via_mutators(&mut rng) } else { gen_view(&mut rng, o3) };
                    let w = mutate_view(&mut rng, &v);
                    let store = new_store(&dir);
                    let vid = store.write_view(&v).block_on().unwrap();
                    let wid = store.write_view(&w).block_on().unwrap();
                    let file = std::fs::read(dir.join("views").join(vid.hex())).unwrap();
                    let stored = pb::View::decode(&*file).unwrap();
                    let reader = load_store(&dir);
                    let read = jjv::catch(|| reader.read_view(&vid).block_on());
                    let vid2 = new_store(&dir2).write_view(&rebuild_view(&v)).block_on().unwrap();
                    let hashed = hashed_bytes(&v);
                    let id_is_hash = blake(&hashed) == vid.as_bytes();
                    let absent_local = v.local_bookmarks.values().any(|t| t.is_absent());
                    let conflicted = v
                        .local_bookmarks
                        .values()
                        .chain(v.local_tags.values())
                        .chain(v.git_refs.values())
                        .any(|t| t.has_conflict());
                    let term = coq::app(
                        "CView",
                        &[
                            c_view(&v),
                            c_view(&w),
                            coq::b(kind == 1),
                            c_p_view(&stored, true),
                            c_res(read, c_view),
                            by(&hashed),
                            by(vid.as_bytes()),
                            by(vid2.as_bytes()),
                            by(wid.as_bytes()),
                            coq::b(id_is_hash),
                        ],
                    );
                    let shape = format!(
                        "view{} remotes={} {}{}",
                        if kind == 1 { "-mut" } else { "" },
                        v.remote_views.len().min(2),
                        if absent_local {
                            "absent-local(O3) "
                        } else if conflicted {
                            "conflicted "
                        } else {
                            ""
                        },
                        if v == w { "w=v" } else { "w!=v" }
                    );
                    let nontrivial = !v.local_bookmarks.is_empty() || !v.remote_views.is_empty();
                    ctx.emit(i, term, nontrivial, &shape);
                }
                2 => {
                    let wf = !rng.chance(1, 8);
                    let o = gen_operation(&mut rng, wf);
                    let w = mutate_operation(&mut rng, &o);
                    let store = new_store(&dir);
                    let oid = store.write_operation(&o).block_on().unwrap();
                    let wid = store.write_operation(&w).block_on().unwrap();
                    let file = std::fs::read(dir.join("operations").join(oid.hex())).unwrap();
                    let stored = pb::Operation::decode(&*file).unwrap();
                    let reader = load_store(&dir);
                    let read = jjv::catch(|| reader.read_operation(&oid).block_on());
                    let mut o2 = o.clone();
                    o2.metadata.attributes = o.metadata.attributes.iter().rev().map(|(k, v)| (k.clone(), v.clone())).collect();
                    let oid2 = new_store(&dir2).write_operation(&o2).block_on().unwrap();
                    let hashed = hashed_bytes(&o);
                    let id_is_hash = blake(&hashed) == oid.as_bytes();
                    let term = coq::app(
                        "COp",
                        &[
                            c_operation(&o),
                            c_operation(&w),
                            c_p_operation(&stored),
                            c_res(read, c_operation),
                            by(&hashed),
                            by(oid.as_bytes()),
                            by(oid2.as_bytes()),
                            by(wid.as_bytes()),
                            coq::b(id_is_hash),
                        ],
                    );
                    let shape = format!(
                        "op preds={} {}{}",
                        match &o.commit_predecessors {
                            None => "none",
                            Some(m) if m.is_empty() => "empty",
                            Some(_) => "some",
                        },
                        if wf { "" } else { "maybe-bad-id-length " },
                        if o == w { "w=o" } else { "w!=o" }
                    );
                    ctx.emit(i, term, true, &shape);
                }
                3 => {
                    let p = gen_p_view(&mut rng);
                    let store = new_store(&dir);
                    let id = ViewId::new(vec![0x11; 64]);
                    std::fs::write(dir.join("views").join(id.hex()), p.encode_to_vec()).unwrap();
                    let read = jjv::catch(|| store.read_view(&id).block_on());
                    let outcome = match &read {
                        None => "panic",
                        Some(Ok(_)) => "ok",
                        Some(Err(_)) => "err",
                    };
                    let shape = format!(
                        "view-proto {} migrated={} legacy-remotes={}",
                        outcome,
                        p.has_git_refs_migrated_to_remote_tags,
                        p.remote_views.is_empty()
                    );
                    let term = coq::app("CViewProto", &[c_p_view(&p, false), c_res(read, c_view)]);
                    ctx.emit(i, term, true, &shape);
                }
                _ => {
                    let p = gen_p_operation(&mut rng);
                    let store = new_store(&dir);
                    let id = OperationId::new(vec![0x11; 64]);
                    std::fs::write(dir.join("operations").join(id.hex()), p.encode_to_vec()).unwrap();
                    let read = jjv::catch(|| store.read_operation(&id).block_on());
                    let outcome = match &read {
                        None => "panic",
                        Some(Ok(_)) => "ok",
                        Some(Err(_)) => "err",
                    };
                    let shape = format!("op-proto {} parents={}", outcome, p.parents.len().min(1));
                    let term = coq::app("COpProto", &[c_p_operation(&p), c_res(read, c_operation)]);
                    ctx.emit(i, term, true, &shape);
                }
            }
            let _ = std::fs::remove_dir_all(&dir);
            let _ = std::fs::remove_dir_all(&dir2);
        }
    });
}
