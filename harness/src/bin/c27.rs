//! C27: a tree checked out in full, then a series of real set_sparse_patterns calls (pattern
//! sets moving in and out, empty, root), in some cases with disk edits outside the current
//! patterns in between (files, directories and links at tree paths that are not on disk),
//! and a real snapshot after each call.
#[path = "../wcc.rs"]
mod wcc;

use jjv::coq;
use wcc::*;

struct CaseOut {
    term: String,
    nontrivial: bool,
    shape: String,
    panicked: bool,
}

fn comparable(a: &P, b: &P) -> bool {
    is_prefix(a, b) || is_prefix(b, a)
}

fn gen_untracked(rng: &mut jjv::Rng, t: &Tree) -> Vec<Edit> {
    if rng.chance(1, 3) {
        return vec![];
    }
    let mut dirs: Vec<P> = vec![vec![]];
    for p in t.keys() {
        for k in 1..p.len() {
            dirs.push(p[..k].to_vec());
        }
    }
    dirs.sort();
    dirs.dedup();
    let n = 1 + rng.below(3);
    let mut out = vec![];
    for _ in 0..n {
        let mut p = rng.pick(&dirs).clone();
        p.push(rng.pick(&["u", "v"]).to_string());
        if t.keys().any(|q| comparable(&p, q)) {
            continue;
        }
        out.push(match rng.below(4) {
            0 => Edit::MkDir(p),
            _ => Edit::WriteFile(p, "u".to_string(), false),
        });
    }
    out
}

fn gen_patterns(rng: &mut jjv::Rng, t: &Tree) -> Vec<P> {
    let mut cands: Vec<P> = vec![];
    for p in t.keys() {
        for k in 1..=p.len() {
            cands.push(p[..k].to_vec());
        }
    }
    for n in NAMES {
        cands.push(vec![n.to_string()]);
    }
    cands.sort();
    cands.dedup();
    match rng.below(8) {
        0 => vec![vec![]],
        1 => vec![],
        _ => {
            let n = 1 + rng.below(3);
            let mut out: Vec<P> = (0..n).map(|_| rng.pick(&cands).clone()).collect();
            out.sort();
            out.dedup();
            out
        }
    }
}

fn run_case(_i: usize, mut rng: jjv::Rng) -> CaseOut {
    let mut t = gen_tree(&mut rng, 0);
    for _ in 0..2 {
        let extra = gen_tree(&mut rng, 0);
        for (p, v) in extra {
            tree_insert(&mut t, p, v);
        }
    }
    let untracked = gen_untracked(&mut rng, &t);
    let dirty_case = rng.chance(1, 3);

    let mut ws = Ws::new();
    for e in &untracked {
        apply_edit(&ws.root, e);
    }
    let disk_u = list_disk(&ws.root);
    let store = ws.store();
    let tm = write_tree(&store, &t);
    let r0 = outcome(ws.check_out(&tm));
    assert!(matches!(r0, Outcome::Ok(_)), "initial checkout: {r0:?}");

    let n_steps = 2 + rng.below(3) as usize;
    let mut steps = vec![];
    let mut panicked = false;
    let mut clean = true;
    let mut any_skip = false;
    let mut moved = false;
    for _ in 0..n_steps {
        let old = ws.sparse();
        let new = gen_patterns(&mut rng, &t);
        let Some(cur) = read_tree(&ws.wc_tree()) else { break };
        if dirty_case && rng.chance(2, 3) {
            // edits at tree paths that are outside the current patterns (so not on disk)
            let outside: Vec<&P> = cur.keys().filter(|p| !matches_sparse(&old, p)).collect();
            if !outside.is_empty() {
                let k = 1 + rng.below(2);
                for _ in 0..k {
                    let p = (*rng.pick(&outside)).clone();
                    let p = if rng.chance(1, 3) && p.len() > 1 { p[..p.len() - 1].to_vec() } else { p };
                    let depth = p.len();
                    let e = match rng.below(4) {
                        0 => Edit::MkDir(p),
                        1 => Edit::Symlink(p, outside_rel(depth)),
                        _ => Edit::WriteFile(p, "o".to_string(), rng.chance(1, 4)),
                    };
                    apply_edit(&ws.root, &e);
                    clean = false;
                }
            }
        }
        let disk0 = list_disk(&ws.root);
        let states0 = ws.file_states();
        let tree_before = ws.wc_tree();
        fs_trace_start();
        let res = outcome(ws.set_sparse(&new));
        let calls = fs_trace_stop(&ws.root);
        panicked |= res == Outcome::Panic;
        any_skip |= matches!(&res, Outcome::Ok(s) if s.skipped_files > 0);
        moved |= matches!(&res, Outcome::Ok(s) if s.added_files + s.removed_files > 0);
        let disk1 = list_disk(&ws.root);
        let states1 = ws.file_states();
        let tree_same = ws.wc_tree().tree_ids_and_labels() == tree_before.tree_ids_and_labels();
        let snap = ws.snapshot_tracked_only().as_ref().and_then(read_tree);
        steps.push(format!(
            "(C27Chk.mk_sstep {} {} {} {} {} {} {} {} {} {} {} {})",
            coq_tree(&cur),
            coq_paths(&old),
            coq_paths(&new),
            coq_disk(&disk0),
            coq_states(&states0),
            coq::b(clean),
            coq_outcome(&res),
            coq_calls(&calls),
            coq_disk(&disk1),
            coq_states(&states1),
            coq::b(tree_same),
            coq::opt(snap.as_ref(), coq_tree)
        ));
        if !matches!(res, Outcome::Ok(_)) {
            break;
        }
    }
    let term = coq::app("C27Chk.mk_case", &[coq_disk(&disk_u), coq::list(steps.iter(), |s| s.clone())]);
    let shape = format!(
        "steps={}{}{}{}",
        steps.len(),
        if clean { " clean" } else { " edited" },
        if any_skip { " skipped" } else { "" },
        if untracked.is_empty() { "" } else { " untracked" },
    );
    CaseOut { term, nontrivial: moved, shape, panicked }
}

/// Replay of the known finding "sparse-removal-skipped-assert" on the real code
/// (`C27_PROBE=1 target/debug/c27`): prints what happens.
fn probe() {
    let scratch = std::env::temp_dir();
    let _ = scratch;
    let mut ws = Ws::new();
    let mut t = Tree::new();
    t.insert(vec!["x".into(), "f".into()], TVal::File("1".into(), false));
    t.insert(vec!["y".into()], TVal::File("2".into(), false));
    let tm = write_tree(&ws.store(), &t);
    println!("check_out: {:?}", outcome(ws.check_out(&tm)));
    println!("set_sparse [x]: {:?}", outcome(ws.set_sparse(&[vec!["x".to_string()]])));
    std::fs::remove_dir_all(ws.root.join("x")).unwrap();
    std::fs::write(ws.root.join("x"), b"o").unwrap();
    std::panic::set_hook(Box::new(|info| println!("panic: {info}")));
    println!("set_sparse [y]: {:?}", outcome(ws.set_sparse(&[vec!["y".to_string()]])));
    println!("disk: {:?}", list_disk(&ws.root).keys().collect::<Vec<_>>());
    println!("sparse recorded: {:?}", ws.sparse());
    println!("snapshot: {:?}", ws.snapshot_tracked_only().as_ref().and_then(read_tree));
}

fn main() {
    if std::env::var("C27_PROBE").is_ok() {
        probe();
        return;
    }
    jjv::run("C27", "C27", |ctx| {
        // TestEnvironment creates its directories under TMPDIR: keep them in our scratch
        unsafe { std::env::set_var("TMPDIR", &ctx.scratch) };
        install_fs_trace();
        let outs = par_cases(ctx, run_case);
        for (i, o) in outs {
            if o.panicked {
                ctx.panicked();
            }
            ctx.emit(i, o.term, o.nontrivial, &o.shape);
        }
    });
}
