//! C27: a tree checked out in full, then a series of real set_sparse_patterns calls (pattern
//! sets moving in and out, empty, root), in some cases with disk edits outside the current
//! patterns in between (files, directories and links at tree paths that are not on disk),
//! and a real snapshot after each call.
#[path = "../wcc.rs"]
mod wcc;

use jjv::coq;
use wcc::*;

struct CaseOut {
    term: String,
    nontrivial: bool,
    shape: String,
    panicked: bool,
}

fn comparable(a: &P, b: &P) -> bool {
    is_prefix(a, b) || is_prefix(b, a)
}

fn gen_untracked(rng: &mut jjv::Rng, t: &Tree) -> Vec<Edit> {
    if rng.chance(1, 3) {
        return vec![];
    }
    let mut dirs: Vec<P> = vec![vec![]];
    for p in t.keys() {
        for k in 1..p.len() {
            dirs.push(p[..k].to_vec());
        }
    }
    dirs.sort();
    dirs.dedup();
    let n = 1 + rng.below(3);
    let mut out = vec![];
    for _ in 0..n {
        let mut p = rng.pick(&dirs).clone();
        p.push(rng.pick(&["u", "v"]).to_string());
        if t.keys().any(|q| comparable(&p, q)) {
            continue;
        }
        out.push(match rng.below(4) {
            0 => Edit::MkDir(p),
            _ => Edit::WriteFile(p, "u".to_string(), false),
        });
    }
    out
}

fn gen_patterns(rng: &mut jjv::Rng, t: &Tree) -> Vec<P> {
    let mut cands: Vec<P> = vec![];
    for p in t.keys() {
        for k in 1..=p.len() {
            cands.push(p[..k].to_vec());
        }
    }
    for n in NAMES {
        cands.push(vec![n.to_string()]);
    }
    cands.sort();
    cands.dedup();
    match rng.below(8) {
        0 => vec![vec![]],
        1 => vec![],
        _ => {
            let n = 1 + rng.below(3);
            let mut out: Vec<P> = (0..n).map(|_| rng.pick(&cands).clone()).collect();
            out.sort();
            out.dedup();
            out
        }
    }
}

/// A whole session inside ONE locked working copy (no reload of the state between the
/// steps): snapshot -> set_sparse_patterns(P1) (+ snapshot) -> edits of tracked files inside
/// and outside P1 -> snapshot -> [optionally finish and lock again] -> check_out(T2) ->
/// set_sparse_patterns(P2) (+ snapshot) -> finish; then a snapshot through a freshly loaded
/// working copy. Every step records the tree and the patterns current at that moment.
/// `fixed` = the corpus session.
fn run_session(rng: &mut jjv::Rng, fixed: bool) -> (String, Vec<String>, String, bool) {
    use jj_lib::working_copy::SnapshotOptions;
    use pollster::FutureExt as _;
    let file = |c: &str, x: bool| TVal::File(c.to_string(), x);
    let (t, t2, p1, p2): (Tree, Tree, Vec<P>, Vec<P>) = if fixed {
        let pth = |s: &str| -> P { s.split('/').map(|c| c.to_string()).collect() };
        let mut t = Tree::new();
        t.insert(pth("a/x"), file("1", false));
        t.insert(pth("a/y"), file("2", true));
        t.insert(pth("b/z"), file("3", false));
        t.insert(pth("c"), file("4", false));
        let mut t2 = t.clone();
        t2.insert(pth("a/x"), file("one", false));
        t2.insert(pth("b/z"), file("three", false));
        t2.insert(pth("b/new"), file("n", false));
        t2.remove(&pth("c"));
        (t, t2, vec![pth("a")], vec![pth("b"), pth("a/y")])
    } else {
        let mut t = gen_tree(rng, 0);
        for _ in 0..2 {
            for (p, v) in gen_tree(rng, 0) {
                tree_insert(&mut t, p, v);
            }
        }
        let t2 = mutate_tree(rng, &t, 0);
        let p1 = gen_patterns(rng, &t);
        let p2 = gen_patterns(rng, &t2);
        (t, t2, p1, p2)
    };
    // untracked entries must not be in the way of either tree
    let untracked: Vec<Edit> = if fixed {
        vec![]
    } else {
        gen_untracked(rng, &t)
            .into_iter()
            .filter(|e| {
                let (Edit::WriteFile(p, ..) | Edit::MkDir(p) | Edit::Symlink(p, _) | Edit::Remove(p)) = e;
                !t2.keys().any(|q| comparable(p, q))
            })
            .collect()
    };
    let split = !fixed && rng.chance(1, 3);

    let mut ws = Ws::new();
    for e in &untracked {
        apply_edit(&ws.root, e);
    }
    let disk_u = list_disk(&ws.root);
    let store = ws.store();
    let tm = write_tree(&store, &t);
    let r0 = outcome(ws.check_out(&tm));
    assert!(matches!(r0, Outcome::Ok(_)), "initial checkout: {r0:?}");
    let commit2 = testutils::commit_with_tree(&store, write_tree(&store, &t2));
    let op_id = ws.tw.repo.op_id().clone();
    let root = ws.root.clone();

    let mut steps: Vec<String> = vec![];
    let mut cur_tree = t.clone();
    let mut clean = true;
    let mut panicked = false;
    let mut moved = false;
    let options = || SnapshotOptions {
        start_tracking_matcher: &jj_lib::matchers::NothingMatcher,
        ..testutils::empty_snapshot_options()
    };
    {
        let workspace = &mut ws.tw.workspace;
        let mut locked = workspace.start_working_copy_mutation().block_on().unwrap();
        // returns false when the session has to stop (error or panic)
        macro_rules! snap {
            () => {{
                let sp: Vec<P> = locked.locked_wc().sparse_patterns().unwrap().iter().map(|p| from_repo_path(p)).collect();
                let d = list_disk(&root);
                let r = jjv::catch(|| locked.locked_wc().snapshot(&options()).block_on().ok().map(|(t, _)| t))
                    .flatten()
                    .as_ref()
                    .and_then(read_tree);
                steps.push(format!(
                    "(C27Chk.SeSnap {} {} {} {})",
                    coq_tree(&cur_tree),
                    coq_paths(&sp),
                    coq_disk(&d),
                    coq::opt(r.as_ref(), coq_tree)
                ));
                match r {
                    Some(tr) => {
                        cur_tree = tr;
                        true
                    }
                    None => false,
                }
            }};
        }
        macro_rules! sparse {
            ($new:expr) => {{
                let new: Vec<P> = $new;
                let old: Vec<P> = locked.locked_wc().sparse_patterns().unwrap().iter().map(|p| from_repo_path(p)).collect();
                let d0 = list_disk(&root);
                let pats: Vec<jj_lib::repo_path::RepoPathBuf> = new.iter().map(to_repo_path).collect();
                fs_trace_start();
                let res = outcome(jjv::catch(|| locked.locked_wc().set_sparse_patterns(pats).block_on()));
                let calls = fs_trace_stop(&root);
                panicked |= res == Outcome::Panic;
                moved |= matches!(&res, Outcome::Ok(s) if s.added_files + s.removed_files > 0);
                let d1 = list_disk(&root);
                let ok = matches!(res, Outcome::Ok(_));
                let after: Vec<P> = locked.locked_wc().sparse_patterns().unwrap().iter().map(|p| from_repo_path(p)).collect();
                // a snapshot right after (only when the call succeeded)
                let tree_before = cur_tree.clone();
                let snap = if ok {
                    jjv::catch(|| locked.locked_wc().snapshot(&options()).block_on().ok().map(|(t, _)| t))
                        .flatten()
                        .as_ref()
                        .and_then(read_tree)
                } else {
                    None
                };
                steps.push(format!(
                    "(C27Chk.SeSparse (C27Chk.mk_sstep {} {} {} {} [] {} {} {} {} [] true {}) {})",
                    coq_tree(&tree_before),
                    coq_paths(&old),
                    coq_paths(&new),
                    coq_disk(&d0),
                    coq::b(clean),
                    coq_outcome(&res),
                    coq_calls(&calls),
                    coq_disk(&d1),
                    coq::opt(snap.as_ref(), coq_tree),
                    coq_paths(&after)
                ));
                if let Some(tr) = snap {
                    cur_tree = tr;
                }
                ok && cur_tree == cur_tree
            }};
        }
        'session: {
            if !snap!() {
                break 'session;
            }
            if !sparse!(p1.clone()) {
                break 'session;
            }
            // edits of tracked files inside and outside the current patterns; every content
            // edit changes the size, so that it cannot hide behind an equal mtime
            let cur_sp: Vec<P> = locked.locked_wc().sparse_patterns().unwrap().iter().map(|p| from_repo_path(p)).collect();
            let keys: Vec<P> = cur_tree.keys().cloned().collect();
            let n_edits = if fixed { 0 } else { rng.below(4) };
            let mut edits: Vec<Edit> = vec![];
            if fixed {
                let pth = |s: &str| -> P { s.split('/').map(|c| c.to_string()).collect() };
                edits.push(Edit::WriteFile(pth("a/x"), "edited inside".into(), false));
                edits.push(Edit::WriteFile(pth("b/z"), "edited outside".into(), false));
                edits.push(Edit::WriteFile(pth("c"), "edited outside too".into(), true));
            }
            for _ in 0..n_edits {
                if keys.is_empty() {
                    break;
                }
                let p = rng.pick(&keys).clone();
                let inside = matches_sparse(&cur_sp, &p);
                edits.push(match rng.below(3) {
                    0 if inside => Edit::Remove(p),
                    1 => Edit::WriteFile(p, "edited-with-a-new-size".into(), true),
                    _ => Edit::WriteFile(p, "edited content".into(), false),
                });
            }
            for e in &edits {
                apply_edit(&root, e);
                clean = false;
            }
            if !snap!() {
                break 'session;
            }
            if split {
                // across finish: the state is saved and the next mutation starts from it
                if jjv::catch(|| locked.finish(op_id.clone()).block_on().unwrap()).is_none() {
                    panicked = true;
                    break 'session;
                }
                locked = workspace.start_working_copy_mutation().block_on().unwrap();
            }
            // check out another tree under the current patterns
            {
                let sp: Vec<P> = locked.locked_wc().sparse_patterns().unwrap().iter().map(|p| from_repo_path(p)).collect();
                let d0 = list_disk(&root);
                fs_trace_start();
                let res = outcome(jjv::catch(|| locked.locked_wc().check_out(&commit2).block_on()));
                let calls = fs_trace_stop(&root);
                panicked |= res == Outcome::Panic;
                let d1 = list_disk(&root);
                steps.push(format!(
                    "(C27Chk.SeCheckout {} {} {} {} {} {} {})",
                    coq_tree(&cur_tree),
                    coq_paths(&sp),
                    coq_disk(&d0),
                    coq_tree(&t2),
                    coq_outcome(&res),
                    coq_calls(&calls),
                    coq_disk(&d1)
                ));
                if !matches!(res, Outcome::Ok(_)) {
                    break 'session;
                }
                cur_tree = t2.clone();
            }
            if !sparse!(p2.clone()) {
                break 'session;
            }
            if !snap!() {
                break 'session;
            }
            let _ = jjv::catch(|| locked.finish(op_id.clone()).block_on().unwrap());
            // through a freshly loaded working copy
            let mut locked2 = workspace.start_working_copy_mutation().block_on().unwrap();
            let sp: Vec<P> = locked2.locked_wc().sparse_patterns().unwrap().iter().map(|p| from_repo_path(p)).collect();
            let d = list_disk(&root);
            let r = jjv::catch(|| locked2.locked_wc().snapshot(&options()).block_on().ok().map(|(t, _)| t))
                .flatten()
                .as_ref()
                .and_then(read_tree);
            steps.push(format!(
                "(C27Chk.SeSnap {} {} {} {})",
                coq_tree(&cur_tree),
                coq_paths(&sp),
                coq_disk(&d),
                coq::opt(r.as_ref(), coq_tree)
            ));
        }
    }
    let shape = format!(
        "session n={}{}{}{}",
        steps.len().min(9),
        if clean { " clean" } else { " edited" },
        if split { " split" } else { "" },
        if panicked { " panic" } else { "" }
    );
    let _ = moved;
    (coq_disk(&disk_u), steps, shape, panicked)
}

fn run_case(_i: usize, mut rng: jjv::Rng) -> CaseOut {
    if _i == 0 || rng.chance(7, 20) {
        let (disk_u, steps, shape, panicked) = run_session(&mut rng, _i == 0);
        let term = coq::app(
            "C27Chk.mk_case",
            &[disk_u, "[]".to_string(), coq::list(steps.iter(), |s| s.clone())],
        );
        return CaseOut { term, nontrivial: steps.len() >= 5, shape, panicked };
    }
    let mut t = gen_tree(&mut rng, 0);
    for _ in 0..2 {
        let extra = gen_tree(&mut rng, 0);
        for (p, v) in extra {
            tree_insert(&mut t, p, v);
        }
    }
    let untracked = gen_untracked(&mut rng, &t);
    let dirty_case = rng.chance(1, 3);

    let mut ws = Ws::new();
    for e in &untracked {
        apply_edit(&ws.root, e);
    }
    let disk_u = list_disk(&ws.root);
    let store = ws.store();
    let tm = write_tree(&store, &t);
    let r0 = outcome(ws.check_out(&tm));
    assert!(matches!(r0, Outcome::Ok(_)), "initial checkout: {r0:?}");

    let n_steps = 2 + rng.below(3) as usize;
    let mut steps = vec![];
    let mut panicked = false;
    let mut clean = true;
    let mut any_skip = false;
    let mut moved = false;
    for _ in 0..n_steps {
        let old = ws.sparse();
        let new = gen_patterns(&mut rng, &t);
        let Some(cur) = read_tree(&ws.wc_tree()) else { break };
        if dirty_case && rng.chance(2, 3) {
            // edits at tree paths that are outside the current patterns (so not on disk)
            let outside: Vec<&P> = cur.keys().filter(|p| !matches_sparse(&old, p)).collect();
            if !outside.is_empty() {
                let k = 1 + rng.below(2);
                for _ in 0..k {
                    let p = (*rng.pick(&outside)).clone();
                    let p = if rng.chance(1, 3) && p.len() > 1 { p[..p.len() - 1].to_vec() } else { p };
                    let depth = p.len();
                    let e = match rng.below(4) {
                        0 => Edit::MkDir(p),
                        1 => Edit::Symlink(p, outside_rel(depth)),
                        _ => Edit::WriteFile(p, "o".to_string(), rng.chance(1, 4)),
                    };
                    apply_edit(&ws.root, &e);
                    clean = false;
                }
            }
        }
        let disk0 = list_disk(&ws.root);
        let states0 = ws.file_states();
        let tree_before = ws.wc_tree();
        fs_trace_start();
        let res = outcome(ws.set_sparse(&new));
        let calls = fs_trace_stop(&ws.root);
        panicked |= res == Outcome::Panic;
        any_skip |= matches!(&res, Outcome::Ok(s) if s.skipped_files > 0);
        moved |= matches!(&res, Outcome::Ok(s) if s.added_files + s.removed_files > 0);
        let disk1 = list_disk(&ws.root);
        let states1 = ws.file_states();
        let tree_same = ws.wc_tree().tree_ids_and_labels() == tree_before.tree_ids_and_labels();
        let snap = ws.snapshot_tracked_only().as_ref().and_then(read_tree);
        steps.push(format!(
            "(C27Chk.mk_sstep {} {} {} {} {} {} {} {} {} {} {} {})",
            coq_tree(&cur),
            coq_paths(&old),
            coq_paths(&new),
            coq_disk(&disk0),
            coq_states(&states0),
            coq::b(clean),
            coq_outcome(&res),
            coq_calls(&calls),
            coq_disk(&disk1),
            coq_states(&states1),
            coq::b(tree_same),
            coq::opt(snap.as_ref(), coq_tree)
        ));
        if !matches!(res, Outcome::Ok(_)) {
            break;
        }
    }
    let term = coq::app(
        "C27Chk.mk_case",
        &[coq_disk(&disk_u), coq::list(steps.iter(), |s| s.clone()), "[]".to_string()],
    );
    let shape = format!(
        "steps={}{}{}{}",
        steps.len(),
        if clean { " clean" } else { " edited" },
        if any_skip { " skipped" } else { "" },
        if untracked.is_empty() { "" } else { " untracked" },
    );
    CaseOut { term, nontrivial: moved, shape, panicked }
}

/// Replay of the known finding "sparse-removal-skipped-assert" on the real code
/// (`C27_PROBE=1 target/debug/c27`): prints what happens.
fn probe() {
    let scratch = std::env::temp_dir();
    let _ = scratch;
    let mut ws = Ws::new();
    let mut t = Tree::new();
    t.insert(vec!["x".into(), "f".into()], TVal::File("1".into(), false));
    t.insert(vec!["y".into()], TVal::File("2".into(), false));
    let tm = write_tree(&ws.store(), &t);
    println!("check_out: {:?}", outcome(ws.check_out(&tm)));
    println!("set_sparse [x]: {:?}", outcome(ws.set_sparse(&[vec!["x".to_string()]])));
    std::fs::remove_dir_all(ws.root.join("x")).unwrap();
    std::fs::write(ws.root.join("x"), b"o").unwrap();
    std::panic::set_hook(Box::new(|info| println!("panic: {info}")));
    println!("set_sparse [y]: {:?}", outcome(ws.set_sparse(&[vec!["y".to_string()]])));
    println!("disk: {:?}", list_disk(&ws.root).keys().collect::<Vec<_>>());
    println!("sparse recorded: {:?}", ws.sparse());
    println!("snapshot: {:?}", ws.snapshot_tracked_only().as_ref().and_then(read_tree));
}

fn main() {
    if std::env::var("C27_PROBE").is_ok() {
        probe();
        return;
    }
    jjv::run("C27", "C27", |ctx| {
        // TestEnvironment creates its directories under TMPDIR: keep them in our scratch
        unsafe { std::env::set_var("TMPDIR", &ctx.scratch) };
        install_fs_trace();
        let outs = par_cases(ctx, run_case);
        for (i, o) in outs {
            if o.panicked {
                ctx.panicked();
            }
            ctx.emit(i, o.term, o.nontrivial, &o.shape);
        }
    });
}
