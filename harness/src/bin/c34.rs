//! C34: jj_lib::git::import_refs / export_refs on a real Git-backed repository, driven by
//! random interleavings of jj-side bookmark edits (MutableRepo::set_local_bookmark_target,
//! rarely set_remote_bookmark(@git) / set_git_ref_target to reach the out-of-sync views that
//! `op restore` / `bookmark forget` produce), Git-side branch edits (gix reference
//! create/move/delete straight in the backing repository) and import/export at random points.
//! Every history ends with import; export; import. The states (local bookmarks, @git
//! bookmarks, View::git_refs, the real refs/heads/*) are observed around every sync point.
use std::collections::HashMap;
use std::sync::Arc;

use jj_lib::backend::CommitId;
use jj_lib::git;
use jj_lib::git::FailedRefExportReason;
use jj_lib::git::GitImportOptions;
use jj_lib::git_backend::GitBackend;
use jj_lib::merge::Merge;
use jj_lib::object_id::ObjectId as _;
use jj_lib::op_store::RefTarget;
use jj_lib::op_store::RemoteRef;
use jj_lib::op_store::RemoteRefState;
use jj_lib::ref_name::GitRefName;
use jj_lib::ref_name::RefName;
use jj_lib::ref_name::RemoteName;
use jj_lib::ref_name::RemoteRefSymbol;
use jj_lib::repo::ReadonlyRepo;
use jj_lib::repo::Repo as _;
use jj_lib::view::View;
use jjv::Rng;
use jjv::coq;
use pollster::FutureExt as _;
use testutils::CommitBuilderExt as _;
use testutils::TestRepo;
use testutils::TestRepoBackend;

const ROOT: u64 = 1;

struct World {
    repo: Arc<ReadonlyRepo>,
    git: gix::Repository,
    ids: Vec<Option<CommitId>>, // by number; 0 unused, 1 = root
    num: HashMap<CommitId, u64>,
    flags_ok: bool,
    notes: Vec<String>,
}

#[derive(Clone, Default, PartialEq, Eq)]
struct Snap {
    local: Vec<(u64, Vec<u64>)>,
    rgit: Vec<(u64, Vec<u64>)>,
    grefs: Vec<(u64, Vec<u64>)>,
    git: Vec<(u64, u64)>,
}

fn bname(n: u64) -> String {
    format!("b{n}")
}
fn name_num(s: &str) -> Option<u64> {
    s.strip_prefix('b')?.parse().ok()
}

impl World {
    fn bad(&mut self, why: impl Into<String>) {
        self.flags_ok = false;
        let why = why.into();
        if std::env::var_os("C34_DEBUG").is_some() {
            eprintln!("bad: {why}");
        }
        if self.notes.len() < 4 {
            self.notes.push(why);
        }
    }
    fn number(&mut self, id: &CommitId) -> u64 {
        match self.num.get(id) {
            Some(k) => *k,
            None => {
                self.bad(format!("unnumbered commit {}", id.hex()));
                9999
            }
        }
    }
    fn target_vec(&mut self, t: &RefTarget) -> Vec<u64> {
        let terms: Vec<Option<CommitId>> = t.as_merge().iter().cloned().collect();
        terms.iter().map(|o| o.as_ref().map_or(0, |id| self.number(id))).collect()
    }
    fn to_target(&self, v: &[u64]) -> RefTarget {
        let terms: Vec<Option<CommitId>> =
            v.iter().map(|k| if *k == 0 { None } else { self.ids[*k as usize].clone() }).collect();
        RefTarget::from_merge(Merge::from_vec(terms))
    }
    fn oid(&self, k: u64) -> gix::ObjectId {
        gix::ObjectId::from_bytes_or_panic(self.ids[k as usize].as_ref().unwrap().as_bytes())
    }
    fn snapshot(&mut self, view: &View) -> Snap {
        let mut s = Snap::default();
        let locals: Vec<(String, RefTarget)> =
            view.local_bookmarks().map(|(n, t)| (n.as_str().to_string(), t.clone())).collect();
        for (n, t) in locals {
            match name_num(&n) {
                Some(k) => {
                    let v = self.target_vec(&t);
                    s.local.push((k, v));
                }
                None => self.bad(format!("stray local bookmark {n}")),
            }
        }
        let remotes: Vec<(String, String, RemoteRef)> = view
            .all_remote_bookmarks()
            .map(|(sym, r)| (sym.name.as_str().to_string(), sym.remote.as_str().to_string(), r.clone()))
            .collect();
        for (n, remote, r) in remotes {
            if remote != "git" {
                self.bad(format!("stray remote {remote}"));
                continue;
            }
            if r.state != RemoteRefState::Tracked {
                self.bad(format!("untracked @git bookmark {n}"));
            }
            match name_num(&n) {
                Some(k) => {
                    // an absent tracked entry is the same as no entry for every reader
                    if r.target.is_present() {
                        let v = self.target_vec(&r.target);
                        s.rgit.push((k, v));
                    }
                }
                None => self.bad(format!("stray @git bookmark {n}")),
            }
        }
        if view.local_tags().next().is_some() || view.all_remote_tags().next().is_some() {
            self.bad("stray tag");
        }
        let grefs: Vec<(String, RefTarget)> =
            view.git_refs().iter().map(|(n, t)| (n.as_str().to_string(), t.clone())).collect();
        for (n, t) in grefs {
            match n.strip_prefix("refs/heads/").and_then(name_num) {
                Some(k) => {
                    let v = self.target_vec(&t);
                    s.grefs.push((k, v));
                }
                None => self.bad(format!("stray git_ref {n}")),
            }
        }
        // the real refs/heads/* of the backing repository, re-read from disk
        let git = self.git.clone();
        let platform = git.references().unwrap();
        let mut found = vec![];
        for r in platform.local_branches().unwrap() {
            let r = r.unwrap();
            let full = r.name().as_bstr().to_string();
            let id = r.target().try_id().map(|i| i.to_owned());
            found.push((full, id));
        }
        for (full, id) in found {
            match (full.strip_prefix("refs/heads/").and_then(name_num), id) {
                (Some(k), Some(oid)) => {
                    let c = self.number(&CommitId::from_bytes(oid.as_bytes()));
                    s.git.push((k, c));
                }
                _ => self.bad(format!("stray git branch {full}")),
            }
        }
        s.local.sort();
        s.rgit.sort();
        s.grefs.sort();
        s.git.sort();
        s
    }
}

fn rmap_term(m: &[(u64, Vec<u64>)]) -> String {
    coq::list(m.iter(), |(k, t)| coq::pair(coq::n(*k), coq::list(t.iter(), |c| coq::n(*c))))
}
fn snap_term(s: &Snap) -> String {
    coq::app(
        "mk_snap",
        &[
            rmap_term(&s.local),
            rmap_term(&s.rgit),
            rmap_term(&s.grefs),
            coq::list(s.git.iter(), |(k, c)| coq::pair(coq::n(*k), coq::n(*c))),
        ],
    )
}
fn tgt_term(t: &[u64]) -> String {
    coq::list(t.iter(), |c| coq::n(*c))
}

fn reason_code(r: &FailedRefExportReason) -> u64 {
    match r {
        FailedRefExportReason::ConflictedOldState => 1,
        FailedRefExportReason::OnRootCommit => 2,
        FailedRefExportReason::DeletedInJjModifiedInGit => 3,
        FailedRefExportReason::AddedInJjAddedInGit => 4,
        FailedRefExportReason::ModifiedInJjDeletedInGit => 5,
        FailedRefExportReason::FailedToSet(_) => 6,
        FailedRefExportReason::InvalidGitName => 7,
        FailedRefExportReason::FailedToDelete(_) => 8,
    }
}

fn get<'a>(m: &'a [(u64, Vec<u64>)], k: u64) -> Vec<u64> {
    m.iter().find(|(n, _)| *n == k).map_or(vec![0], |(_, t)| t.clone())
}
fn gget(m: &[(u64, u64)], k: u64) -> u64 {
    m.iter().find(|(n, _)| *n == k).map_or(0, |(_, c)| *c)
}

#[derive(Default)]
struct Features {
    conflict_created: bool,
    ff_resolved: bool,
    git_to_jj: bool,
    jj_to_git: bool,
    fail: [bool; 9],
    conflicted_kept: bool,
    final_failed: bool,
    git_only_commit_imported: bool,
}

fn main() {
    jjv::run("C34", "C34", |ctx| {
        // keep every temporary repository under the scratch directory
        unsafe { std::env::set_var("TMPDIR", &ctx.scratch) };
        for i in ctx.indices() {
            let mut rng = ctx.rng(i);
            let tier = ctx.tier.clone();
            let res = std::panic::catch_unwind(std::panic::AssertUnwindSafe(|| one_case(&mut rng, &tier)));
            let (term, nontrivial, shape, feats, notes) = match res {
                Ok(r) => r,
                Err(e) => {
                    let msg = e
                        .downcast_ref::<String>()
                        .cloned()
                        .or_else(|| e.downcast_ref::<&str>().map(|s| s.to_string()))
                        .unwrap_or_default();
                    ctx.panicked();
                    (
                        "(mk_case [] [] [] false)".to_string(),
                        false,
                        "harness-panic".to_string(),
                        vec![],
                        vec![format!("panic: {msg}")],
                    )
                }
            };
            for f in feats {
                ctx.count(&format!("feat:{f}"));
            }
            for n in notes {
                ctx.note(format!("case {i}: {n}"));
            }
            ctx.emit(i, term, nontrivial, &shape);
        }
    });
}

fn one_case(rng: &mut Rng, _tier: &str) -> (String, bool, String, Vec<&'static str>, Vec<String>) {
    let test_repo = TestRepo::init_with_backend(TestRepoBackend::Git);
    let repo = test_repo.repo.clone();
    let backend: &GitBackend = repo.store().backend_impl().unwrap();
    let git = backend.git_repo();
    let root_id = repo.store().root_commit_id().clone();
    let mut w = World {
        repo: repo.clone(),
        git,
        ids: vec![None, Some(root_id.clone())],
        num: HashMap::new(),
        flags_ok: true,
        notes: vec![],
    };
    w.num.insert(root_id.clone(), ROOT);

    let n_names = rng.range(1, 4);
    let names: Vec<u64> = (1..=n_names).collect();
    let n_commits = rng.range(2, 7);
    let abandon = rng.chance(1, 2);
    let options = GitImportOptions {
        abandon_unreachable_commits: abandon,
        record_synthetic_predecessors: rng.chance(1, 2),
        remote_auto_track_bookmarks: HashMap::new(),
    };

    // ---- commit graph: numbers 2.., parents have smaller numbers; some commits exist
    // only in Git until an import sees them
    let mut graph: Vec<(u64, Vec<u64>)> = vec![];
    let mut jj_made: Vec<u64> = vec![];
    let mut git_only: Vec<u64> = vec![];
    {
        let mut tx = w.repo.start_transaction();
        let empty_tree = w.git.empty_tree().id().detach();
        for k in 2..2 + n_commits {
            let by_git = rng.chance(1, 4);
            let pool: Vec<u64> = if by_git { (2..k).collect() } else { jj_made.clone() };
            let mut parents: Vec<u64> = vec![];
            if !pool.is_empty() && !rng.chance(1, 4) {
                // mostly extend the newest commit so that fast-forwards happen
                let p = if rng.chance(1, 2) { *pool.last().unwrap() } else { *rng.pick(&pool) };
                parents.push(p);
                // merge commits only without abandonment: rebasing a merge whose abandoned
                // parent sits on the root commit is refused by the Git backend (not C34's topic)
                if !abandon && pool.len() >= 2 && rng.chance(1, 6) {
                    let q = *rng.pick(&pool);
                    if q != p {
                        parents.push(q);
                    }
                }
            }
            let id = if by_git {
                let ps: Vec<gix::ObjectId> = parents.iter().map(|p| w.oid(*p)).collect();
                let oid = testutils::git::write_commit(
                    &w.git,
                    &format!("refs/verif/c{k}"),
                    empty_tree,
                    &format!("git commit {k}"),
                    &ps,
                );
                git_only.push(k);
                CommitId::from_bytes(oid.as_bytes())
            } else {
                let ps: Vec<CommitId> = if parents.is_empty() {
                    vec![root_id.clone()]
                } else {
                    parents.iter().map(|p| w.ids[*p as usize].clone().unwrap()).collect()
                };
                let c = tx
                    .repo_mut()
                    .new_commit(ps, w.repo.store().empty_merged_tree())
                    .set_description(format!("jj commit {k}"))
                    .write_unwrap();
                jj_made.push(k);
                c.id().clone()
            };
            w.ids.push(Some(id.clone()));
            w.num.insert(id, k);
            graph.push((k, if parents.is_empty() { vec![ROOT] } else { parents }));
        }
        w.repo = tx.commit("setup").block_on().unwrap();
    }
    // A quarter of the cases commit (and reload) after every step like separate jj commands;
    // the others run the whole history inside one transaction like lib/tests/test_git.rs.
    let commit_each = rng.chance(1, 4);
    let mut tx = w.repo.start_transaction();
    macro_rules! step_done {
        ($desc:expr) => {
            if commit_each {
                w.repo = tx.commit($desc).block_on().unwrap();
                tx = w.repo.start_transaction();
            }
        };
    }

    let mut steps: Vec<String> = vec![];
    let mut f = Features::default();
    let mut sync_kinds: Vec<u8> = vec![];
    let len = rng.range(2, 12);
    // plan items: (op, forced name, forced target / commit); op codes as below
    type Item = (u8, Option<u64>, Option<Vec<u64>>);
    let mut plan: Vec<Item> = vec![];
    let mut script = "none";
    // edge pool: scripted races between the two sides on one name, then the random tail
    if jj_made.len() >= 2 && rng.chance(3, 10) {
        let n = *rng.pick(&names);
        let a = jj_made[0];
        let b = jj_made[1];
        let c = *rng.pick(&(2..2 + n_commits).collect::<Vec<u64>>());
        let jj = |t: Vec<u64>| -> Item { (0, Some(n), Some(t)) };
        let gitset = |c: u64| -> Item { (1, Some(n), Some(vec![c])) };
        let imp: Item = (2, None, None);
        let exp: Item = (3, None, None);
        let k = rng.below(10);
        let items: Vec<Item> = match k {
            // moved in jj, moved / deleted in Git after the last export
            0 => { script = "move-vs-move"; vec![jj(vec![a]), exp.clone(), gitset(c), jj(vec![b]), exp.clone()] }
            1 => { script = "move-vs-delete"; vec![jj(vec![a]), exp.clone(), gitset(0), jj(vec![b]), exp.clone()] }
            2 => { script = "delete-vs-move"; vec![jj(vec![a]), exp.clone(), gitset(b), jj(vec![0]), exp.clone()] }
            3 => { script = "create-vs-create"; vec![gitset(c), jj(vec![a]), exp.clone()] }
            // conflicted git_refs entry (as after merging concurrent operations)
            4 => { script = "conflicted-git-ref"; vec![(5, Some(n), Some(vec![a, 0, b])), jj(vec![a]), exp.clone()] }
            5 => {
                script = "conflicted-git-ref-and-bookmark";
                vec![(5, Some(n), Some(vec![a, 0, b])), jj(vec![b, 0, a]), exp.clone()]
            }
            // both sides move between two imports, then once more while conflicted
            6 => {
                script = "conflict-then-more-edits";
                vec![jj(vec![a]), exp.clone(), gitset(c), jj(vec![b]), imp.clone(), gitset(a), imp.clone(), jj(vec![b]), exp.clone()]
            }
            7 => { script = "delete-vs-delete"; vec![jj(vec![a]), exp.clone(), gitset(0), jj(vec![0]), exp.clone()] }
            // the same move on both sides, seen by an import (no conflict) or by an export
            8 => { script = "same-change-import"; vec![jj(vec![a]), exp.clone(), gitset(b), jj(vec![b]), imp.clone(), exp.clone()] }
            _ => { script = "same-change-export"; vec![jj(vec![a]), exp.clone(), gitset(b), jj(vec![b]), exp.clone(), imp.clone()] }
        };
        plan.extend(items);
    }
    for _ in 0..len {
        let r = rng.below(100);
        let op = if r < 32 {
            0 // jj set
        } else if r < 64 {
            1 // git set
        } else if r < 80 {
            2 // import
        } else if r < 94 {
            3 // export
        } else if r < 97 {
            4 // set @git
        } else {
            5 // set git_refs
        };
        plan.push((op, None, None));
    }
    plan.extend([(2, None, None), (3, None, None), (2, None, None)]);
    let all_commits: Vec<u64> = (2..2 + n_commits).collect();

    for (op, forced_name, forced_val) in plan {
        match op {
            0 | 4 | 5 => {
                let n = forced_name.unwrap_or_else(|| *rng.pick(&names));
                let known: Vec<u64> = all_commits
                    .iter()
                    .copied()
                    .filter(|k| {
                        tx.repo().index().has_id(w.ids[*k as usize].as_ref().unwrap()).block_on().unwrap_or(false)
                    })
                    .collect();
                let pick_commit = |rng: &mut Rng| -> u64 {
                    if known.is_empty() { ROOT } else { *rng.pick(&known) }
                };
                let r = rng.below(100);
                let t: Vec<u64> = if let Some(v) = forced_val {
                    v
                } else if r < 22 {
                    vec![0]
                } else if r < 27 && op == 0 {
                    vec![ROOT]
                } else if r < 33 {
                    // an explicitly conflicted target (as left behind by merged operations)
                    let a = pick_commit(rng);
                    let b = if rng.chance(1, 3) { 0 } else { pick_commit(rng) };
                    let c = if rng.chance(1, 4) { 0 } else { pick_commit(rng) };
                    if a != b && b != c && a != c && a != 0 { vec![a, b, c] } else { vec![a] }
                } else {
                    vec![pick_commit(rng)]
                };
                let target = w.to_target(&t);
                let name = bname(n);
                match op {
                    0 => {
                        tx.repo_mut().set_local_bookmark_target(RefName::new(&name), target);
                        steps.push(coq::app("JjSet", &[coq::n(n), tgt_term(&t)]));
                    }
                    4 => {
                        let sym = RemoteRefSymbol { name: RefName::new(&name), remote: RemoteName::new("git") };
                        tx.repo_mut()
                            .set_remote_bookmark(sym, RemoteRef { target, state: RemoteRefState::Tracked });
                        steps.push(coq::app("JjSetRgit", &[coq::n(n), tgt_term(&t)]));
                    }
                    _ => {
                        let full = format!("refs/heads/{name}");
                        tx.repo_mut().set_git_ref_target(GitRefName::new(&full), target);
                        steps.push(coq::app("JjSetGrefs", &[coq::n(n), tgt_term(&t)]));
                    }
                }
                step_done!("jj edit");
            }
            1 => {
                let n = forced_name.unwrap_or_else(|| *rng.pick(&names));
                let full = format!("refs/heads/{}", bname(n));
                let c = if let Some(v) = forced_val {
                    v[0]
                } else if rng.chance(1, 4) {
                    0
                } else {
                    *rng.pick(&all_commits)
                };
                if c == 0 {
                    if let Ok(r) = w.git.find_reference(&full) {
                        r.delete().unwrap();
                    }
                } else {
                    w.git
                        .reference(full.as_str(), w.oid(c), gix::refs::transaction::PreviousValue::Any, "verif")
                        .unwrap();
                }
                steps.push(coq::app("GitSet", &[coq::n(n), coq::n(c)]));
            }
            2 => {
                let view = tx.repo().view().clone();
                let pre = w.snapshot(&view);
                let res = jjv::catch(|| git::import_refs(tx.repo_mut(), &options).block_on());
                match res {
                    Some(Ok(stats)) => {
                        if !stats.failed_ref_names.is_empty() {
                            w.bad("import: failed_ref_names");
                        }
                    }
                    Some(Err(e)) => w.bad(format!("import error: {e}")),
                    None => w.bad("import panicked"),
                }
                if let Err(e) = std::panic::catch_unwind(std::panic::AssertUnwindSafe(|| {
                    tx.repo_mut().rebase_descendants().block_on().unwrap()
                })) {
                    let msg = e
                        .downcast_ref::<String>()
                        .cloned()
                        .or_else(|| e.downcast_ref::<&str>().map(|s| s.to_string()))
                        .unwrap_or_default();
                    w.bad(format!("rebase_descendants panicked: {msg}"));
                }
                step_done!("import");
                let view = tx.repo().view().clone();
                let post = w.snapshot(&view);
                for n in &names {
                    let (l, r, c) = (get(&pre.local, *n), get(&pre.rgit, *n), gget(&pre.git, *n));
                    let l2 = get(&post.local, *n);
                    if l2.len() > 1 && l.len() == 1 {
                        f.conflict_created = true;
                    }
                    if l.len() == 1 && r.len() == 1 && l[0] != r[0] && r[0] != c && l[0] != c && l2.len() == 1 {
                        f.ff_resolved = true;
                    }
                    if l == r && vec![c] != r {
                        f.git_to_jj = true;
                        if git_only.contains(&c) {
                            f.git_only_commit_imported = true;
                        }
                    }
                }
                sync_kinds.push(2);
                steps.push(coq::app("Import", &[snap_term(&pre), snap_term(&post)]));
            }
            _ => {
                let view = tx.repo().view().clone();
                let pre = w.snapshot(&view);
                let res = jjv::catch(|| git::export_refs(tx.repo_mut()));
                let mut failed: Vec<(u64, u64)> = vec![];
                match res {
                    Some(Ok(stats)) => {
                        if !stats.failed_tags.is_empty() {
                            w.bad("export: failed tags");
                        }
                        for (sym, reason) in &stats.failed_bookmarks {
                            if sym.remote.as_str() != "git" {
                                w.bad("export: failure on another remote");
                            }
                            let k = name_num(sym.name.as_str()).unwrap_or(9999);
                            let code = reason_code(reason);
                            f.fail[code as usize] = true;
                            failed.push((k, code));
                        }
                    }
                    Some(Err(e)) => w.bad(format!("export error: {e}")),
                    None => w.bad("export panicked"),
                }
                step_done!("export");
                let view = tx.repo().view().clone();
                let post = w.snapshot(&view);
                for n in &names {
                    if gget(&pre.git, *n) != gget(&post.git, *n) {
                        f.jj_to_git = true;
                    }
                    if get(&pre.local, *n).len() > 1 {
                        f.conflicted_kept = true;
                    }
                }
                sync_kinds.push(3);
                steps.push(coq::app(
                    "Export",
                    &[
                        snap_term(&pre),
                        snap_term(&post),
                        coq::list(failed.iter(), |(k, c)| coq::pair(coq::n(*k), coq::n(*c))),
                    ],
                ));
                if !failed.is_empty() && failed.iter().all(|(_, c)| *c == 2) && sync_kinds.ends_with(&[2, 3]) {
                    f.final_failed = true;
                }
            }
        }
    }

    let term = coq::app(
        "mk_case",
        &[
            coq::list(names.iter(), |n| coq::n(*n)),
            coq::list(graph.iter(), |(k, ps)| coq::pair(coq::n(*k), coq::list(ps.iter(), |p| coq::n(*p)))),
            coq::list(steps.iter(), |s| s.clone()),
            coq::b(w.flags_ok),
        ],
    );
    let mut feats: Vec<&'static str> = vec![];
    if f.conflict_created {
        feats.push("conflict-created-by-import");
    }
    if f.ff_resolved {
        feats.push("both-changed-resolved-by-ancestry");
    }
    if f.git_to_jj {
        feats.push("git-change-propagated");
    }
    if f.jj_to_git {
        feats.push("jj-change-exported");
    }
    if f.conflicted_kept {
        feats.push("export-with-conflicted-bookmark");
    }
    if f.git_only_commit_imported {
        feats.push("git-only-commit-imported");
    }
    if f.final_failed {
        feats.push("root-commit-failure-right-after-import");
    }
    const FAILS: [&str; 9] = [
        "",
        "fail:ConflictedOldState",
        "fail:OnRootCommit",
        "fail:DeletedInJjModifiedInGit",
        "fail:AddedInJjAddedInGit",
        "fail:ModifiedInJjDeletedInGit",
        "fail:FailedToSet",
        "fail:InvalidGitName",
        "fail:FailedToDelete",
    ];
    for (k, b) in f.fail.iter().enumerate() {
        if *b {
            feats.push(FAILS[k]);
        }
    }
    if !w.flags_ok {
        feats.push("flags-not-ok");
    }
    let script_feat: &'static str = match script {
        "move-vs-move" => "script:move-vs-move",
        "move-vs-delete" => "script:move-vs-delete",
        "delete-vs-move" => "script:delete-vs-move",
        "create-vs-create" => "script:create-vs-create",
        "conflicted-git-ref" => "script:conflicted-git-ref",
        "conflicted-git-ref-and-bookmark" => "script:conflicted-git-ref-and-bookmark",
        "conflict-then-more-edits" => "script:conflict-then-more-edits",
        "delete-vs-delete" => "script:delete-vs-delete",
        "same-change-import" => "script:same-change-import",
        "same-change-export" => "script:same-change-export",
        _ => "script:none",
    };
    feats.push(script_feat);
    let any_fail = f.fail.iter().any(|b| *b);
    let nontrivial = f.git_to_jj || f.jj_to_git || f.conflict_created || any_fail;
    let shape = format!(
        "conflict={} ff={} fail={} abandon={} reload={}",
        f.conflict_created, f.ff_resolved, any_fail, abandon, commit_each
    );
    drop(tx);
    let notes = w.notes.clone();
    (term, nontrivial, shape, feats, notes)
}
