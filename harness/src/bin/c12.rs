//! C12: jj_lib::refs::merge_ref_targets against the index of a real repo.
//!
//! Cases come in groups of `GROUP` consecutive indices sharing one generated DAG of 2..8
//! commits (chains, forks, diamonds, random merges) written into a fresh
//! `testutils::TestRepo`; even groups query the committed (readonly) index, odd groups the
//! uncommitted `MutableRepo` index. A case is a function of (seed, index) only: the group's
//! DAG is derived from `ctx.rng(1_000_000 + index / GROUP)`, the targets from `ctx.rng(index)`.
//! Commits are numbered from 1 in creation order; 0 = absent.
use jj_lib::backend::CommitId;
use jj_lib::commit::Commit;
use jj_lib::merge::Merge;
use jj_lib::op_store::RefTarget;
use jj_lib::refs::merge_ref_targets;
use jj_lib::repo::Repo as _;
use jjv::Rng;
use jjv::coq;
use pollster::FutureExt as _;
use testutils::TestRepo;
use testutils::write_random_commit_with_parents;

const GROUP: usize = 20;

/// parents[k] = earlier node numbers (0-based); empty = child of the root commit.
fn gen_dag(rng: &mut Rng, max_n: u64) -> (&'static str, Vec<Vec<usize>>) {
    let n = rng.range(2, max_n) as usize;
    match rng.below(6) {
        0 => ("chain", (0..n).map(|k| if k == 0 { vec![] } else { vec![k - 1] }).collect()),
        1 => {
            // fork: a stem, then branches off random stem nodes
            let stem = 1 + rng.usize(n.min(3));
            ("fork", (0..n).map(|k| if k == 0 { vec![] } else if k < stem { vec![k - 1] } else { vec![rng.usize(k.min(stem + 1))] }).collect())
        }
        2 => {
            // diamonds: every third node merges the two before it
            ("diamond", (0..n).map(|k| match k { 0 => vec![], 1 => vec![0], _ if k % 3 == 0 => vec![k - 1, k - 2], _ => vec![k - 1 - (k % 3 == 2) as usize] }).collect())
        }
        3 => ("forest", (0..n).map(|k| if k == 0 || rng.chance(1, 3) { vec![] } else { vec![rng.usize(k)] }).collect()),
        _ => {
            let mut ps: Vec<Vec<usize>> = vec![];
            for k in 0..n {
                let mut p = vec![];
                if k > 0 {
                    p.push(rng.usize(k));
                    if k > 1 && rng.chance(1, 3) {
                        let q = rng.usize(k);
                        if !p.contains(&q) {
                            p.push(q);
                        }
                    }
                }
                ps.push(p);
            }
            ("random", ps)
        }
    }
}

struct Group {
    shape: &'static str,
    parents: Vec<Vec<usize>>,
    anc: Vec<Vec<bool>>, // anc[a][d]: a is an ancestor of d (reflexive); generator use only
    ids: Vec<CommitId>,
    _test_repo: TestRepo,
    repo: std::sync::Arc<jj_lib::repo::ReadonlyRepo>,
    tx: Option<jj_lib::transaction::Transaction>,
}

fn build_group(rng: &mut Rng, committed: bool, max_n: u64) -> Group {
    let (shape, parents) = gen_dag(rng, max_n);
    let n = parents.len();
    let mut anc = vec![vec![false; n]; n];
    for d in 0..n {
        anc[d][d] = true;
        for &p in &parents[d] {
            for a in 0..n {
                if anc[a][p] {
                    anc[a][d] = true;
                }
            }
        }
    }
    let test_repo = TestRepo::init();
    let mut tx = test_repo.repo.start_transaction();
    let mut commits: Vec<Commit> = vec![];
    for k in 0..n {
        let ps: Vec<&Commit> = parents[k].iter().map(|&p| &commits[p]).collect();
        let c = write_random_commit_with_parents(tx.repo_mut(), &ps);
        commits.push(c);
    }
    let ids = commits.iter().map(|c| c.id().clone()).collect();
    let (repo, tx) = if committed {
        (tx.commit("c12 dag").block_on().unwrap(), None)
    } else {
        (test_repo.repo.clone(), Some(tx))
    };
    Group { shape, parents, anc, ids, _test_repo: test_repo, repo, tx }
}

type Terms = Vec<usize>; // 0 = absent, k = commit number k (node k-1)

fn rand_term(rng: &mut Rng, n: usize) -> usize {
    if rng.chance(1, 6) { 0 } else { 1 + rng.usize(n) }
}
fn rand_target(rng: &mut Rng, n: usize) -> Terms {
    match rng.below(8) {
        0 => vec![0],
        1..=4 => vec![1 + rng.usize(n)],
        5 | 6 => (0..3).map(|_| rand_term(rng, n)).collect(),
        _ => {
            let len = if rng.chance(1, 4) { 7 } else { 5 };
            (0..len).map(|_| rand_term(rng, n)).collect()
        }
    }
}

fn gen_targets(rng: &mut Rng, g: &Group) -> (&'static str, Terms, Terms, Terms) {
    let n = g.parents.len();
    let node = |rng: &mut Rng| rng.usize(n);
    // related(a): nodes that are strict descendants / unrelated
    let desc = |a: usize| (0..n).filter(|&d| d != a && g.anc[a][d]).collect::<Vec<_>>();
    match rng.below(12) {
        0 => {
            let (l, r) = (rand_target(rng, n), rand_target(rng, n));
            if rng.chance(1, 2) { ("unchanged-left", l.clone(), l, r) } else { ("unchanged-right", l, r.clone(), r) }
        }
        1 => {
            let (l, b) = (rand_target(rng, n), rand_target(rng, n));
            ("agree", l.clone(), b, l)
        }
        2 | 3 => {
            // fast-forward: b <= x <= y along one line, either side ahead
            let b = node(rng);
            let d1 = desc(b);
            if d1.is_empty() {
                return ("random", rand_target(rng, n), rand_target(rng, n), rand_target(rng, n));
            }
            let x = *rng.pick(&d1);
            let d2 = desc(x);
            let y = if d2.is_empty() || rng.chance(1, 4) { x } else { *rng.pick(&d2) };
            let base = if rng.chance(1, 4) { vec![0] } else { vec![b + 1] };
            if rng.chance(1, 2) { ("fast-forward", vec![x + 1], base, vec![y + 1]) } else { ("fast-forward", vec![y + 1], base, vec![x + 1]) }
        }
        4 => {
            // both sides moved from b, to unrelated or related commits
            let b = node(rng);
            let d = desc(b);
            if d.len() < 2 {
                return ("random", rand_target(rng, n), rand_target(rng, n), rand_target(rng, n));
            }
            ("both-moved", vec![*rng.pick(&d) + 1], vec![b + 1], vec![*rng.pick(&d) + 1])
        }
        5 => ("both-added", vec![node(rng) + 1], vec![0], vec![node(rng) + 1]),
        6 => {
            // one side moved backwards or sideways
            ("normal3", vec![node(rng) + 1], vec![node(rng) + 1], vec![node(rng) + 1])
        }
        7 => {
            // left = [A - C + B], base = [B], right = [A]: resolvable after simplify
            let (a, b, c) = (node(rng) + 1, node(rng) + 1, rand_term(rng, n));
            ("doc-example", vec![a, c, b], vec![b], vec![a])
        }
        8 => {
            // an earlier divergence [x - b + y] on the left, the right side moves further
            let b = node(rng);
            let d = desc(b);
            if d.is_empty() {
                return ("random", rand_target(rng, n), rand_target(rng, n), rand_target(rng, n));
            }
            let (x, y) = (*rng.pick(&d), *rng.pick(&d));
            let dy = desc(y);
            let z = if dy.is_empty() { y } else { *rng.pick(&dy) };
            let left = vec![x + 1, b + 1, y + 1];
            match rng.below(3) {
                0 => ("conflict-then-move", left, vec![y + 1], vec![z + 1]),
                1 => ("conflict-then-move", left, vec![x + 1], vec![z + 1]),
                _ => ("conflict-then-move", vec![z + 1], vec![y + 1], left),
            }
        }
        9 => {
            // conflicted on both sides / conflicted base
            let t = |rng: &mut Rng| (0..3).map(|_| rand_term(rng, n)).collect::<Vec<_>>();
            ("conflicted3", t(rng), if rng.chance(1, 2) { t(rng) } else { vec![rand_term(rng, n)] }, t(rng))
        }
        _ => ("random", rand_target(rng, n), rand_target(rng, n), rand_target(rng, n)),
    }
}

fn main() {
    jjv::run("C12", "C12", |ctx| {
        // TestRepo temp dirs live below the harness scratch dir, never /tmp.
        // SAFETY: single-threaded at this point.
        unsafe { std::env::set_var("TMPDIR", &ctx.scratch) };
        let mut cur: Option<(usize, Group)> = None;
        for i in ctx.indices() {
            let gi = i / GROUP;
            if cur.as_ref().map(|(k, _)| *k) != Some(gi) {
                drop(cur.take()); // drop the previous repo first
                let mut grng = ctx.rng(1_000_000 + gi);
                // thorough tier: DAGs of up to 12 commits
                let max_n = if ctx.tier == "thorough" { 12 } else { 8 };
                cur = Some((gi, build_group(&mut grng, gi % 2 == 0, max_n)));
            }
            let g = &cur.as_ref().unwrap().1;
            let mut rng = ctx.rng(i);
            let (pool, l, b, r) = gen_targets(&mut rng, g);
            let to_target = |t: &Terms| {
                RefTarget::from_merge(Merge::from_vec(
                    t.iter().map(|&k| if k == 0 { None } else { Some(g.ids[k - 1].clone()) }).collect::<Vec<_>>(),
                ))
            };
            let (lt, bt, rt) = (to_target(&l), to_target(&b), to_target(&r));
            let out = jjv::catch(|| {
                let index = match &g.tx {
                    Some(tx) => tx.repo().index(),
                    None => g.repo.index(),
                };
                merge_ref_targets(index, &lt, &bt, &rt).block_on()
            });
            let (result, failed): (Vec<u64>, bool) = match out {
                Some(Ok(t)) => (
                    t.as_merge()
                        .iter()
                        .map(|x| match x {
                            None => 0,
                            Some(id) => g.ids.iter().position(|c| c == id).map(|p| p as u64 + 1).unwrap_or(9999),
                        })
                        .collect(),
                    false,
                ),
                _ => {
                    ctx.panicked();
                    (vec![], true)
                }
            };
            let nl = |v: &Terms| coq::list(v.iter(), |x| coq::n(*x as u64));
            let term = coq::app(
                "C12.mk_case",
                &[
                    coq::list(g.parents.iter(), |ps| coq::list(ps.iter(), |p| coq::n(*p as u64 + 1))),
                    nl(&l),
                    nl(&b),
                    nl(&r),
                    coq::list(result.iter(), |x| coq::n(*x)),
                    coq::b(failed),
                ],
            );
            // non-trivial: not decided by the whole-target rules (the flatten/simplify/ancestry
            // path ran)
            let nontrivial = l != r && l != b && r != b;
            let kind = if failed { "failed" } else if result.len() == 1 { "resolved" } else { "conflict" };
            let shape = format!("{pool} {kind}");
            ctx.count(&format!("dag={}", g.shape));
            ctx.count(if g.tx.is_some() { "index=mutable" } else { "index=readonly" });
            ctx.emit(i, term, nontrivial, &shape);
        }
    });
}
