//! C03: ContentDiff hunks (all tokenizers x comparators x refinement), the raw matchings of
//! collect_unchanged_words() and find_lcs() through the verif hooks; every diff is computed
//! twice in the same process (fresh RandomState each time).
use std::hash::Hasher;
use std::ops::Range;

use jj_lib::diff::CompareBytes;
use jj_lib::diff::CompareBytesExactly;
use jj_lib::diff::CompareBytesIgnoreAllWhitespace;
use jj_lib::diff::CompareBytesIgnoreWhitespaceAmount;
use jj_lib::diff::ContentDiff;
use jj_lib::diff::DiffHunkKind;
use jj_lib::diff::find_line_ranges;
use jj_lib::diff::find_nonword_ranges;
use jj_lib::diff::find_word_ranges;
use jj_lib::diff::verif_collect_unchanged_words;
use jj_lib::diff::verif_find_lcs;
use jjv::Rng;
use jjv::coq;

#[path = "../diffgen.rs"]
mod diffgen;
use diffgen::Pool;

#[derive(Clone, Copy, Debug, PartialEq, Eq)]
enum Cmp {
    Exact,
    WsAll,
    WsAmount,
}

impl CompareBytes for Cmp {
    fn eq(&self, left: &[u8], right: &[u8]) -> bool {
        match self {
            Cmp::Exact => CompareBytesExactly.eq(left, right),
            Cmp::WsAll => CompareBytesIgnoreAllWhitespace.eq(left, right),
            Cmp::WsAmount => CompareBytesIgnoreWhitespaceAmount.eq(left, right),
        }
    }
    fn hash<H: Hasher>(&self, text: &[u8], state: &mut H) {
        match self {
            Cmp::Exact => CompareBytesExactly.hash(text, state),
            Cmp::WsAll => CompareBytesIgnoreAllWhitespace.hash(text, state),
            Cmp::WsAmount => CompareBytesIgnoreWhitespaceAmount.hash(text, state),
        }
    }
}

impl Cmp {
    fn code(self) -> u64 {
        match self {
            Cmp::Exact => 0,
            Cmp::WsAll => 1,
            Cmp::WsAmount => 2,
        }
    }
}

#[derive(Clone, Copy, Debug, PartialEq, Eq)]
enum Tok {
    Line,
    Word,
    Nonword,
    None,
}

impl Tok {
    fn code(self) -> u64 {
        match self {
            Tok::Line => 0,
            Tok::Word => 1,
            Tok::Nonword => 2,
            Tok::None => 3,
        }
    }
    fn run(self, text: &[u8]) -> Vec<Range<usize>> {
        match self {
            Tok::Line => find_line_ranges(text),
            Tok::Word => find_word_ranges(text),
            Tok::Nonword => find_nonword_ranges(text),
            Tok::None => vec![],
        }
    }
}

type Hunks = Vec<(bool, Vec<(usize, usize)>)>;

fn run_diff(inputs: &[Vec<u8>], steps: &[(Tok, Cmp)]) -> Hunks {
    let (t0, c0) = steps[0];
    let mut diff = ContentDiff::for_tokenizer(inputs.iter().map(|v| v.as_slice()), |t| t0.run(t), c0);
    for &(t, c) in &steps[1..] {
        diff.refine_changed_regions(|x| t.run(x), c);
    }
    // hunks() and hunk_ranges() must describe the same slices
    let ranges: Hunks = diff
        .hunk_ranges()
        .map(|h| {
            (
                h.kind == DiffHunkKind::Matching,
                h.ranges.iter().map(|r| (r.start, r.end)).collect(),
            )
        })
        .collect();
    let texts: Vec<_> = diff.hunks().collect();
    assert_eq!(texts.len(), ranges.len());
    for (h, (kind, rs)) in texts.iter().zip(&ranges) {
        assert_eq!(h.kind == DiffHunkKind::Matching, *kind);
        assert_eq!(h.contents.len(), rs.len());
        for ((content, r), input) in h.contents.iter().zip(rs).zip(inputs) {
            assert_eq!(&content[..], &input[r.0..r.1]);
        }
    }
    ranges
}

fn matchings(inputs: &[Vec<u8>], t0: Tok, c0: Cmp) -> Vec<Vec<(usize, usize)>> {
    if inputs.len() < 2 {
        return vec![];
    }
    let any_empty = inputs.iter().any(|x| x.is_empty());
    let ranges = |x: &[u8]| if any_empty { vec![] } else { t0.run(x) };
    let base_ranges = ranges(&inputs[0]);
    inputs[1..]
        .iter()
        .map(|o| verif_collect_unchanged_words(&inputs[0], &base_ranges, o, &ranges(o), c0))
        .collect()
}

fn pairs(xs: &[(usize, usize)]) -> String {
    coq::list(xs.iter(), |p| coq::pair(coq::n(p.0 as u64), coq::n(p.1 as u64)))
}

fn gen_steps(rng: &mut Rng) -> (Vec<(Tok, Cmp)>, &'static str) {
    let cmp = *rng.pick(&[Cmp::Exact, Cmp::WsAll, Cmp::WsAmount]);
    match rng.below(16) {
        0..=2 => (vec![(Tok::Line, Cmp::Exact)], "by_line"),
        3..=4 => (vec![(Tok::Word, Cmp::Exact), (Tok::Nonword, Cmp::Exact)], "by_word"),
        5..=6 => (
            vec![(Tok::Line, Cmp::Exact), (Tok::Word, Cmp::Exact), (Tok::Nonword, Cmp::Exact)],
            "diff3",
        ),
        7 => (vec![(Tok::None, Cmp::Exact)], "unrefined"),
        8..=9 => (vec![(Tok::Line, cmp)], "line_ws"),
        10 => (vec![(*rng.pick(&[Tok::Word, Tok::Nonword]), cmp)], "tok_ws"),
        11..=12 => (vec![(Tok::Line, cmp), (Tok::Word, cmp)], "line_word_ws"),
        13 => (vec![(Tok::Line, cmp), (Tok::Word, cmp), (Tok::Nonword, cmp)], "diff3_ws"),
        _ => {
            let toks = [Tok::Line, Tok::Word, Tok::Nonword, Tok::None];
            let cmps = [Cmp::Exact, Cmp::WsAll, Cmp::WsAmount];
            let k = rng.range(1, 3);
            ((0..k).map(|_| (*rng.pick(&toks), *rng.pick(&cmps))).collect(), "mixed")
        }
    }
}

fn main() {
    jjv::run("C03", "C03", |ctx| {
        let thorough = ctx.tier == "thorough";
        for i in ctx.indices() {
            let mut rng = ctx.rng(i);
            if i % 150 == 7 && ctx.tier != "replay-small" {
                // large-anchor pool: more than 1000 / 1024 / 2048 uniquely shared lines, blocks of
                // nearly equal size swapped, so that the LCS over the anchors has near-ties
                let mut sizes = vec![1001usize, 1010, 1024, 1030, 1100, 1200];
                if thorough && rng.chance(1, 4) {
                    sizes = vec![2049, 2060, 2100, 2500];
                }
                let n = *rng.pick(&sizes);
                let alpha: Vec<u8> = (b'a'..=b'z').chain(b'A'..=b'Z').collect();
                let line = |id: usize| vec![alpha[id / 52 % 52], alpha[id % 52], b'\n'];
                let mut ids: Vec<usize> = (0..2704).collect();
                rng.shuffle(&mut ids);
                let base: Vec<usize> = ids[..n].to_vec();
                let mut fresh = n;
                let n_inputs = if rng.chance(1, 3) { 3 } else { 2 };
                let mut docs: Vec<Vec<usize>> = vec![base.clone()];
                for _ in 1..n_inputs {
                    let mut d = base.clone();
                    for _ in 0..rng.range(2, 4) {
                        let k = rng.range(20, 80) as usize;
                        let k2 = k + rng.usize(3);
                        let at = rng.usize(d.len() - k - k2);
                        let a: Vec<usize> = d[at..at + k].to_vec();
                        let b: Vec<usize> = d[at + k..at + k + k2].to_vec();
                        d.splice(at..at + k + k2, b.into_iter().chain(a));
                    }
                    for _ in 0..rng.range(0, 2) {
                        let at = rng.usize(d.len());
                        d.remove(at);
                    }
                    for _ in 0..rng.range(0, 2) {
                        let at = rng.usize(d.len() + 1);
                        d.insert(at, ids[fresh]);
                        fresh += 1;
                    }
                    docs.push(d);
                }
                let inputs: Vec<Vec<u8>> =
                    docs.iter().map(|d| d.iter().flat_map(|id| line(*id)).collect()).collect();
                let steps = if rng.chance(1, 2) {
                    vec![(Tok::Line, Cmp::Exact)]
                } else {
                    vec![(Tok::Line, Cmp::Exact), (Tok::Word, Cmp::Exact), (Tok::Nonword, Cmp::Exact)]
                };
                let runs: Vec<_> = (0..5).map(|_| jjv::catch(|| run_diff(&inputs, &steps))).collect();
                let ms = jjv::catch(|| matchings(&inputs, steps[0].0, steps[0].1));
                let panicked = runs[0].is_none() || ms.is_none();
                if panicked {
                    ctx.panicked();
                }
                let same = runs.iter().all(|r| *r == runs[0]);
                let hunks = runs[0].clone().unwrap_or_default();
                let ms = ms.unwrap_or_default();
                let term = coq::app(
                    "C03.DiffCase",
                    &[
                        coq::list(inputs.iter(), |x| coq::bytes(x)),
                        coq::list(steps.iter(), |(t, c)| coq::pair(coq::n(t.code()), coq::n(c.code()))),
                        coq::list(hunks.iter(), |(k, rs)| coq::pair(coq::b(*k), pairs(rs))),
                        coq::list(ms.iter(), |m| pairs(m)),
                        coq::b(same),
                        coq::b(panicked),
                    ],
                );
                let shape = format!("diff large-anchor {}", if n > 2048 { ">2048" } else if n > 1024 { ">1024" } else { ">1000" });
                ctx.emit(i, term, true, &shape);
                continue;
            }
            let kind = rng.below(10);
            if kind == 0 {
                // find_lcs on a permutation (as the algorithm produces) or on an arbitrary vector
                let cap = if rng.chance(1, 4) { 40 } else { 12 };
                let n = rng.usize(cap) + usize::from(rng.chance(9, 10));
                let mut v: Vec<usize> = (0..n).collect();
                let perm = rng.chance(3, 4);
                if perm {
                    match rng.below(3) {
                        0 => rng.shuffle(&mut v),
                        1 => {
                            // few local moves
                            for _ in 0..rng.range(0, 4) {
                                if n >= 2 {
                                    let a = rng.usize(n);
                                    let x = v.remove(a);
                                    let b = rng.usize(n);
                                    v.insert(b, x);
                                }
                            }
                        }
                        _ => v.reverse(),
                    }
                } else {
                    for x in v.iter_mut() {
                        *x = rng.usize(n.max(1));
                    }
                }
                let res = jjv::catch(|| verif_find_lcs(&v));
                if res.is_none() {
                    ctx.panicked();
                }
                let term = coq::app(
                    "C03.LcsCase",
                    &[
                        coq::list(v.iter(), |x| coq::n(*x as u64)),
                        pairs(&res.clone().unwrap_or_default()),
                        coq::b(res.is_none()),
                    ],
                );
                ctx.emit(i, term, n >= 3, if perm { "lcs perm" } else { "lcs arbitrary" });
                continue;
            }
            if kind <= 3 {
                // collect_unchanged_words on two sequences of one-byte tokens
                let alphabet = rng.range(1, 6);
                let big = rng.chance(1, 6);
                let n = if big { rng.range(90, 230) } else { rng.range(0, 40) } as usize;
                let left: Vec<u8> = (0..n).map(|_| b'a' + rng.below(alphabet) as u8).collect();
                let mut right = left.clone();
                match rng.below(6) {
                    0 => {}
                    1 => {
                        let m = rng.usize(n + 5);
                        right = (0..m).map(|_| b'a' + rng.below(alphabet + 1) as u8).collect();
                    }
                    _ => {
                        for _ in 0..rng.range(1, 8) {
                            match rng.below(4) {
                                0 if !right.is_empty() => {
                                    let at = rng.usize(right.len());
                                    let k = (1 + rng.geometric(8) as usize).min(right.len() - at);
                                    right.drain(at..at + k);
                                }
                                1 if !right.is_empty() => {
                                    let at = rng.usize(right.len());
                                    right[at] = b'a' + rng.below(alphabet + 2) as u8;
                                }
                                2 if right.len() >= 2 => {
                                    let at = rng.usize(right.len());
                                    let k = (1 + rng.geometric(8) as usize).min(right.len() - at);
                                    let chunk: Vec<u8> = right.drain(at..at + k).collect();
                                    let to = rng.usize(right.len() + 1);
                                    for (j, c) in chunk.into_iter().enumerate() {
                                        right.insert(to + j, c);
                                    }
                                }
                                _ => {
                                    let at = rng.usize(right.len() + 1);
                                    right.insert(at, b'a' + rng.below(alphabet + 2) as u8);
                                }
                            }
                        }
                    }
                }
                let (left, right) = if rng.chance(1, 2) { (left, right) } else { (right, left) };
                let rl: Vec<Range<usize>> = (0..left.len()).map(|k| k..k + 1).collect();
                let rr: Vec<Range<usize>> = (0..right.len()).map(|k| k..k + 1).collect();
                let run = || verif_collect_unchanged_words(&left, &rl, &right, &rr, CompareBytesExactly);
                let res = jjv::catch(run);
                let res2 = jjv::catch(run);
                if res.is_none() {
                    ctx.panicked();
                }
                let term = coq::app(
                    "C03.MatchCase",
                    &[
                        coq::bytes(&left),
                        coq::bytes(&right),
                        pairs(&res.clone().unwrap_or_default()),
                        coq::b(res == res2),
                        coq::b(res.is_none()),
                    ],
                );
                let shape = format!("match {}", if big { "big" } else { "small" });
                ctx.emit(i, term, left.len() >= 2 && right.len() >= 2, &shape);
                continue;
            }
            // a full diff
            let pool = diffgen::pick_pool(&mut rng);
            let n = match rng.below(10) {
                0 => 1,
                1..=5 => 2,
                6..=8 => 3,
                _ => 4,
            };
            let max_lines = if thorough && rng.chance(1, 10) { 60 } else { 12 };
            let inputs = diffgen::gen_inputs(&mut rng, pool, n, max_lines);
            let (steps, cfg) = gen_steps(&mut rng);
            let r1 = jjv::catch(|| run_diff(&inputs, &steps));
            let r2 = jjv::catch(|| run_diff(&inputs, &steps));
            let ms = jjv::catch(|| matchings(&inputs, steps[0].0, steps[0].1));
            let panicked = r1.is_none() || ms.is_none();
            if panicked {
                ctx.panicked();
            }
            let same = r1 == r2;
            let hunks = r1.unwrap_or_default();
            let ms = ms.unwrap_or_default();
            let term = coq::app(
                "C03.DiffCase",
                &[
                    coq::list(inputs.iter(), |x| coq::bytes(x)),
                    coq::list(steps.iter(), |(t, c)| coq::pair(coq::n(t.code()), coq::n(c.code()))),
                    coq::list(hunks.iter(), |(k, rs)| coq::pair(coq::b(*k), pairs(rs))),
                    coq::list(ms.iter(), |m| pairs(m)),
                    coq::b(same),
                    coq::b(panicked),
                ],
            );
            let nontrivial = inputs.len() >= 2 && hunks.len() >= 2;
            let shape = format!("diff {} {}", cfg, if pool == Pool::Repeats { "repeats" } else { "other" });
            ctx.count(&format!("pool {}", pool.name()));
            ctx.count(&format!("inputs {}", inputs.len()));
            ctx.emit(i, term, nontrivial, &shape);
        }
    });
}
