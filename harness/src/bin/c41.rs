//! C41: drives the real `jj` CLI (harness-built `jjbin`) through random sessions of normal
//! commands (new, describe, bookmark set/delete, abandon, tag set, git export, a concurrent
//! `--at-op` command) mixed with `undo`, `redo`, `op restore [--what ..]`, `op revert`, and
//! reads every operation the session wrote (parents, description, view) back through
//! jj_lib.  The Coq model replays the session.
use std::collections::BTreeMap;
use std::collections::HashMap;
use std::path::Path;
use std::path::PathBuf;
use std::process::Command;
use std::process::Stdio;
use std::time::Duration;
use std::time::Instant;

use jj_lib::backend::CommitId;
use jj_lib::object_id::ObjectId as _;
use jj_lib::op_store::OperationId;
use jj_lib::op_store::RefTarget;
use jj_lib::operation::Operation;
use jj_lib::repo::RepoLoader;
use jjv::Rng;
use jjv::coq;
use pollster::FutureExt as _;

struct Out {
    ok: bool,
    stderr: String,
    timed_out: bool,
}

struct Session {
    dir: PathBuf,
    repo: PathBuf,
    jj: PathBuf,
    n_cmds: u64,
}

impl Session {
    fn run(&mut self, cwd: &Path, args: &[&str]) -> Out {
        self.n_cmds += 1;
        let ts = format!("2001-02-03T04:05:{:02}+07:00", 7 + (self.n_cmds % 50));
        let mut cmd = Command::new(&self.jj);
        cmd.current_dir(cwd)
            .args(args)
            .env_clear()
            .env("PATH", std::env::var_os("PATH").unwrap_or_default())
            .env("HOME", self.dir.join("home"))
            .env("JJ_CONFIG", self.dir.join("home").join("jjconfig.toml"))
            .env("JJ_USER", "Test User")
            .env("JJ_EMAIL", "test.user@example.com")
            .env("JJ_OP_HOSTNAME", "host.example.com")
            .env("JJ_OP_USERNAME", "test-username")
            .env("JJ_TZ_OFFSET_MINS", "660")
            .env("JJ_RANDOMNESS_SEED", self.n_cmds.to_string())
            .env("JJ_TIMESTAMP", &ts)
            .env("JJ_OP_TIMESTAMP", &ts)
            .env("GIT_CONFIG_SYSTEM", "/dev/null")
            .env("GIT_CONFIG_GLOBAL", "/dev/null")
            .env("TMPDIR", self.dir.join("tmp"))
            .stdin(Stdio::null())
            .stdout(Stdio::piped())
            .stderr(Stdio::piped());
        let mut child = cmd.spawn().expect("spawn jjbin");
        // watchdog
        let start = Instant::now();
        loop {
            match child.try_wait() {
                Ok(Some(_)) => break,
                Ok(None) => {
                    if start.elapsed() > Duration::from_secs(60) {
                        let _ = child.kill();
                        let _ = child.wait();
                        return Out { ok: false, stderr: "timeout".into(), timed_out: true };
                    }
                    std::thread::sleep(Duration::from_millis(2));
                }
                Err(_) => break,
            }
        }
        let out = child.wait_with_output().expect("wait jjbin");
        Out {
            ok: out.status.success(),
            stderr: String::from_utf8_lossy(&out.stderr).into_owned(),
            timed_out: false,
        }
    }
}

/// Canonical numbering of commit ids and names, by first appearance.
#[derive(Default)]
struct Interner {
    commits: HashMap<CommitId, u64>,
    names: BTreeMap<String, u64>,
}

impl Interner {
    fn commit(&mut self, id: &CommitId) -> u64 {
        let n = self.commits.len() as u64 + 1;
        *self.commits.entry(id.clone()).or_insert(n)
    }
    fn name(&mut self, s: &str) -> u64 {
        // b<k>, t<k>, z<k> are the generator's names; anything else gets 1000+
        if let Some(k) = s.get(1..).and_then(|r| r.parse::<u64>().ok()) {
            if s.starts_with('b') {
                return k;
            }
            if s.starts_with('t') {
                return 100 + k;
            }
            if s.starts_with('z') {
                return 200 + k;
            }
        }
        if s == "default" {
            return 0;
        }
        let n = 1000 + self.names.len() as u64;
        *self.names.entry(s.to_string()).or_insert(n)
    }
    fn target(&mut self, t: &RefTarget) -> Vec<u64> {
        // term list: adds and removes interleaved; 0 = absent term
        t.as_merge().iter().map(|x| x.as_ref().map_or(0, |id| self.commit(id))).collect()
    }
}

struct OpRec {
    parents: Vec<u64>,
    desc: String,
    view: String, // Coq term
}

fn idstr(n: u64) -> String {
    if n == 0 {
        return "z".into();
    }
    // little-endian bits below the top bit
    let mut s = String::from("p");
    let bits = 64 - n.leading_zeros();
    for i in 0..bits - 1 {
        s.push(if (n >> i) & 1 == 1 { '1' } else { '0' });
    }
    s
}

/// Replaces every run of >= 32 hex digits that is a known operation id by its `idstr`.
fn canon_desc(desc: &str, op_index: &HashMap<String, u64>) -> String {
    let bytes = desc.as_bytes();
    let mut out = String::new();
    let mut i = 0;
    while i < bytes.len() {
        let mut j = i;
        while j < bytes.len() && bytes[j].is_ascii_hexdigit() {
            j += 1;
        }
        if j - i >= 32 {
            let hex = &desc[i..j];
            match op_index.get(hex) {
                Some(k) => out.push_str(&idstr(*k)),
                None => out.push_str("?"),
            }
            i = j;
        } else if j > i {
            out.push_str(&desc[i..j]);
            i = j;
        } else {
            // copy one char (descriptions are ASCII here)
            let ch = desc[i..].chars().next().unwrap();
            out.push(ch);
            i += ch.len_utf8();
        }
    }
    // keep the Coq string literal simple
    out.chars().map(|c| if c == '"' || !c.is_ascii() || c.is_ascii_control() { '?' } else { c }).collect()
}

fn view_term(op: &Operation, it: &mut Interner) -> String {
    let view = op.view().block_on().expect("view");
    let v = view.store_view();
    let mut heads: Vec<&CommitId> = v.head_ids.iter().collect();
    heads.sort();
    let heads: Vec<u64> = heads.into_iter().map(|c| it.commit(c)).collect();
    let mut refs = |m: &BTreeMap<jj_lib::ref_name::RefNameBuf, RefTarget>, it: &mut Interner| {
        let mut v: Vec<(u64, Vec<u64>)> = m.iter().map(|(k, t)| (it.name(k.as_str()), it.target(t))).collect();
        v.sort();
        coq::list(v.iter(), |(k, t)| coq::pair(coq::n(*k), coq::list(t.iter(), |x| coq::n(*x))))
    };
    let bookmarks = refs(&v.local_bookmarks, it);
    let tags = refs(&v.local_tags, it);
    let mut wc: Vec<(u64, u64)> = v.wc_commit_ids.iter().map(|(k, c)| (it.name(k.as_str()), it.commit(c))).collect();
    wc.sort();
    let mut remotes: Vec<u64> = vec![];
    for (rname, rv) in &v.remote_views {
        remotes.push(it.name(rname.as_str()));
        for (kind, m) in [(1u64, &rv.bookmarks), (2u64, &rv.tags)] {
            remotes.push(kind);
            remotes.push(m.len() as u64);
            for (k, r) in m {
                remotes.push(it.name(k.as_str()));
                remotes.push(if r.is_tracked() { 1 } else { 0 });
                let t = it.target(&r.target);
                remotes.push(t.len() as u64);
                remotes.extend(t);
            }
        }
    }
    let mut git_refs: Vec<u64> = vec![];
    for (k, t) in &v.git_refs {
        git_refs.push(it.name(k.as_str()));
        let t = it.target(t);
        git_refs.push(t.len() as u64);
        git_refs.extend(t);
    }
    let mut git_heads: Vec<u64> = vec![];
    for (k, t) in &v.git_heads {
        git_heads.push(it.name(k.as_str()));
        let t = it.target(t);
        git_heads.push(t.len() as u64);
        git_heads.extend(t);
    }
    coq::app(
        "C41.mk_view",
        &[
            coq::list(heads.iter(), |x| coq::n(*x)),
            bookmarks,
            tags,
            coq::list(wc.iter(), |(k, c)| coq::pair(coq::n(*k), coq::n(*c))),
            coq::list(remotes.iter(), |x| coq::n(*x)),
            coq::list(git_refs.iter(), |x| coq::n(*x)),
            coq::list(git_heads.iter(), |x| coq::n(*x)),
        ],
    )
}

struct Log {
    loader: RepoLoader,
    index: HashMap<String, u64>, // op hex -> position
    ids: Vec<OperationId>,
    it: Interner,
}

impl Log {
    /// Operations written since the last call, oldest first.
    fn new_ops(&mut self) -> Vec<OpRec> {
        let heads = self.loader.op_heads_store().get_op_heads().block_on().expect("op heads");
        // collect unknown ancestors
        let mut unknown: Vec<Operation> = vec![];
        let mut stack: Vec<OperationId> = heads;
        let mut seen: std::collections::HashSet<String> = Default::default();
        while let Some(id) = stack.pop() {
            if self.index.contains_key(&id.hex()) || !seen.insert(id.hex()) {
                continue;
            }
            let op = self.loader.load_operation(&id).block_on().expect("load op");
            for p in op.parent_ids() {
                stack.push(p.clone());
            }
            unknown.push(op);
        }
        // order: parents first; ties by hex id (deterministic given the seeded environment)
        let mut out = vec![];
        unknown.sort_by_key(|op| op.id().hex());
        while !unknown.is_empty() {
            let pos = unknown
                .iter()
                .position(|op| op.parent_ids().iter().all(|p| self.index.contains_key(&p.hex())))
                .expect("cyclic op log");
            let op = unknown.remove(pos);
            let k = self.ids.len() as u64;
            self.index.insert(op.id().hex(), k);
            self.ids.push(op.id().clone());
            let parents = op.parent_ids().iter().map(|p| self.index[&p.hex()]).collect();
            let desc = canon_desc(&op.metadata().description, &self.index);
            let view = view_term(&op, &mut self.it);
            out.push(OpRec { parents, desc, view });
        }
        out
    }
}

fn op_term(o: &OpRec) -> String {
    coq::app(
        "C41.mk_op",
        &[coq::list(o.parents.iter(), |p| coq::n(*p)), format!("\"{}\"%string", o.desc), o.view.clone()],
    )
}

fn err_kind(stderr: &str) -> u64 {
    if stderr.contains("Cannot undo root operation") || stderr.contains("Cannot revert root operation") {
        1
    } else if stderr.contains("Cannot undo a merge operation") || stderr.contains("Cannot revert a merge operation") {
        2
    } else if stderr.contains("Nothing to redo") {
        3
    } else {
        9
    }
}

struct CaseOut {
    term: String,
    nontrivial: bool,
    shape: String,
    counts: BTreeMap<&'static str, u64>,
}

fn run_case(scratch: &Path, jj: &Path, i: usize, mut rng: Rng) -> CaseOut {
    let failed = |why: &str| CaseOut {
        term: "(C41.mk_case [] true)".into(),
        nontrivial: false,
        shape: format!("failed {why}"),
        counts: BTreeMap::new(),
    };
    let dir = scratch.join(format!("c41_{i}"));
    let _ = std::fs::remove_dir_all(&dir);
    std::fs::create_dir_all(dir.join("home")).unwrap();
    std::fs::create_dir_all(dir.join("tmp")).unwrap();
    std::fs::write(
        dir.join("home").join("jjconfig.toml"),
        "[user]\nname = \"Test User\"\nemail = \"test.user@example.com\"\n[ui]\ncolor = \"never\"\npaginate = \"never\"\n",
    )
    .unwrap();
    let mut s = Session { dir: dir.clone(), repo: dir.join("repo"), jj: jj.to_path_buf(), n_cmds: 0 };
    let o = s.run(&dir.clone(), &["git", "init", "--no-colocate", "repo"]);
    if !o.ok {
        return failed("init");
    }
    let repo = s.repo.clone();
    let settings = testutils::user_settings();
    let loader = match RepoLoader::init_from_file_system(&settings, &repo.join(".jj").join("repo"), &jj_lib::default_backend_factories::default_backend_factories()) {
        Ok(l) => l,
        Err(_) => return failed("load"),
    };
    let mut log = Log { loader, index: HashMap::new(), ids: vec![], it: Interner::default() };
    let mut events: Vec<String> = vec![];
    let init_ops = log.new_ops();
    events.push(format!(
        "(C41.CNormal {}, C41.ONothing)",
        coq::list(init_ops.iter(), op_term)
    ));
    let mut counts: BTreeMap<&'static str, u64> = BTreeMap::new();
    let mut bump = |k: &'static str, counts: &mut BTreeMap<&'static str, u64>| *counts.entry(k).or_insert(0) += 1;

    // session plan
    let pure_stack = rng.chance(1, 4);
    let n_normal = 3 + rng.usize(4);
    let n_mixed = if pure_stack { 0 } else { 4 + rng.usize(6) };
    let mut plan: Vec<u8> = vec![0; n_normal]; // 0 normal 1 undo 2 redo 3 restore 4 revert 5 concurrent
    if pure_stack {
        let k = 1 + rng.usize(n_normal + 1);
        let j = rng.usize(k + 2);
        plan.extend(std::iter::repeat(1).take(k));
        plan.extend(std::iter::repeat(2).take(j));
        if rng.chance(1, 2) {
            plan.push(1);
        }
    } else {
        for _ in 0..n_mixed {
            let r = rng.below(100);
            plan.push(if r < 32 {
                1
            } else if r < 54 {
                2
            } else if r < 70 {
                0
            } else if r < 82 {
                3
            } else if r < 95 {
                4
            } else {
                5
            });
        }
    }
    let mut desc_counter = 0u64;
    let mut n_modelled = 0u64;
    let mut stop = false;
    // edge pool: after the ordinary prefix the user makes bookmark b0 (and its ancestors)
    // immutable; restoring an earlier view whose working-copy commit is at or below b0 then
    // takes the "working-copy commit became immutable" path of finish_transaction
    let flip_at = if rng.chance(1, 5) { Some(n_normal) } else { None };
    for (step, kind) in plan.into_iter().enumerate() {
        if flip_at == Some(step) {
            let o = s.run(&repo, &["bookmark", "set", "b0", "-r", "@", "--allow-backwards"]);
            let _ = o;
            let ops = log.new_ops();
            if !ops.is_empty() {
                events.push(format!("(C41.CNormal {}, C41.ONothing)", coq::list(ops.iter(), op_term)));
            }
            let o = s.run(&repo, &["new"]);
            let _ = o;
            let ops = log.new_ops();
            if !ops.is_empty() {
                events.push(format!("(C41.CNormal {}, C41.ONothing)", coq::list(ops.iter(), op_term)));
            }
            let o = s.run(
                &repo,
                &["config", "set", "--repo", "revset-aliases.\"immutable_heads()\"", "present(b0)"],
            );
            if o.ok {
                bump("immutable-config", &mut counts);
            }
        }
        if stop {
            break;
        }
        let n_ops_now = log.ids.len() as u64;
        match kind {
            0 | 5 => {
                let mut args: Vec<String> = vec![];
                if kind == 5 {
                    args.push("--at-op=@-".into());
                    bump("concurrent", &mut counts);
                }
                desc_counter += 1;
                let b = format!("b{}", rng.below(3));
                match rng.below(if kind == 5 { 6 } else { 12 }) {
                    0 | 1 => args.extend(["new".to_string()]),
                    2 => args.extend(["describe".into(), "-m".into(), format!("d{desc_counter}")]),
                    3 | 4 => args.extend(["bookmark".into(), "set".into(), b, "-r".into(), "@".into(), "--allow-backwards".into()]),
                    5 => args.extend(["bookmark".into(), "delete".into(), b]),
                    6 => args.extend(["bookmark".into(), "set".into(), b, "-r".into(), "@-".into(), "--allow-backwards".into()]),
                    7 => args.extend(["abandon".into(), "@".into()]),
                    8 => args.extend(["new".into(), "root()".into()]),
                    9 => args.extend(["tag".into(), "set".into(), format!("t{}", rng.below(2)), "-r".into(), "@-".into(), "--allow-move".into()]),
                    10 => args.extend(["git".into(), "export".into()]),
                    _ => args.extend(["new".into(), "@-".into()]),
                }
                let argv: Vec<&str> = args.iter().map(|x| x.as_str()).collect();
                let o = s.run(&repo, &argv);
                if o.timed_out {
                    return failed("timeout");
                }
                if kind == 5 {
                    // make the reconciliation happen now, so the log has a single head again
                    let o2 = s.run(&repo, &["op", "log", "-n1", "--no-graph", "-T", "\"\""]);
                    if o2.timed_out {
                        return failed("timeout");
                    }
                }
                let ops = log.new_ops();
                bump("normal-cmd", &mut counts);
                if !ops.is_empty() {
                    events.push(format!("(C41.CNormal {}, C41.ONothing)", coq::list(ops.iter(), op_term)));
                }
            }
            _ => {
                let (argv, cmd_term): (Vec<String>, String) = match kind {
                    1 => (vec!["undo".into()], "C41.CUndo".into()),
                    2 => (vec!["redo".into()], "C41.CRedo".into()),
                    _ => {
                        // target operation: mostly recent, sometimes the current one, sometimes old
                        let t = if rng.chance(1, 3) {
                            n_ops_now - 1
                        } else if rng.chance(1, 8) {
                            rng.below(2)
                        } else {
                            n_ops_now - 1 - rng.below(n_ops_now.min(4))
                        };
                        let (wr, wm) = match rng.below(8) {
                            0 => (true, false),
                            1 => (false, true),
                            _ => (true, true),
                        };
                        let mut a: Vec<String> = vec!["op".into(), if kind == 3 { "restore".into() } else { "revert".into() }, log.ids[t as usize].hex()];
                        if !(wr && wm) {
                            a.push("--what".into());
                            a.push(if wr { "repo".into() } else { "remote-tracking".into() });
                        }
                        (
                            a,
                            format!(
                                "(C41.{} {} {} {})",
                                if kind == 3 { "CRestore" } else { "CRevert" },
                                t,
                                coq::b(wr),
                                coq::b(wm)
                            ),
                        )
                    }
                };
                let argv: Vec<&str> = argv.iter().map(|x| x.as_str()).collect();
                let o = s.run(&repo, &argv);
                if o.timed_out {
                    return failed("timeout");
                }
                let mut ops = log.new_ops();
                // a command may first write a snapshot operation (e.g. to move the working
                // copy off a commit that became immutable); those are ordinary operations
                let own_prefix = match kind {
                    1 => "undo: ",
                    2 => "redo: ",
                    3 => "restore to operation ",
                    _ => "revert operation ",
                };
                let own_at = ops.iter().position(|o| o.desc.starts_with(own_prefix)).unwrap_or(ops.len());
                if own_at > 0 {
                    let pre: Vec<OpRec> = ops.drain(..own_at).collect();
                    events.push(format!("(C41.CNormal {}, C41.ONothing)", coq::list(pre.iter(), op_term)));
                    bump("snapshot-before-command", &mut counts);
                }
                n_modelled += 1;
                let name: &'static str = match kind {
                    1 => "undo",
                    2 => "redo",
                    3 => "restore",
                    _ => "revert",
                };
                if !o.ok && err_kind(&o.stderr) == 9 && flip_at.is_some_and(|f| step >= f) {
                    // the user-made immutable_heads() alias cannot be evaluated (b0 became
                    // conflicted or was deleted): the command stops before doing anything
                    bump("skipped-immutable-heads-error", &mut counts);
                    n_modelled -= 1;
                    continue;
                }
                let outcome = if !o.ok {
                    let e = err_kind(&o.stderr);
                    bump(
                        match e {
                            1 => "err-root",
                            2 => "err-merge",
                            3 => "err-nothing-to-redo",
                            _ => "err-other",
                        },
                        &mut counts,
                    );
                    if !ops.is_empty() {
                        return failed("ops-after-error");
                    }
                    format!("(C41.OErr {e})")
                } else if ops.is_empty() {
                    bump("nothing-changed", &mut counts);
                    "C41.ONothing".to_string()
                } else if ops.len() == 1 {
                    let imm = o.stderr.contains("became immutable");
                    if imm {
                        bump("wc-became-immutable", &mut counts);
                    }
                    bump(name, &mut counts);
                    format!("(C41.ONew {} {})", op_term(&ops[0]), coq::b(imm))
                } else {
                    return failed("several-ops");
                };
                events.push(format!("({cmd_term}, {outcome})"));
                // a view without a working copy ends the session (commands would fail)
                if let Some(last) = ops.last() {
                    if last.view.contains("[] [] [] []") && last.parents.len() == 1 {
                        // cheap test for "no workspace": wc list empty is the 4th field; re-check precisely
                    }
                }
                let head = log.loader.load_operation(log.ids.last().unwrap()).block_on().unwrap();
                if head.view().block_on().unwrap().store_view().wc_commit_ids.is_empty() {
                    stop = true;
                }
            }
        }
    }
    let _ = std::fs::remove_dir_all(&dir);
    let term = format!("(C41.mk_case {} false)", coq::list(events.iter(), |e| e.clone()));
    let shape = format!(
        "{} modelled={}",
        if pure_stack { "stack" } else { "mixed" },
        match n_modelled {
            0 => "0",
            1..=3 => "1-3",
            4..=6 => "4-6",
            _ => "7+",
        }
    );
    CaseOut { term, nontrivial: n_modelled >= 2, shape, counts }
}

fn main() {
    jjv::run("C41", "C41", |ctx| {
        let jj = jjv::jj_bin_path();
        let scratch = ctx.scratch.clone();
        let indices = ctx.indices();
        let jobs: Vec<(usize, Rng)> = indices.iter().map(|i| (*i, ctx.rng(*i))).collect();
        // sessions are independent processes: run them on a few threads, emit in order
        let n_threads = 6usize;
        let results: std::sync::Mutex<BTreeMap<usize, CaseOut>> = Default::default();
        let next = std::sync::atomic::AtomicUsize::new(0);
        std::thread::scope(|sc| {
            for _ in 0..n_threads {
                sc.spawn(|| loop {
                    let k = next.fetch_add(1, std::sync::atomic::Ordering::SeqCst);
                    if k >= jobs.len() {
                        break;
                    }
                    let (i, rng) = (jobs[k].0, jobs[k].1.clone());
                    let out = jjv::catch(|| run_case(&scratch, &jj, i, rng)).unwrap_or_else(|| CaseOut {
                        term: "(C41.mk_case [] true)".into(),
                        nontrivial: false,
                        shape: "failed panic".into(),
                        counts: BTreeMap::new(),
                    });
                    results.lock().unwrap().insert(i, out);
                });
            }
        });
        let results = results.into_inner().unwrap();
        let mut totals: BTreeMap<&'static str, u64> = BTreeMap::new();
        for (i, out) in results {
            for (k, v) in &out.counts {
                *totals.entry(k).or_insert(0) += v;
            }
            if out.shape.starts_with("failed") {
                ctx.panicked();
            }
            ctx.emit(i, out.term, out.nontrivial, &out.shape);
        }
        ctx.note(format!("event counts over all sessions: {totals:?}"));
    });
}
