//! C04: jj_lib::files::{merge, merge_hunks, try_merge} on generated Merge<BString> inputs:
//! cancelling term pairs at arbitrary add/remove positions, ordinary multi-way merges,
//! identical sides, near-cancellations; 1/3/5/7 terms; line and word level; both settings.
use bstr::BString;
use jj_lib::diff::CompareBytesExactly;
use jj_lib::diff::find_line_ranges;
use jj_lib::diff::verif_collect_unchanged_words;
use jj_lib::files;
use jj_lib::files::FileMergeHunkLevel;
use jj_lib::files::MergeResult;
use jj_lib::merge::Merge;
use jj_lib::merge::SameChange;
use jj_lib::tree_merge::MergeOptions;
use jjv::coq;

#[path = "../diffgen.rs"]
mod diffgen;
use diffgen::Pool;

fn blist(xs: &[Vec<u8>]) -> String {
    coq::list(xs.iter(), |x| coq::bytes(x))
}

fn main() {
    jjv::run("C04", "C04", |ctx| {
        let thorough = ctx.tier == "thorough";
        for i in ctx.indices() {
            let mut rng = ctx.rng(i);
            let sides = match rng.below(11) {
                0 => 1usize,
                1..=5 => 2,
                6..=8 => 3,
                _ => 4,
            };
            let k = sides - 1; // number of removes
            let pool = match rng.below(16) {
                0..=6 => Pool::Lines,
                7 => Pool::Repeats,
                8..=9 => Pool::Eol,
                10 => Pool::Space,
                11 => Pool::Binary,
                _ => Pool::Words,
            };
            let alphabet = rng.range(2, 6) as usize;
            let max_lines = if thorough && rng.chance(1, 10) { 40 } else { 10 };
            let base = diffgen::gen_doc(&mut rng, pool, alphabet, max_lines);
            let variant = |rng: &mut jjv::Rng, from: &[Vec<u8>], max_edits: u64| {
                diffgen::edit_doc(rng, from, pool, alphabet, max_edits)
            };
            let mode = rng.below(10);
            let mut adds: Vec<Vec<u8>> = vec![];
            let mut removes: Vec<Vec<u8>> = vec![];
            let mode_name;
            match mode {
                0..=3 => {
                    // terms cancel pairwise except for X
                    mode_name = if mode == 3 { "near-cancel" } else { "cancel" };
                    let x = variant(&mut rng, &base, 4);
                    adds.push(diffgen::finish(&mut rng, &x));
                    for _ in 0..k {
                        let p = match rng.below(5) {
                            0 => base.clone(),
                            1 => x.clone(),
                            2 => variant(&mut rng, &x, 3),
                            _ => variant(&mut rng, &base, 4),
                        };
                        let bytes = diffgen::finish(&mut rng, &p);
                        removes.push(bytes.clone());
                        adds.push(bytes);
                    }
                    if mode == 3 && k > 0 {
                        // break one of the pairs by a small further edit
                        let j = 1 + rng.usize(k);
                        let doc: Vec<Vec<u8>> = adds[j].split_inclusive(|b| *b == b'\n').map(|l| l.to_vec()).collect();
                        let doc = variant(&mut rng, &doc, 2);
                        adds[j] = doc.concat();
                    }
                    rng.shuffle(&mut adds);
                    rng.shuffle(&mut removes);
                }
                4..=6 => {
                    // ordinary merge: sides are edits of the base(s)
                    mode_name = "merge";
                    for _ in 0..k {
                        let b = if rng.chance(3, 4) { base.clone() } else { variant(&mut rng, &base, 2) };
                        removes.push(diffgen::finish(&mut rng, &b));
                    }
                    for _ in 0..sides {
                        let s = variant(&mut rng, &base, 3);
                        adds.push(diffgen::finish(&mut rng, &s));
                    }
                }
                7..=8 => {
                    // identical sides, one or several bases
                    mode_name = "same-sides";
                    let sdoc = variant(&mut rng, &base, 3);
                    let s = diffgen::finish(&mut rng, &sdoc);
                    let b0 = diffgen::finish(&mut rng, &base);
                    for _ in 0..sides {
                        adds.push(s.clone());
                    }
                    for _ in 0..k {
                        if rng.chance(4, 5) {
                            removes.push(b0.clone());
                        } else {
                            let b = variant(&mut rng, &base, 2);
                            removes.push(diffgen::finish(&mut rng, &b));
                        }
                    }
                }
                _ => {
                    // unrelated contents, empty sides
                    mode_name = "unrelated";
                    for _ in 0..k {
                        let d = diffgen::gen_doc(&mut rng, pool, alphabet, 4);
                        removes.push(if rng.chance(1, 4) { vec![] } else { d.concat() });
                    }
                    for _ in 0..sides {
                        let d = diffgen::gen_doc(&mut rng, pool, alphabet, 4);
                        adds.push(if rng.chance(1, 4) { vec![] } else { d.concat() });
                    }
                }
            }
            let accept = rng.chance(1, 2);
            let word = rng.chance(1, 2);
            let merge: Merge<BString> = Merge::from_removes_adds(
                removes.iter().map(|x| BString::from(x.clone())),
                adds.iter().map(|x| BString::from(x.clone())),
            );
            let terms: Vec<Vec<u8>> = merge.iter().map(|x| x.to_vec()).collect();
            let options = MergeOptions {
                hunk_level: if word { FileMergeHunkLevel::Word } else { FileMergeHunkLevel::Line },
                same_change: if accept { SameChange::Accept } else { SameChange::Keep },
            };
            let r_merge = jjv::catch(|| files::merge(&merge, &options));
            let r_hunks = jjv::catch(|| files::merge_hunks(&merge, &options));
            let r_try = jjv::catch(|| files::try_merge(&merge, &options));
            let panicked = r_merge.is_none() || r_hunks.is_none() || r_try.is_none();
            if panicked {
                ctx.panicked();
            }
            let merged: Vec<Vec<u8>> = r_merge.map(|m| m.iter().map(|x| x.to_vec()).collect()).unwrap_or_default();
            let (mh_resolved, mh): (bool, Vec<Vec<Vec<u8>>>) = match r_hunks {
                Some(MergeResult::Resolved(c)) => (true, vec![vec![c.to_vec()]]),
                Some(MergeResult::Conflict(hs)) => (
                    false,
                    hs.iter().map(|h| h.iter().map(|x| x.to_vec()).collect()).collect(),
                ),
                None => (false, vec![]),
            };
            let tried: Option<Vec<u8>> = r_try.flatten().map(|c| c.to_vec());
            // the hypothesis of the laws on the matching: identical token lists match identically
            let self_identity = terms.iter().all(|x| {
                let ranges = find_line_ranges(x);
                let m = jjv::catch(|| verif_collect_unchanged_words(x, &ranges, x, &ranges, CompareBytesExactly));
                m == Some((0..ranges.len()).map(|k| (k, k)).collect())
            });
            let term = coq::app(
                "C04.mk_case",
                &[
                    blist(&terms),
                    coq::b(accept),
                    coq::b(word),
                    blist(&merged),
                    coq::b(mh_resolved),
                    coq::list(mh.iter(), |h| blist(h)),
                    coq::opt(tried.as_ref(), |c| coq::bytes(c)),
                    coq::b(self_identity),
                    coq::b(panicked),
                ],
            );
            let outcome = if merged.len() == 1 { "resolved" } else { "conflict" };
            let shape = format!("{} terms={} {}", mode_name, if terms.len() >= 5 { ">=5".to_string() } else { terms.len().to_string() }, outcome);
            ctx.count(&format!("pool {}", pool.name()));
            ctx.count(&format!("level {} same_change {}", if word { "word" } else { "line" }, if accept { "accept" } else { "keep" }));
            ctx.emit(i, term, terms.len() >= 3, &shape);
        }
    });
}
