//! C24: sequences of real checkouts between related trees (files, executables, symlinks,
//! file<->directory replacements, exec flips, retargets) on a workspace that also holds
//! untracked entries not in the way, under random sparse patterns; a snapshot right after
//! the last checkout; and the last tree checked out from scratch in a second workspace.
#[path = "../wcc.rs"]
mod wcc;

use jjv::coq;
use wcc::*;

struct CaseOut {
    term: String,
    nontrivial: bool,
    shape: String,
    panicked: bool,
}

fn comparable(a: &P, b: &P) -> bool {
    is_prefix(a, b) || is_prefix(b, a)
}

/// Untracked entries: under names the trees never use, inside directories the trees do use
/// (so that pruning meets them), always incomparable with every tree path of the sequence.
fn gen_untracked(rng: &mut jjv::Rng, trees: &[Tree]) -> Vec<Edit> {
    if rng.chance(1, 3) {
        return vec![];
    }
    let mut dirs: Vec<P> = vec![vec![]];
    for t in trees {
        for p in t.keys() {
            for k in 1..p.len() {
                dirs.push(p[..k].to_vec());
            }
        }
    }
    dirs.sort();
    dirs.dedup();
    let n = 1 + rng.below(4);
    let mut out = vec![];
    for _ in 0..n {
        let mut p = rng.pick(&dirs).clone();
        p.push(rng.pick(&["u", "v", "w"]).to_string());
        if rng.chance(1, 4) {
            p.push(rng.pick(&["u", "a"]).to_string());
        }
        if trees.iter().any(|t| t.keys().any(|q| comparable(&p, q))) {
            continue;
        }
        let depth = p.len();
        out.push(match rng.below(6) {
            0 => Edit::MkDir(p),
            1 => Edit::Symlink(p, outside_rel(depth)),
            2 => Edit::Symlink(p, "a".to_string()),
            _ => Edit::WriteFile(p, rng.pick(&["u", ""]).to_string(), rng.chance(1, 4)),
        });
    }
    out
}

/// Observations on the real code alone (no model): checkouts of conflicted trees, and of
/// plain trees under other EOL / exec-bit settings. After every checkout a snapshot must
/// return the identical tree ids; a second workspace that checks the last tree out from
/// scratch must have the identical disk (not claimed for exec-bit-change = "ignore", where
/// the on-disk bit is inherited from the previous file by design).
fn real_only(rng: &mut jjv::Rng) -> (Vec<bool>, String) {
    use jj_lib::config::{ConfigLayer, ConfigSource};
    use jj_lib::settings::UserSettings;
    let eol = *rng.pick(&["none", "none", "input", "input-output"]);
    let exec = *rng.pick(&["auto", "respect", "ignore"]);
    let conflicted = rng.chance(2, 3);
    let settings = || {
        let mut config = testutils::base_user_config();
        let mut layer = ConfigLayer::empty(ConfigSource::User);
        layer.set_value("working-copy.eol-conversion", eol).unwrap();
        layer.set_value("working-copy.exec-bit-change", exec).unwrap();
        config.add_layer(layer);
        UserSettings::from_config(config).unwrap()
    };
    // contents are whole lines so that file conflicts materialize as marker files
    let lines = |t: &Tree| -> Tree {
        t.iter()
            .map(|(p, v)| {
                let v = match v {
                    TVal::File(c, x) => TVal::File(format!("{c}\nline\n"), *x),
                    other => other.clone(),
                };
                (p.clone(), v)
            })
            .collect()
    };
    let n = 2 + rng.below(2) as usize;
    let mut specs: Vec<(Tree, Tree, Tree)> = vec![];
    for _ in 0..n {
        let base = lines(&gen_tree(rng, 0));
        let p1 = lines(&mutate_tree(rng, &base, 0));
        let p2 = if conflicted { lines(&mutate_tree(rng, &base, 0)) } else { p1.clone() };
        specs.push((base, p1, p2));
    }
    let build = |ws: &Ws, spec: &(Tree, Tree, Tree)| {
        let mut b = testutils::TestThreeWayMergeTreeBuilder::new(ws.store());
        let fill = |tb: &mut testutils::TestTreeBuilder, t: &Tree| {
            for (p, v) in t {
                let rp = to_repo_path(p);
                match v {
                    TVal::File(c, x) => {
                        tb.file(&rp, c.as_bytes()).executable(*x);
                    }
                    TVal::Sym(target) => tb.symlink(&rp, target),
                }
            }
        };
        fill(b.base(), &spec.0);
        fill(b.parent1(), &spec.1);
        fill(b.parent2(), &spec.2);
        // as in a real commit: trivially mergeable paths resolved, conflict simplified
        pollster::FutureExt::block_on(b.write_merged_tree().resolve()).unwrap()
    };
    let mut obs = vec![];
    let mut ws = Ws::with_settings(&settings());
    let mut last_ok = true;
    for spec in &specs {
        let tm = build(&ws, spec);
        let res = outcome(ws.check_out(&tm));
        last_ok = matches!(res, Outcome::Ok(ref s) if s.skipped_files == 0);
        obs.push(last_ok);
        let snap = ws.snapshot();
        obs.push(snap.is_some_and(|t| t.tree_ids_and_labels() == tm.tree_ids_and_labels()));
    }
    if exec != "ignore" {
        let mut ws2 = Ws::with_settings(&settings());
        let tm2 = build(&ws2, specs.last().unwrap());
        let res2 = outcome(ws2.check_out(&tm2));
        obs.push(matches!(res2, Outcome::Ok(_)) == last_ok);
        obs.push(list_disk(&ws2.root) == list_disk(&ws.root));
    }
    let _ = conflicted;
    (obs, " +real".to_string())
}

/// Observations on the real code alone: checkouts between versions of the SAME conflicted
/// tree (identical tree ids) that differ only in their conflict labels: unlabeled, labels
/// A, labels B, in every direction, and unchanged. The marker lines of the conflict files
/// carry the labels, so every switch must re-materialize them: after each checkout a
/// snapshot must return the tree ids and labels just checked out, and a second workspace
/// that checks the last version out from scratch must have the identical disk, byte for
/// byte. `fixed` = the corpus sequence A -> unlabeled -> A -> B -> B.
fn label_observations(rng: &mut jjv::Rng, fixed: bool) -> Vec<bool> {
    use jj_lib::conflict_labels::ConflictLabels;
    use jj_lib::merged_tree::MergedTree;
    // a guaranteed file conflict plus random surroundings
    let file = |c: &str| TVal::File(format!("{c}\nline\n"), false);
    let mut base = if fixed { Tree::new() } else { gen_tree(rng, 0) };
    let key: P = vec!["k".to_string()];
    base.retain(|p, _| !is_prefix(p, &key) && !is_prefix(&key, p));
    let (mut p1, mut p2) = (base.clone(), base.clone());
    base.insert(key.clone(), file("base"));
    p1.insert(key.clone(), file("one"));
    p2.insert(key.clone(), file("two"));
    if !fixed && rng.chance(1, 2) {
        // a second conflict deeper in the tree
        let key2: P = vec!["kd".to_string(), "e".to_string()];
        base.insert(key2.clone(), file("b"));
        p1.insert(key2.clone(), file("x"));
        p2.insert(key2, TVal::File("y\nline\n".to_string(), true));
    }
    let build_ids = |ws: &Ws| {
        let mut b = testutils::TestThreeWayMergeTreeBuilder::new(ws.store());
        let fill = |tb: &mut testutils::TestTreeBuilder, t: &Tree| {
            for (p, v) in t {
                let rp = to_repo_path(p);
                match v {
                    TVal::File(c, x) => {
                        tb.file(&rp, c.as_bytes()).executable(*x);
                    }
                    TVal::Sym(target) => tb.symlink(&rp, target),
                }
            }
        };
        fill(b.base(), &base);
        fill(b.parent1(), &p1);
        fill(b.parent2(), &p2);
        pollster::FutureExt::block_on(b.write_merged_tree().resolve()).unwrap().tree_ids().clone()
    };
    let version = |ws: &Ws, ids: &jj_lib::merge::Merge<jj_lib::backend::TreeId>, v: u64| {
        let n = ids.as_slice().len();
        let labels = match v {
            0 => ConflictLabels::unlabeled(),
            1 => ConflictLabels::from_vec((0..n).map(|i| format!("side-a{i}")).collect()),
            _ => ConflictLabels::from_vec((0..n).map(|i| format!("other label {i}")).collect()),
        };
        MergedTree::new(ws.store(), ids.clone(), labels)
    };
    let seq: Vec<u64> = if fixed {
        vec![1, 0, 1, 2, 2]
    } else {
        (0..2 + rng.below(3)).map(|_| rng.below(3)).collect()
    };
    let mut obs = vec![];
    // the disk of every version checked out from scratch
    let mut scratch: Vec<Option<Disk>> = vec![None, None, None];
    for v in 0..3u64 {
        if seq.contains(&v) {
            let mut ws0 = Ws::new();
            let ids0 = build_ids(&ws0);
            let tm0 = version(&ws0, &ids0, v);
            obs.push(matches!(outcome(ws0.check_out(&tm0)), Outcome::Ok(_)));
            scratch[v as usize] = Some(list_disk(&ws0.root));
        }
    }
    let mut ws = Ws::new();
    let ids = build_ids(&ws);
    obs.push(!ids.is_resolved());
    for v in &seq {
        let tm = version(&ws, &ids, *v);
        let res = outcome(ws.check_out(&tm));
        obs.push(matches!(res, Outcome::Ok(ref s) if s.skipped_files == 0));
        // path independence after every switch, marker lines included
        obs.push(Some(list_disk(&ws.root)) == scratch[*v as usize]);
        let snap = ws.snapshot();
        obs.push(snap.is_some_and(|t| t.tree_ids_and_labels() == tm.tree_ids_and_labels()));
    }
    // the labels really are on disk: two differently labeled versions differ
    if let (Some(a), Some(b)) = (&scratch[1], &scratch[2]) {
        obs.push(a != b);
    }
    if let (Some(a), Some(b)) = (&scratch[0], &scratch[1]) {
        obs.push(a != b);
    }
    obs
}

fn run_case(_i: usize, mut rng: jjv::Rng) -> CaseOut {
    let n_steps = 1 + rng.below(3) as usize + if rng.chance(1, 4) { 1 } else { 0 };
    let mut trees: Vec<Tree> = vec![];
    let mut cur = gen_tree(&mut rng, 0);
    for _ in 0..n_steps {
        trees.push(cur.clone());
        cur = mutate_tree(&mut rng, &cur, 0);
    }
    let sparse: Vec<P> =
        if rng.chance(1, 3) { gen_sparse(&mut rng, &trees[0], trees.last().unwrap()) } else { vec![vec![]] };
    let is_sparse = sparse != vec![Vec::<String>::new()];
    let untracked = gen_untracked(&mut rng, &trees);

    let prepare = |ws: &mut Ws| {
        if is_sparse {
            let r = outcome(ws.set_sparse(&sparse));
            assert!(matches!(r, Outcome::Ok(_)), "set_sparse on empty tree: {r:?}");
        }
        for e in &untracked {
            apply_edit(&ws.root, e);
        }
    };

    let mut ws = Ws::new();
    prepare(&mut ws);
    let store = ws.store();
    let disk0 = list_disk(&ws.root);
    let has_untracked = disk0.keys().any(|p| p[0] != ".jj");
    let mut steps = vec![];
    let mut panicked = false;
    let mut all_ok = true;
    for t in &trees {
        let tm = write_tree(&store, t);
        fs_trace_start();
        let res = outcome(ws.check_out(&tm));
        let calls = fs_trace_stop(&ws.root);
        panicked |= res == Outcome::Panic;
        all_ok &= matches!(res, Outcome::Ok(_));
        let disk = list_disk(&ws.root);
        let states = ws.file_states();
        steps.push(format!(
            "(C24Chk.mk_step {} {} {} {} {})",
            coq_tree(t),
            coq_outcome(&res),
            coq_calls(&calls),
            coq_disk(&disk),
            coq_states(&states)
        ));
    }
    // snapshot right away: with untracked entries around, do not start tracking them
    let snap = if has_untracked { ws.snapshot_tracked_only() } else { ws.snapshot() };
    let snap_tree = snap.as_ref().and_then(read_tree);

    // the last tree from scratch
    let mut ws2 = Ws::new();
    prepare(&mut ws2);
    let tm2 = write_tree(&ws2.store(), trees.last().unwrap());
    let res2 = outcome(ws2.check_out(&tm2));
    panicked |= res2 == Outcome::Panic;
    let scratch = list_disk(&ws2.root);

    let (mut obs, mut obs_shape) = if rng.chance(1, 2) { real_only(&mut rng) } else { (vec![], String::new()) };
    if _i == 0 || rng.chance(1, 6) {
        obs.extend(label_observations(&mut rng, _i == 0));
        obs_shape.push_str(" +labels");
    }
    let term = coq::app(
        "C24Chk.mk_case",
        &[
            coq_disk(&disk0),
            coq_paths(&sparse),
            coq::list(steps.iter(), |s| s.clone()),
            coq::opt(snap_tree.as_ref(), coq_tree),
            coq_disk(&scratch),
            coq::list(obs.iter(), |b| coq::b(*b)),
        ],
    );
    let shape = format!(
        "steps={}{}{}{}{}",
        if n_steps >= 2 { "2+" } else { "1" },
        if is_sparse { " sparse" } else { "" },
        if has_untracked { " untracked" } else { "" },
        if all_ok { "" } else { " failed" },
        obs_shape,
    );
    let changed = trees.windows(2).any(|w| w[0] != w[1]);
    CaseOut { term, nontrivial: n_steps >= 2 && changed, shape, panicked }
}

fn main() {
    jjv::run("C24", "C24", |ctx| {
        // TestEnvironment creates its directories under TMPDIR: keep them in our scratch
        unsafe { std::env::set_var("TMPDIR", &ctx.scratch) };
        install_fs_trace();
        let outs = par_cases(ctx, run_case);
        for (i, o) in outs {
            if o.panicked {
                ctx.panicked();
            }
            ctx.emit(i, o.term, o.nontrivial, &o.shape);
        }
    });
}
