//! C39: the log graph walk (RevsetGraphWalk via DefaultReadonlyIndexRevset::iter_graph_impl)
//! on random DAGs and random shown subsets, with and without skip_transitive_edges.
#[path = "../dagrepo.rs"]
mod dagrepo;

use jj_lib::backend::CommitId;
use jj_lib::commit::Commit;
use jj_lib::default_index::DefaultReadonlyIndex;
use futures::StreamExt as _;
use jj_lib::graph::GraphEdge;
use jj_lib::graph::GraphEdgeType;
use jj_lib::graph::TopoGroupedGraph;
use jj_lib::graph::reverse_graph;
use jj_lib::repo::Repo as _;
use jj_lib::revset::ResolvedExpression;
use pollster::FutureExt as _;
use testutils::TestRepo;

fn main() {
    jjv::run("C39", "C39", |ctx| {
        dagrepo::use_scratch(&ctx.scratch);
        let settings = dagrepo::settings();
        let results = dagrepo::par_cases(&*ctx, |ctx, i| -> dagrepo::CaseOut {
            let mut rng = ctx.rng(i);
            let thorough = ctx.tier == "thorough";
            let n = if rng.chance(1, 12) {
                rng.range(1, 3) as usize
            } else {
                rng.range(4, if thorough { 60 } else { 28 }) as usize
            };
            let style = rng.below(4);
            let shape = dagrepo::random_shape(&mut rng, n, style);
            let res = jjv::catch(|| {
                let test_repo = TestRepo::init_with_settings(&settings);
                let mut repo = test_repo.repo.clone();
                let mut commits: Vec<Commit> = vec![];
                let mut k = 0;
                while k < n {
                    let size = 1 + rng.usize(n - k);
                    let mut tx = repo.start_transaction();
                    for m in k..k + size {
                        let cid = dagrepo::change_id_for(&mut rng);
                        let c = dagrepo::write_node(tx.repo_mut(), &shape, m, &commits, cid, "c39");
                        commits.push(c);
                    }
                    repo = tx.commit("c39").block_on().unwrap();
                    k += size;
                }
                let known: Vec<CommitId> = std::iter::once(repo.store().root_commit_id().clone())
                    .chain(commits.iter().map(|c| c.id().clone()))
                    .collect();
                let order = dagrepo::index_order(&repo, &known);
                let (g, pos) = dagrepo::graph_of(repo.as_ref(), &order);
                let total = g.len();
                let index: &DefaultReadonlyIndex = repo.readonly_index().downcast_ref().unwrap();
                let mut walks: Vec<String> = vec![];
                let mut stats = (0usize, 0usize, 0usize, 0usize); // direct, indirect, missing, nodes
                let nwalks = 3 + rng.usize(3);
                for w in 0..nwalks {
                    let density = *rng.pick(&[12u64, 25, 40, 60, 85, 100]);
                    let mut shown: Vec<usize> =
                        (0..total).filter(|_| rng.below(100) < density).collect();
                    if w == 0 && rng.chance(1, 6) {
                        shown = (0..total).collect(); // everything: only direct edges
                    }
                    if rng.chance(1, 10) {
                        shown.retain(|&x| x != 0); // without the root commit
                    }
                    rng.shuffle(&mut shown);
                    let skip = rng.chance(1, 2);
                    let ids: Vec<CommitId> = shown.iter().map(|&x| order[x].clone()).collect();
                    let expression = ResolvedExpression::Commits(ids);
                    let revset = index.evaluate_revset_impl(&expression, repo.store()).unwrap();
                    let raw: Vec<(CommitId, Vec<GraphEdge<CommitId>>)> =
                        revset.iter_graph_impl(skip).map(|n| n.unwrap()).collect();
                    let mut render = |list: &[(CommitId, Vec<GraphEdge<CommitId>>)], count: bool| -> String {
                        let mut nodes: Vec<String> = vec![];
                        for (id, edges) in list {
                            let es: Vec<String> = edges
                                .iter()
                                .map(|e| {
                                    let k = match e.edge_type {
                                        GraphEdgeType::Direct => {
                                            if count { stats.0 += 1; }
                                            "Direct"
                                        }
                                        GraphEdgeType::Indirect => {
                                            if count { stats.1 += 1; }
                                            "Indirect"
                                        }
                                        GraphEdgeType::Missing => {
                                            if count { stats.2 += 1; }
                                            "Missing"
                                        }
                                    };
                                    format!("({}, {})", pos[&e.target], k)
                                })
                                .collect();
                            if count { stats.3 += 1; }
                            nodes.push(format!("({}, [{}])", pos[id], es.join("; ")));
                        }
                        format!("[{}]", nodes.join("; "))
                    };
                    if skip {
                        // the public trait path (Revset::stream_graph) is the same walk
                        let rs = jj_lib::revset::ResolvedRevsetExpression::commits(
                            shown.iter().map(|&x| order[x].clone()).collect(),
                        )
                        .evaluate(repo.as_ref())
                        .unwrap();
                        let public: Vec<(CommitId, Vec<GraphEdge<CommitId>>)> =
                            rs.stream_graph().map(|n| n.unwrap()).collect::<Vec<_>>().block_on();
                        assert!(public == raw, "Revset::stream_graph differs from iter_graph_impl(true)");
                    }
                    let stream_s = render(&raw, true);
                    // the adapters `jj log` puts on top of the stream
                    let topo: Vec<(CommitId, Vec<GraphEdge<CommitId>>)> = TopoGroupedGraph::new(
                        futures::stream::iter(raw.clone().into_iter().map(Ok::<_, std::convert::Infallible>)),
                        |id: &CommitId| id,
                    )
                    .stream()
                    .map(|n| n.unwrap())
                    .collect::<Vec<_>>()
                    .block_on();
                    let reversed = reverse_graph(
                        raw.clone().into_iter().map(Ok::<_, std::convert::Infallible>),
                        |id: &CommitId| id,
                    )
                    .unwrap();
                    // the same with one branch prioritized
                    let prio_s = if raw.is_empty() {
                        "None".to_string()
                    } else {
                        let x = raw[rng.usize(raw.len())].0.clone();
                        let mut tg = TopoGroupedGraph::new(
                            futures::stream::iter(raw.clone().into_iter().map(Ok::<_, std::convert::Infallible>)),
                            |id: &CommitId| id,
                        );
                        tg.prioritize_branch(x.clone());
                        let out: Vec<(CommitId, Vec<GraphEdge<CommitId>>)> =
                            tg.stream().map(|n| n.unwrap()).collect::<Vec<_>>().block_on();
                        format!("(Some ({}, {}))", pos[&x], render(&out, false))
                    };
                    let topo_s = render(&topo, false);
                    let rev_s = render(&reversed, false);
                    walks.push(format!(
                        "(mk_walk {} {} {} (Some {}) (Some {}) {})",
                        dagrepo::coq_nats(&shown),
                        jjv::coq::b(skip),
                        stream_s,
                        topo_s,
                        rev_s,
                        prio_s
                    ));
                }
                (g, walks, stats)
            });
            match res {
                Some((g, walks, stats)) => {
                    let term = format!(
                        "(mk_case {} [{}] false)%nat",
                        dagrepo::coq_graph(&g),
                        walks.join("; ")
                    );
                    let merges = g.iter().filter(|ps| ps.len() > 1).count();
                    let shape_s = format!(
                        "n{} {}{}{}",
                        match g.len() { 0..=5 => "<=5", 6..=15 => "6-15", _ => ">15" },
                        if merges > 0 { "merges " } else { "" },
                        if stats.1 > 0 { "indirect " } else { "" },
                        if stats.2 > 1 { "missing" } else { "" }
                    );
                    dagrepo::CaseOut {
                        term,
                        nontrivial: stats.3 >= 6 && stats.1 >= 1,
                        shape: shape_s.trim().to_string(),
                        panicked: false,
                    }
                }
                None => dagrepo::CaseOut {
                    term: "(mk_case [] [] true)".to_string(),
                    nontrivial: false,
                    shape: "panic".to_string(),
                    panicked: true,
                },
            }
        });
        for (i, r) in results {
            if r.panicked {
                ctx.panicked();
            }
            ctx.emit(i, r.term, r.nontrivial, &r.shape);
        }
    });
}
