//! C02: trivial_merge / Merge::resolve_trivial on u8 terms, both same-change settings.
use jj_lib::merge::Merge;
use jj_lib::merge::SameChange;
use jj_lib::merge::trivial_merge;
use jjv::coq;

fn main() {
    jjv::run("C02", "C02", |ctx| {
        // supplement: exhaustive arity <= 5 over 3 values (3 + 27 + 243 merges) x 2 settings,
        // then seeded random merges of arity up to 21
        let mut exhaustive: Vec<Vec<u8>> = vec![];
        for len in [1usize, 3, 5] {
            let total = 3usize.pow(len as u32);
            for code in 0..total {
                let mut c = code;
                let mut v = vec![];
                for _ in 0..len {
                    v.push((c % 3) as u8);
                    c /= 3;
                }
                exhaustive.push(v);
            }
        }
        for i in ctx.indices() {
            let mut rng = ctx.rng(i);
            let (terms, accept) = if i / 2 < exhaustive.len() && ctx.tier != "replay" {
                (exhaustive[i / 2].clone(), i % 2 == 1)
            } else {
                let sides = 1 + rng.below(3) + rng.geometric(8);
                let len = (2 * sides - 1) as usize;
                let alphabet = rng.range(2, 4);
                let mut t: Vec<u8> = (0..len).map(|_| rng.below(alphabet) as u8).collect();
                if rng.chance(1, 4) && len >= 5 {
                    // pad with a cancelling pair at random add/remove positions
                    let a = 2 * rng.usize(len / 2 + 1);
                    let r = 2 * rng.usize(len / 2) + 1;
                    t[a] = 9;
                    t[r] = 9;
                }
                (t, rng.chance(1, 2))
            };
            let sc = if accept { SameChange::Accept } else { SameChange::Keep };
            let res = jjv::catch(|| trivial_merge(&terms, sc).copied());
            let res2 = jjv::catch(|| Merge::from_vec(terms.clone()).resolve_trivial(sc).copied());
            let (result, panicked) = match (res, res2) {
                (Some(r), Some(r2)) if r == r2 => (r, false),
                _ => {
                    ctx.panicked();
                    (None, true)
                }
            };
            let term = coq::app(
                "C02.mk_case",
                &[
                    coq::list(terms.iter(), |x| coq::n(*x as u64)),
                    coq::b(accept),
                    coq::opt(result, |x| coq::n(x as u64)),
                    coq::b(panicked),
                ],
            );
            let shape = format!(
                "arity={} accept={} {}",
                terms.len().min(9),
                accept,
                if result.is_some() { "resolved" } else { "unresolved" }
            );
            ctx.emit(i, term, terms.len() >= 3, &shape);
        }
    });
}
