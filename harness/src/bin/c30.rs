//! C30: matcher directory pruning. Random matcher expressions over the real
//! Files/Prefix/Globs/Everything/Nothing matchers under Union/Intersection/Difference;
//! `matches` at every query path and `visit` at every directory prefix are recorded.
//! Glob verdicts (code jj does not own) are recorded from single-pattern matchers.
use jj_lib::fileset::FilePattern;
use jj_lib::matchers::DifferenceMatcher;
use jj_lib::matchers::EverythingMatcher;
use jj_lib::matchers::FilesMatcher;
use jj_lib::matchers::GlobsMatcher;
use jj_lib::matchers::IntersectionMatcher;
use jj_lib::matchers::Matcher;
use jj_lib::matchers::NothingMatcher;
use jj_lib::matchers::PrefixMatcher;
use jj_lib::matchers::UnionMatcher;
use jj_lib::matchers::Visit;
use jj_lib::matchers::VisitDirs;
use jj_lib::matchers::VisitFiles;
use jj_lib::repo_path::RepoPath;
use jj_lib::repo_path::RepoPathBuf;
use jjv::Rng;
use jjv::coq;

const NAMES: &[&str] = &["a", "b", "ab", "c", "A"];
/// Globs as the fileset layer can produce them (first component has a glob character).
const GLOBS: &[&str] = &[
    "*", "?", "a*", "*b", "**", "*/c", "{a,b}", "{,a}", "[ab]", "**/c", "*/*", "{a,ab}/**",
    "{,a}*", "?*",
];

type P = Vec<usize>;

fn rp(p: &[usize]) -> RepoPathBuf {
    let s = p.iter().map(|i| NAMES[*i]).collect::<Vec<_>>().join("/");
    RepoPathBuf::from_internal_string(s).unwrap()
}

fn name_id(s: &str) -> u64 {
    NAMES.iter().position(|n| *n == s).expect("known name") as u64
}

fn coq_path(p: &[usize]) -> String {
    coq::list(p.iter(), |i| coq::n(*i as u64))
}

#[derive(Clone, Debug)]
enum E {
    Nothing,
    Everything,
    Files(Vec<P>),
    Prefix(Vec<P>),
    Globs(bool, Vec<(P, usize)>),
    Union(Box<E>, Box<E>),
    Inter(Box<E>, Box<E>),
    Diff(Box<E>, Box<E>),
}

fn rand_path(rng: &mut Rng, max: usize) -> P {
    let k = rng.usize(max + 1);
    (0..k).map(|_| rng.usize(NAMES.len())).collect()
}

/// A path for a leaf matcher: mostly a member of the case's universe or a prefix of one,
/// so that different leaves talk about the same paths.
fn leaf_path(rng: &mut Rng, universe: &[P], max: usize) -> P {
    if rng.chance(1, 4) || universe.is_empty() {
        rand_path(rng, max)
    } else {
        let mut p = rng.pick(universe).clone();
        if rng.chance(1, 2) {
            let k = rng.usize(p.len() + 1);
            p.truncate(k);
        }
        p.truncate(max.max(1));
        p
    }
}

fn gen_expr(rng: &mut Rng, depth: usize, pool: &mut Vec<P>, universe: &[P]) -> E {
    let leaf = depth == 0 || rng.chance(1, 4);
    if leaf {
        match rng.below(12) {
            0 => E::Nothing,
            1 => E::Everything,
            2..=5 => {
                let k = rng.usize(5);
                let v: Vec<P> = (0..k).map(|_| leaf_path(rng, universe, 4)).collect();
                pool.extend(v.iter().cloned());
                E::Files(v)
            }
            6..=8 => {
                let k = rng.usize(3);
                let v: Vec<P> = (0..k).map(|_| leaf_path(rng, universe, 3)).collect();
                pool.extend(v.iter().cloned());
                E::Prefix(v)
            }
            _ => {
                let k = 1 + rng.usize(3);
                let v: Vec<(P, usize)> = (0..k)
                    .map(|_| (leaf_path(rng, universe, 2), rng.usize(GLOBS.len())))
                    .collect();
                pool.extend(v.iter().map(|(d, _)| d.clone()));
                E::Globs(rng.chance(1, 2), v)
            }
        }
    } else {
        let a = Box::new(gen_expr(rng, depth - 1, pool, universe));
        let b = Box::new(gen_expr(rng, depth - 1, pool, universe));
        match rng.below(3) {
            0 => E::Union(a, b),
            1 => E::Inter(a, b),
            _ => E::Diff(a, b),
        }
    }
}

struct Globs {
    globs: Vec<FilePattern>,
}

impl Globs {
    fn new() -> Self {
        let globs = GLOBS
            .iter()
            .map(|g| {
                let pat = FilePattern::root_file_glob(g).expect("valid glob");
                match &pat {
                    FilePattern::FileGlob { dir, .. } => assert!(dir.is_root(), "glob {g} splits"),
                    _ => panic!("{g} is not a glob pattern"),
                }
                pat
            })
            .collect();
        Globs { globs }
    }

    fn single(&self, pid: usize, prefix_mode: bool) -> GlobsMatcher {
        let FilePattern::FileGlob { pattern, .. } = &self.globs[pid] else {
            unreachable!()
        };
        let mut b = GlobsMatcher::builder().prefix_paths(prefix_mode);
        b.add(RepoPath::root(), pattern);
        b.build()
    }
}

fn build(e: &E, g: &Globs) -> Box<dyn Matcher> {
    match e {
        E::Nothing => Box::new(NothingMatcher),
        E::Everything => Box::new(EverythingMatcher),
        E::Files(v) => Box::new(FilesMatcher::new(v.iter().map(|p| rp(p)))),
        E::Prefix(v) => Box::new(PrefixMatcher::new(v.iter().map(|p| rp(p)))),
        E::Globs(pm, v) => {
            let dirs: Vec<RepoPathBuf> = v.iter().map(|(d, _)| rp(d)).collect();
            let mut b = GlobsMatcher::builder().prefix_paths(*pm);
            for (i, (_, pid)) in v.iter().enumerate() {
                let FilePattern::FileGlob { pattern, .. } = &g.globs[*pid] else {
                    unreachable!()
                };
                b.add(&dirs[i], pattern);
            }
            Box::new(b.build())
        }
        E::Union(a, b) => Box::new(UnionMatcher::new(build(a, g), build(b, g))),
        E::Inter(a, b) => Box::new(IntersectionMatcher::new(build(a, g), build(b, g))),
        E::Diff(a, b) => Box::new(DifferenceMatcher::new(build(a, g), build(b, g))),
    }
}

fn coq_expr(e: &E) -> String {
    match e {
        E::Nothing => "C30.MNothing".into(),
        E::Everything => "C30.MEverything".into(),
        E::Files(v) => coq::app("C30.MFiles", &[coq::list(v.iter(), |p| coq_path(p))]),
        E::Prefix(v) => coq::app("C30.MPrefix", &[coq::list(v.iter(), |p| coq_path(p))]),
        E::Globs(pm, v) => coq::app(
            "C30.MGlobs",
            &[
                coq::b(*pm),
                coq::list(v.iter(), |(d, pid)| coq::pair(coq_path(d), coq::n(*pid as u64))),
            ],
        ),
        E::Union(a, b) => coq::app("C30.MUnion", &[coq_expr(a), coq_expr(b)]),
        E::Inter(a, b) => coq::app("C30.MIntersection", &[coq_expr(a), coq_expr(b)]),
        E::Diff(a, b) => coq::app("C30.MDifference", &[coq_expr(a), coq_expr(b)]),
    }
}

fn pids(e: &E, out: &mut Vec<(bool, usize)>) {
    match e {
        E::Globs(pm, v) => {
            for (_, pid) in v {
                if !out.contains(&(*pm, *pid)) {
                    out.push((*pm, *pid));
                }
            }
        }
        E::Union(a, b) | E::Inter(a, b) | E::Diff(a, b) => {
            pids(a, out);
            pids(b, out);
        }
        _ => {}
    }
}

fn kinds(e: &E, out: &mut [bool; 8]) {
    match e {
        E::Nothing => out[0] = true,
        E::Everything => out[1] = true,
        E::Files(_) => out[2] = true,
        E::Prefix(_) => out[3] = true,
        E::Globs(false, _) => out[4] = true,
        E::Globs(true, _) => out[5] = true,
        E::Union(a, b) | E::Inter(a, b) | E::Diff(a, b) => {
            out[6] = true;
            kinds(a, out);
            kinds(b, out);
        }
    }
}

fn coq_vset<'a>(all: bool, set: impl Iterator<Item = &'a str>) -> String {
    if all {
        "C30.VAll".into()
    } else {
        let mut v: Vec<u64> = set.map(name_id).collect();
        v.sort();
        coq::app("C30.VSet", &[coq::list(v.iter(), |x| coq::n(*x))])
    }
}

fn coq_visit(v: &Visit) -> String {
    match v {
        Visit::AllRecursively => "C30.AllRecursively".into(),
        Visit::Nothing => "C30.VNothing".into(),
        Visit::Specific { dirs, files } => {
            let d = match dirs {
                VisitDirs::All => coq_vset(true, std::iter::empty()),
                VisitDirs::Set(s) => coq_vset(false, s.iter().map(|c| c.as_internal_str())),
            };
            let f = match files {
                VisitFiles::All => coq_vset(true, std::iter::empty()),
                VisitFiles::Set(s) => coq_vset(false, s.iter().map(|c| c.as_internal_str())),
            };
            coq::app("C30.Specific", &[d, f])
        }
    }
}

fn main() {
    jjv::run("C30", "C30", |ctx| {
        let globs = Globs::new();
        for i in ctx.indices() {
            let mut rng = ctx.rng(i);
            let depth = if rng.chance(1, 8) { 0 } else { 1 + rng.usize(4) };
            let universe: Vec<P> = (0..(3 + rng.usize(4)))
                .map(|_| {
                    let k = 1 + rng.usize(4);
                    (0..k).map(|_| rng.usize(NAMES.len())).collect()
                })
                .collect();
            let mut pool: Vec<P> = universe.clone();
            let e = gen_expr(&mut rng, depth, &mut pool, &universe);
            // query paths: random ones, literal paths of the expression, and extensions of them
            let mut queries: Vec<P> = vec![];
            for _ in 0..(2 + rng.usize(3)) {
                queries.push(rand_path(&mut rng, 4));
            }
            rng.shuffle(&mut pool);
            for p in pool.iter().take(7) {
                queries.push(p.clone());
                let mut q = p.clone();
                for _ in 0..(1 + rng.usize(2)) {
                    q.push(rng.usize(NAMES.len()));
                }
                q.truncate(5);
                queries.push(q);
            }
            queries.sort();
            queries.dedup();
            let mut dirs: Vec<P> = vec![];
            for q in &queries {
                for j in 0..=q.len() {
                    dirs.push(q[..j].to_vec());
                }
            }
            dirs.sort();
            dirs.dedup();
            // every directory is also asked as a file path
            let mut files = dirs.clone();
            files.sort();
            files.dedup();

            let mut panicked = false;
            let matcher = jjv::catch(|| build(&e, &globs));
            let mut match_terms = vec![];
            let mut visit_terms = vec![];
            let (mut n_match, mut n_all, mut n_nothing, mut n_specific) = (0, 0, 0, 0);
            if let Some(m) = &matcher {
                for f in &files {
                    match jjv::catch(|| m.matches(&rp(f))) {
                        Some(b) => {
                            n_match += b as usize;
                            match_terms.push(coq::pair(coq_path(f), coq::b(b)));
                        }
                        None => panicked = true,
                    }
                }
                for d in &dirs {
                    match jjv::catch(|| m.visit(&rp(d))) {
                        Some(v) => {
                            match &v {
                                Visit::AllRecursively => n_all += 1,
                                Visit::Nothing => n_nothing += 1,
                                Visit::Specific { .. } => n_specific += 1,
                            }
                            visit_terms.push(coq::pair(coq_path(d), coq_visit(&v)));
                        }
                        None => panicked = true,
                    }
                }
            } else {
                panicked = true;
            }
            // glob oracle on every contiguous sub-range of every query path
            let mut used = vec![];
            pids(&e, &mut used);
            let mut tails: Vec<P> = vec![vec![]];
            for q in &queries {
                for a in 0..q.len() {
                    for b in (a + 1)..=q.len() {
                        tails.push(q[a..b].to_vec());
                    }
                }
            }
            tails.sort();
            tails.dedup();
            let mut glob_terms = vec![];
            for (pm, pid) in &used {
                let single = globs.single(*pid, *pm);
                for t in &tails {
                    let verdict = if *pm {
                        let by_visit = single.visit(&rp(t)) == Visit::AllRecursively;
                        if !t.is_empty() && single.matches(&rp(t)) != by_visit {
                            ctx.note(format!(
                                "prefix regex of glob {} disagrees between visit and matches on {:?}",
                                GLOBS[*pid], t
                            ));
                            panicked = true;
                        }
                        by_visit
                    } else {
                        !t.is_empty() && single.matches(&rp(t))
                    };
                    if verdict {
                        glob_terms.push(format!(
                            "({}, {}, {})",
                            coq::b(*pm),
                            coq::n(*pid as u64),
                            coq_path(t)
                        ));
                    }
                }
            }
            if panicked {
                ctx.panicked();
            }
            let term = coq::app(
                "C30.mk_case",
                &[
                    coq_expr(&e),
                    coq::list(glob_terms.iter(), |t| t.clone()),
                    coq::list(match_terms.iter(), |t| t.clone()),
                    coq::list(visit_terms.iter(), |t| t.clone()),
                    coq::b(panicked),
                ],
            );
            let mut k = [false; 8];
            kinds(&e, &mut k);
            let shape = format!(
                "depth={} globs={} visit_kinds={}",
                match depth {
                    0 => "0",
                    1 | 2 => "1-2",
                    _ => "3-4",
                },
                if k[5] { "prefix" } else if k[4] { "file" } else { "none" },
                (n_all > 0) as usize + (n_specific > 0) as usize + (n_nothing > 0) as usize,
            );
            let kinds_seen = (n_all > 0) as usize + (n_specific > 0) as usize + (n_nothing > 0) as usize;
            let nontrivial = k[6] && n_match > 0 && kinds_seen >= 2;
            ctx.emit(i, term, nontrivial, &shape);
        }
    });
}
