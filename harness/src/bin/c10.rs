//! C10: random sequences of MutableRepo mutations (commit creation, add_heads, bookmark edits,
//! working-copy edits, rewrites, abandons, descendant rebasing) over several transactions; the
//! view returned by every Transaction::commit and the final commit graph are recorded.
#[path = "../viewdrv.rs"]
mod viewdrv;

use jjv::coq;
use viewdrv::Driver;
use viewdrv::Op;
use viewdrv::Opts;
use viewdrv::Outcome;

/// Strict descendants-or-self of `x` given the parent lists.
fn descendants(parents: &[Vec<usize>], x: usize) -> Vec<bool> {
    let mut d = vec![false; parents.len()];
    d[x] = true;
    for i in x + 1..parents.len() {
        if parents[i].iter().any(|p| d[*p]) {
            d[i] = true;
        }
    }
    d
}

fn main() {
    jjv::run("C10", "C10", |ctx| {
        unsafe { std::env::set_var("TMPDIR", &ctx.scratch) };
        if std::env::var("VERIF_DEBUG").is_ok() {
            std::panic::set_hook(Box::new(|info| eprintln!("panic: {info}")));
        }
        for i in ctx.indices() {
            let mut rng = ctx.rng(i);
            let mut d = Driver::new();
            let mut parents: Vec<Vec<usize>> = vec![vec![]];
            let mut desc_counter = 0u64;
            let n_tx = 1 + rng.usize(4);
            let mut outcome = Outcome::Ok;
            let mut kinds = std::collections::BTreeSet::new();
            let mut fast = 0usize;
            let edge_root = rng.chance(1, 40);
            let corpus = corpus();
            if i < corpus.len() {
                for op in &corpus[i] {
                    kinds.insert(op.kind());
                    outcome = d.apply(op.clone());
                    if outcome != Outcome::Ok {
                        break;
                    }
                }
            } else if rng.chance(1, 5) && !merge_pool(&mut rng, &mut d, &mut desc_counter, &mut outcome) {
                kinds.insert("mergepool");
            } else {
            if !d.ops.is_empty() {
                kinds.insert("mergepool");
                kinds.insert("rebase");
            }
            'outer: for _t in 0..n_tx {
                let n_ops = 1 + rng.usize(7);
                for _k in 0..n_ops {
                    let n = d.n();
                    while parents.len() < n {
                        let c = &d.commits[parents.len()];
                        let ps: Vec<usize> = c
                            .parent_ids()
                            .iter()
                            .map(|p| d.commits.iter().position(|x| x.id() == p).unwrap())
                            .collect();
                        parents.push(ps);
                    }
                    let view = d.current_view();
                    // pick a commit: bias to heads and recent ones
                    let pick = |rng: &mut jjv::Rng, allow_root: bool| -> usize {
                        let lo = if allow_root { 0 } else { 1 };
                        if n <= lo {
                            return 0;
                        }
                        let r = rng.below(10);
                        let c = if r < 4 && !view.heads.is_empty() {
                            *rng.pick(&view.heads)
                        } else if r < 7 {
                            n - 1 - rng.usize((n - lo).min(3))
                        } else {
                            lo + rng.usize(n - lo)
                        };
                        if c < lo { lo.min(n - 1) } else { c }
                    };
                    let choice = rng.below(100);
                    let op = if n == 1 || choice < 28 {
                        let np = if rng.chance(1, 4) && n > 2 { 2 } else { 1 };
                        let mut ps = vec![];
                        for _ in 0..np {
                            let p = pick(&mut rng, true);
                            if !ps.contains(&p) {
                                ps.push(p);
                            }
                        }
                        let desc = if rng.chance(1, 4) {
                            0
                        } else {
                            desc_counter += 1;
                            desc_counter
                        };
                        Op::New { ps, desc, empty: rng.chance(1, 3) }
                    } else if choice < 36 {
                        let k = 1 + rng.usize(3);
                        let mut hs = vec![];
                        for _ in 0..k {
                            let h = if edge_root && rng.chance(1, 3) { 0 } else { pick(&mut rng, false) };
                            hs.push(h);
                        }
                        Op::AddHeads(hs)
                    } else if choice < 52 {
                        let name = 1 + rng.below(3);
                        let r = rng.below(10);
                        let target = if r < 2 {
                            vec![None]
                        } else if r < 7 {
                            vec![Some(pick(&mut rng, true))]
                        } else if r < 9 {
                            let a = pick(&mut rng, false);
                            let b = pick(&mut rng, true);
                            let c = pick(&mut rng, false);
                            vec![Some(a), Some(b), Some(c)]
                        } else {
                            let a = pick(&mut rng, false);
                            let c = pick(&mut rng, false);
                            vec![Some(a), None, Some(c)]
                        };
                        Op::SetBookmark { name, target }
                    } else if choice < 62 {
                        let c = if rng.chance(1, 60) { 0 } else { pick(&mut rng, false) };
                        Op::Edit { ws: 1 + rng.below(2), c }
                    } else if choice < 72 {
                        Op::CheckOut { ws: 1 + rng.below(2), c: pick(&mut rng, true) }
                    } else if choice < 76 {
                        Op::RemoveWs(1 + rng.below(2))
                    } else if choice < 88 {
                        let old = pick(&mut rng, false);
                        desc_counter += 1;
                        let ps = if rng.chance(1, 2) {
                            None
                        } else {
                            // not onto a descendant of any commit of the same change (that would
                            // ask for a commit to be rebased onto itself)
                            let ch = d.commits[old].change_id().clone();
                            let mut dsc = vec![false; n];
                            for x in 0..n {
                                if d.commits[x].change_id() == &ch {
                                    for (j, b) in descendants(&parents, x).iter().enumerate() {
                                        dsc[j] |= *b;
                                    }
                                }
                            }
                            let cands: Vec<usize> =
                                (0..n).filter(|x| rng_ok(&dsc, *x)).collect();
                            if cands.is_empty() || rng.chance(1, 40) {
                                Some(vec![pick(&mut rng, true)])
                            } else {
                                let mut ps = vec![*rng.pick(&cands)];
                                if rng.chance(1, 5) {
                                    let q = *rng.pick(&cands);
                                    if !ps.contains(&q) {
                                        ps.push(q);
                                    }
                                }
                                Some(ps)
                            }
                        };
                        Op::Rewrite { old, ps, desc: desc_counter }
                    } else if choice < 97 {
                        Op::Abandon(pick(&mut rng, false))
                    } else {
                        // divergent rewrite: two rewrites of the same commit, then the record
                        let old = pick(&mut rng, false);
                        desc_counter += 2;
                        let o1 = d.apply(Op::Rewrite { old, ps: None, desc: desc_counter - 1 });
                        let o2 = if o1 == Outcome::Ok {
                            d.apply(Op::Rewrite { old, ps: None, desc: desc_counter })
                        } else {
                            o1
                        };
                        if o2 != Outcome::Ok {
                            outcome = o2;
                            break 'outer;
                        }
                        let k = d.n();
                        Op::Divergent(old, vec![k - 2, k - 1])
                    };
                    if let Op::New { ps, .. } = &op {
                        if ps.iter().all(|p| view.heads.contains(p)) {
                            fast += 1;
                        }
                    }
                    kinds.insert(op.kind());
                    outcome = d.apply(op);
                    if outcome != Outcome::Ok {
                        break 'outer;
                    }
                }
                if d.has_rewrites() {
                    let o = if rng.chance(3, 4) {
                        Opts { imm: vec![], empty: 0, delete_abandoned: false, simplify: false, oracle: vec![] }
                    } else {
                        Opts {
                            imm: vec![],
                            empty: rng.below(3) as u8,
                            delete_abandoned: rng.chance(1, 2),
                            simplify: rng.chance(1, 2),
                            oracle: vec![],
                        }
                    };
                    kinds.insert("rebase");
                    outcome = d.apply(Op::Rebase(o));
                    if outcome != Outcome::Ok {
                        break 'outer;
                    }
                }
                outcome = d.apply(Op::Commit);
                if outcome != Outcome::Ok {
                    break 'outer;
                }
            }
            }
            if outcome == Outcome::Panic {
                ctx.panicked();
            }
            let graph = d.graph();
            let term = coq::app(
                "C10.mk_case",
                &[
                    viewdrv::ops_term(&d.ops),
                    coq::n(match outcome {
                        Outcome::Ok => 0,
                        Outcome::Err => 1,
                        Outcome::Panic => 2,
                    }),
                    coq::list(d.views.iter(), |v| v.term()),
                    coq::list(graph.iter(), |c| c.term()),
                ],
            );
            if d.untracked > 0 {
                ctx.note(format!("case {i}: {} commits appeared that the driver did not see created", d.untracked));
            }
            let shape = format!(
                "tx={} out={:?} rebase={} wc={} bm={} mergepool={}",
                d.views.len().min(4),
                outcome,
                kinds.contains("rebase"),
                kinds.contains("edit") || kinds.contains("checkout"),
                kinds.contains("bookmark"),
                kinds.contains("mergepool") || (i >= 3 && i <= 6)
            );
            let _ = fast;
            let nontrivial = d.views.len() >= 1 && d.n() >= 3;
            ctx.emit(i, term, nontrivial, &shape);
        }
    });
}

fn dflt() -> Opts {
    Opts { imm: vec![], empty: 0, delete_abandoned: false, simplify: false, oracle: vec![] }
}

/// Pool "merge over a hidden commit": builds heads {H, P} (H possibly on top of a visible
/// non-head V), a hidden chain K.. below P's descendants (created on top of P, then abandoned),
/// and then writes (or re-adds with add_heads) a merge commit whose parent list mixes the current
/// head H, a hidden commit descending from the OTHER head P, and optionally the visible non-head
/// V, in a random order. Not every parent is a head, so add_heads must take the general path and
/// the commit must normalize P away. Returns false if an operation failed.
fn merge_pool(rng: &mut jjv::Rng, d: &mut Driver, desc_counter: &mut u64, outcome: &mut Outcome) -> bool {
    let mut run = |d: &mut Driver, op: Op| -> bool {
        *outcome = d.apply(op);
        *outcome == Outcome::Ok
    };
    let mut next = |c: &mut u64| {
        *c += 1;
        *c
    };
    let base = d.n();
    // V (visible non-head, optional) and H (head)
    let with_v = rng.chance(1, 2);
    if !run(d, Op::New { ps: vec![0], desc: next(desc_counter), empty: false }) { return false; }
    let v = base;
    let h = if with_v {
        if !run(d, Op::New { ps: vec![v], desc: next(desc_counter), empty: rng.chance(1, 3) }) { return false; }
        d.n() - 1
    } else {
        v
    };
    // P (the other head) and the chain K1 (.. K2) on top of it
    if !run(d, Op::New { ps: vec![0], desc: next(desc_counter), empty: false }) { return false; }
    let p = d.n() - 1;
    if !run(d, Op::New { ps: vec![p], desc: next(desc_counter), empty: false }) { return false; }
    let k1 = d.n() - 1;
    let deep = rng.chance(1, 3);
    let k = if deep {
        if !run(d, Op::New { ps: vec![k1], desc: next(desc_counter), empty: false }) { return false; }
        d.n() - 1
    } else {
        k1
    };
    let readd = rng.chance(1, 3);
    let mut ps = vec![h, k];
    if with_v && rng.chance(1, 2) {
        ps.push(v);
    }
    rng.shuffle(&mut ps);
    let mut x = 0usize;
    if readd {
        // the merge commit exists already and is hidden together with the chain
        if !run(d, Op::New { ps: ps.clone(), desc: next(desc_counter), empty: rng.chance(1, 3) }) { return false; }
        x = d.n() - 1;
    }
    if !run(d, Op::Commit) { return false; }
    if readd && !run(d, Op::Abandon(x)) { return false; }
    if deep && !run(d, Op::Abandon(k)) { return false; }
    if !run(d, Op::Abandon(k1)) { return false; }
    if !run(d, Op::Rebase(dflt())) { return false; }
    if !run(d, Op::Commit) { return false; }
    // now the heads are {H, P} and K (and X) are hidden
    if readd {
        if !run(d, Op::AddHeads(vec![x])) { return false; }
    } else if !run(d, Op::New { ps, desc: next(desc_counter), empty: rng.chance(1, 3) }) {
        return false;
    }
    run(d, Op::Commit)
}

/// Hand-written edge cases, always run first.
fn corpus() -> Vec<Vec<Op>> {
    let new = |ps: &[usize], desc: u64| Op::New { ps: ps.to_vec(), desc, empty: false };
    vec![
        // add_head(root) takes the replace_heads fast path (the root has no parents)
        vec![new(&[0], 1), Op::Commit, Op::AddHeads(vec![0]), Op::Commit],
        // the same in the transaction that created the first commit
        vec![new(&[0], 1), Op::AddHeads(vec![0]), Op::Commit],
        // add_heads slow path with redundant ancestors
        vec![new(&[0], 1), new(&[1], 2), new(&[0], 3), Op::Commit, Op::AddHeads(vec![1, 2, 0]), Op::Commit],
        // merge commit whose parents mix a current head (1) and a hidden commit (3) that descends
        // from ANOTHER current head (2): not every parent is a head, so the general path must
        // normalize (heads = {4}; an `any`-parent fast path would leave 2 next to its descendant 4)
        vec![
            new(&[0], 1), new(&[0], 2), new(&[2], 3), Op::Commit,
            Op::Abandon(3), Op::Rebase(dflt()), Op::Commit,
            new(&[1, 3], 4), Op::Commit,
        ],
        // the same with the head last
        vec![
            new(&[0], 1), new(&[0], 2), new(&[2], 3), Op::Commit,
            Op::Abandon(3), Op::Rebase(dflt()), Op::Commit,
            new(&[3, 1], 4), Op::Commit,
        ],
        // three parents: current head (2), hidden descendant (4) of another head (3), visible non-head (1)
        vec![
            new(&[0], 1), new(&[1], 2), new(&[0], 3), new(&[3], 4), Op::Commit,
            Op::Abandon(4), Op::Rebase(dflt()), Op::Commit,
            new(&[2, 4, 1], 5), Op::Commit,
        ],
        // add_heads of an EXISTING hidden merge commit (4) with parents [head 1, hidden 3 below head 2]
        vec![
            new(&[0], 1), new(&[0], 2), new(&[2], 3), new(&[1, 3], 4), Op::Commit,
            Op::Abandon(4), Op::Abandon(3), Op::Rebase(dflt()), Op::Commit,
            Op::AddHeads(vec![4]), Op::Commit,
        ],
        // bookmark on a hidden commit makes it visible again
        vec![
            new(&[0], 1),
            new(&[1], 2),
            Op::Commit,
            Op::Abandon(2),
            Op::Rebase(Opts { imm: vec![], empty: 0, delete_abandoned: false, simplify: false, oracle: vec![] }),
            Op::Commit,
            Op::SetBookmark { name: 1, target: vec![Some(2)] },
            Op::Commit,
        ],
        // a conflicted bookmark that adds the same commit (1) twice; then that commit is rewritten
        vec![
            new(&[0], 1), new(&[0], 2), new(&[0], 3),
            Op::SetBookmark { name: 1, target: vec![Some(1), Some(2), Some(1), Some(2), Some(3)] },
            Op::Commit,
            Op::Rewrite { old: 1, ps: None, desc: 4 },
            Op::Rebase(dflt()),
            Op::Commit,
        ],
    ]
}

fn rng_ok(desc: &[bool], x: usize) -> bool {
    !desc[x]
}
