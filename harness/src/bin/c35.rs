//! C35: escape_string / format_string / format_symbol / format_remote_symbol and the real
//! revset, fileset and template parsers on their output (and on arbitrary symbol-like text).
use jj_cli::template_parser as tpp;
use jj_lib::dsl_util;
use jj_lib::fileset::verif_fileset_parser as fsp;
use jj_lib::revset;
use jjv::Rng;
use jjv::coq;

fn hexcps(s: &str) -> String {
    let mut o = String::from("\"");
    for c in s.chars() {
        o.push_str(&format!("{:06x}", c as u32));
    }
    o.push('"');
    o
}

fn cps(s: &str) -> String {
    format!("(u {})", hexcps(s))
}

fn flags(bs: impl IntoIterator<Item = bool>) -> String {
    let mut o = String::from("\"");
    for b in bs {
        o.push(if b { '1' } else { '0' });
    }
    o.push('"');
    o
}

/// Oracle: does the real revset grammar's `identifier_part` accept `c`?  Observed through
/// format_symbol (which calls revset_parser::is_identifier) on the one-character string.
fn ident_part_real(c: char) -> bool {
    let s = c.to_string();
    revset::format_symbol(&s) == s
}

/// XID_CONTINUE as far as it is observable: identifier_part minus the three literal chars
/// ('_' is XID_CONTINUE itself; '*' and '/' are not, and the model ORs them in anyway).
fn xid_oracle(c: char) -> bool {
    if c == '*' || c == '/' { false } else { ident_part_real(c) }
}

fn oracle_table(texts: &[&str]) -> String {
    let mut cs: Vec<char> = vec!['"', '@', '\''];
    for t in texts {
        for c in t.chars() {
            if !cs.contains(&c) {
                cs.push(c);
            }
        }
    }
    let text: String = cs.iter().collect();
    format!("(xt {} {})", hexcps(&text), flags(cs.iter().map(|c| xid_oracle(*c))))
}

fn revset_res(text: &str) -> String {
    let r = jjv::catch(|| {
        revset::parse_program(text).map(|node| match &node.kind {
            revset::ExpressionKind::Identifier(s) => Some(format!("(NIdentifier {})", cps(s))),
            revset::ExpressionKind::String(s) => Some(format!("(NString {})", cps(s))),
            revset::ExpressionKind::RemoteSymbol(sym) => Some(format!(
                "(NRemote {} {})",
                cps(sym.name.as_str()),
                cps(sym.remote.as_str())
            )),
            revset::ExpressionKind::AtWorkspace(s) => Some(format!("(NAtWorkspace {})", cps(s))),
            revset::ExpressionKind::AtCurrentWorkspace => Some("NAtCurrent".to_string()),
            _ => None,
        })
    });
    match r {
        None => "RPanic".into(),
        Some(Err(_)) => "RErr".into(),
        Some(Ok(None)) => "ROther".into(),
        Some(Ok(Some(t))) => format!("(ROk {t})"),
    }
}

fn symbol_res(text: &str) -> String {
    match jjv::catch(|| revset::parse_symbol(text)) {
        None => "SPanic".into(),
        Some(Err(_)) => "SErr".into(),
        Some(Ok(s)) => format!("(SOk {})", cps(&s)),
    }
}

fn fileset_res(text: &str) -> String {
    let r = jjv::catch(|| {
        fsp::parse_program(text).map(|node| match &node.kind {
            fsp::ExpressionKind::String(s) => Some(cps(s)),
            _ => None,
        })
    });
    match r {
        None => "LPanic".into(),
        Some(Err(_)) => "LErr".into(),
        Some(Ok(None)) => "LOther".into(),
        Some(Ok(Some(t))) => format!("(LOk {t})"),
    }
}

fn template_res(text: &str) -> String {
    let r = jjv::catch(|| {
        tpp::parse_template(text).map(|node| match &node.kind {
            tpp::ExpressionKind::String(s) => Some(cps(s)),
            _ => None,
        })
    });
    match r {
        None => "LPanic".into(),
        Some(Err(_)) => "LErr".into(),
        Some(Ok(None)) => "LOther".into(),
        Some(Ok(Some(t))) => format!("(LOk {t})"),
    }
}

const EDGE: &[&str] = &[
    "", "a", "-", ".", "+", "a-", "a.", "a+", "-a", ".a", "+a", "a--b", "a---b", "a..b", "a.-b",
    "a-.b", "a++b", "a.b-c+d", "a--", "*", "/", "a/b", "a*", "*/", "@", "a@b", "a@", "@a", "\"",
    "\\", "\\\"", "\"\\", "'", "a b", " a", "a ", " ", "\t", "\n", "\r", "\0", "\x1b", "\x7f",
    "\x01", "\x1f", "\x0c", "\x0b", "x(", "f(x)", "(", ")", "a:b", "a:", ":", "a|b", "~a", "~",
    "::", "..", "a::b", "é", "漢字", "a\u{301}", "\u{301}", "·", "a·b", "\u{80}", "\u{9f}",
    "\u{a0}", "\u{2028}", "😀", "\u{10ffff}", "\\x41", "\\n", "\\e", "\\t", "\\0", "\"a\"", "'a'",
    "é-", "0", "123", "_", "__a", "a_b", "main", "feature/x-1.2+b", "v1.0-rc.1", "a\"b", "a\\b",
    "a\tb", "a\nb", "x\x1by", "tab\t", "nul\0", "del\x7f", "\u{feff}a", "a\u{200b}", "\u{ad}",
    "root()", "all()", "none", "x1b", "\\x1b", "\\x1", "\\xZZ", "a-b@c.d", "\"@\"",
];

const IDENT_CHARS: &[char] = &['a', 'b', 'Z', '0', '9', '_', '*', '/', 'x', 'é', '漢', '\u{301}', '·'];
const SEP_CHARS: &[char] = &['.', '-', '+', '-'];
const SPECIAL_CHARS: &[char] = &[
    '"', '\\', '\'', '@', ' ', '\t', '\n', '\r', '\0', '\x0c', '\x1b', '\x7f', '\x01', '\x1f', ':',
    '|', '&', '~', '^', ',', '=', ')', 't', 'n', 'e', '\u{80}', '\u{a0}', '\u{2028}', '😀',
    '\u{10ffff}', '\u{200b}', '#', '$', '!', '?', '[', '{', ';',
];

fn gen_char(rng: &mut Rng) -> char {
    if rng.chance(1, 16) {
        // any Unicode scalar value (the XID_CONTINUE answer comes from the real grammar)
        loop {
            let cp = if rng.chance(1, 2) { rng.range(0x80, 0xffff) } else { rng.range(0x10000, 0x10ffff) };
            if let Some(c) = char::from_u32(cp as u32) {
                return c;
            }
        }
    }
    match rng.below(10) {
        0..=3 => *rng.pick(IDENT_CHARS),
        4..=5 => *rng.pick(SEP_CHARS),
        _ => *rng.pick(SPECIAL_CHARS),
    }
}

fn gen_name(rng: &mut Rng) -> String {
    if rng.chance(1, 5) {
        return rng.pick(EDGE).to_string();
    }
    if rng.chance(1, 3) {
        // identifier-shaped, sometimes with a trailing or doubled separator
        let parts = 1 + rng.below(3);
        let mut s = String::new();
        for k in 0..parts {
            if k > 0 {
                let sep = *rng.pick(SEP_CHARS);
                s.push(sep);
                if sep == '-' || rng.chance(1, 6) {
                    for _ in 0..rng.geometric(2) {
                        s.push(sep);
                    }
                }
            }
            for _ in 0..1 + rng.below(3) {
                s.push(*rng.pick(IDENT_CHARS));
            }
        }
        if rng.chance(1, 4) {
            s.push(*rng.pick(SEP_CHARS));
        }
        return s;
    }
    let len = rng.below(3) + rng.geometric(6);
    (0..len).map(|_| gen_char(rng)).collect()
}

fn gen_quoted(rng: &mut Rng, valid_only: bool) -> String {
    let mut s = String::from("\"");
    for _ in 0..rng.below(5) {
        match rng.below(if valid_only { 8 } else { 9 }) {
            0 => s.push_str(*rng.pick::<&str>(&["\\t", "\\r", "\\n", "\\0", "\\e", "\\\"", "\\\\"])),
            1 => s.push_str(*rng.pick::<&str>(&["\\x41", "\\x1b", "\\x1B", "\\xff", "\\x00", "\\x7F", "\\xe9", "\\xAa"])),
            8 => s.push_str(*rng.pick::<&str>(&["\\q", "\\x1", "\\xZZ", "\\x4G", "\\", "\\ ", "\\'", "\\X41", "\\u", "\\x+1", "\\x"])),
            _ => {
                let c = gen_char(rng);
                if !valid_only || (c != '"' && c != '\\') {
                    s.push(c);
                }
            }
        }
    }
    s.push('"');
    s
}

fn gen_symbol(rng: &mut Rng) -> String {
    match rng.below(6) {
        0..=2 => {
            // identifier-shaped
            let parts = 1 + rng.below(3);
            let mut s = String::new();
            for k in 0..parts {
                if k > 0 {
                    let sep = *rng.pick(SEP_CHARS);
                    s.push(sep);
                    if sep == '-' {
                        for _ in 0..rng.geometric(2) {
                            s.push(sep);
                        }
                    }
                }
                for _ in 0..1 + rng.below(3) {
                    s.push(*rng.pick(IDENT_CHARS));
                }
            }
            s
        }
        3..=4 => gen_quoted(rng, true),
        _ => {
            let mut s = String::from("'");
            for _ in 0..rng.below(4) {
                let c = gen_char(rng);
                if c != '\'' {
                    s.push(c);
                }
            }
            s.push('\'');
            s
        }
    }
}

/// Symbol-like text for the parser-model correspondence stream: mostly valid programs made of
/// one symbol primary (all five node kinds), a third of them mutated, plus a token soup.
fn gen_text(rng: &mut Rng) -> String {
    let mut s = String::new();
    if rng.chance(3, 4) {
        let ws = |rng: &mut Rng| -> String {
            (0..rng.geometric(2)).map(|_| *rng.pick(&[' ', '\t', '\n', '\x0c', '\r'])).collect()
        };
        s.push_str(&ws(rng));
        match rng.below(8) {
            0..=2 => s.push_str(&gen_symbol(rng)),
            3..=5 => {
                s.push_str(&gen_symbol(rng));
                s.push('@');
                s.push_str(&gen_symbol(rng));
            }
            6 => {
                s.push_str(&gen_symbol(rng));
                s.push('@');
            }
            _ => s.push('@'),
        }
        s.push_str(&ws(rng));
        if rng.chance(1, 3) {
            let mut cs: Vec<char> = s.chars().collect();
            let pos = rng.usize(cs.len() + 1);
            match rng.below(3) {
                0 => cs.insert(pos, gen_char(rng)),
                1 if pos < cs.len() => {
                    cs.remove(pos);
                }
                _ if pos < cs.len() => cs[pos] = gen_char(rng),
                _ => cs.push(gen_char(rng)),
            }
            s = cs.into_iter().collect();
        }
    } else {
        let tokens = 1 + rng.below(3);
        for _ in 0..tokens {
            match rng.below(12) {
                0..=2 => s.push_str(&gen_name(rng)),
                3..=5 => {
                    let q = gen_quoted(rng, false);
                    s.push_str(if rng.chance(1, 8) { &q[..q.len() - 1] } else { &q });
                }
                6 => {
                    s.push('\'');
                    for _ in 0..rng.below(4) {
                        s.push(gen_char(rng));
                    }
                    if !rng.chance(1, 8) {
                        s.push('\'');
                    }
                }
                7..=8 => s.push('@'),
                9 => s.push(*rng.pick(&[' ', '\t', '\n', '\x0c', '\r'])),
                10 => s.push(*rng.pick(SEP_CHARS)),
                _ => s.push(gen_char(rng)),
            }
        }
    }
    // cap parentheses: the real revset parser is exponential in nesting depth (DESIGN O1)
    let mut opens = 0;
    s.chars()
        .filter(|c| {
            if *c == '(' {
                opens += 1;
                opens <= 3
            } else {
                true
            }
        })
        .collect()
}

fn needs_quote(s: &str) -> bool {
    revset::format_symbol(s) != s
}

fn main() {
    jjv::run("C35", "C35", |ctx| {
        for i in ctx.indices() {
            let mut rng = ctx.rng(i);
            if i == 0 {
                let fl = flags((0u8..128).map(|c| ident_part_real(c as char)));
                ctx.emit(i, format!("(CAudit (flags {fl}))"), true, "audit");
                continue;
            }
            if i % 10 < 7 {
                let name = if i <= EDGE.len() { EDGE[i - 1].to_string() } else { gen_name(&mut rng) };
                let remote = if rng.chance(1, 4) { name.clone() } else { gen_name(&mut rng) };
                let esc = dsl_util::escape_string(&name);
                let fstr = revset::format_string(&name);
                let fsym = revset::format_symbol(&name);
                let frem = revset::format_remote_symbol(&name, &remote);
                let fws = format!("{fsym}@");
                let term = coq::app(
                    "CFormat",
                    &[
                        cps(&name),
                        cps(&remote),
                        oracle_table(&[&name, &remote]),
                        cps(&esc),
                        cps(&fstr),
                        cps(&fsym),
                        cps(&frem),
                        revset_res(&fstr),
                        revset_res(&fsym),
                        revset_res(&frem),
                        revset_res(&fws),
                        symbol_res(&fsym),
                        fileset_res(&fstr),
                        template_res(&fstr),
                    ],
                );
                let q = |s: &str| if needs_quote(s) { "quoted" } else { "ident" };
                let esc_kind = if esc != name { "escapes" } else { "plain" };
                let shape = format!("format name={} remote={} {}", q(&name), q(&remote), esc_kind);
                let nontrivial = !name.is_empty()
                    && (esc != name || needs_quote(&name) || name.contains(['.', '-', '+']));
                ctx.emit(i, term, nontrivial, &shape);
            } else {
                let text = gen_text(&mut rng);
                let r = revset_res(&text);
                let isid = !needs_quote(&text);
                let term = coq::app(
                    "CText",
                    &[
                        cps(&text),
                        oracle_table(&[&text]),
                        r.clone(),
                        symbol_res(&text),
                        coq::b(isid),
                        fileset_res(&text),
                        template_res(&text),
                    ],
                );
                let class = ["NIdentifier", "NString", "NRemote", "NAtWorkspace", "NAtCurrent"]
                    .iter()
                    .find(|k| r.contains(*k))
                    .copied()
                    .unwrap_or(r.as_str());
                let shape = format!("text {class}");
                ctx.emit(i, term, r.starts_with("(ROk") || r == "RErr", &shape);
            }
        }
    });
}
