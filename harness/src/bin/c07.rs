//! C07: MergedTree::merge / tree_merge::merge_trees / MergedTree::path_value on random small
//! trees written through a real Store (TestBackend: concurrency 10; SimpleBackend: 1).
#[path = "../treegen.rs"]
mod treegen;

use std::collections::BTreeSet;
use std::sync::Arc;

use jj_lib::backend::TreeId;
use jj_lib::backend::TreeValue;
use jj_lib::conflict_labels::ConflictLabels;
use jj_lib::merge::Merge;
use jj_lib::merged_tree::MergedTree;
use jj_lib::repo::Repo as _;
use jj_lib::repo_path::RepoPath;
use jj_lib::store::Store;
use jj_lib::tree_merge::merge_trees;
use jjv::Rng;
use jjv::coq;
use pollster::FutureExt as _;
use treegen::*;

struct Outcome {
    unresolved: Merge<TreeId>,
    merged: Option<Merge<TreeId>>,
    result: Option<Merge<TreeId>>,
    values: Vec<(Vec<u8>, Merge<Option<TreeValue>>)>,
}

fn merged_tree(store: &Arc<Store>, ids: Merge<TreeId>, labeled: bool) -> MergedTree {
    let labels = if labeled && !ids.is_resolved() {
        ConflictLabels::from_vec((0..ids.iter().count()).map(|i| format!("side {i}")).collect())
    } else {
        ConflictLabels::unlabeled()
    };
    MergedTree::new(store.clone(), ids, labels)
}

fn run_on(store: &Arc<Store>, inputs: &[Vec<T>], labeled: bool, probes: &[Vec<u8>]) -> Outcome {
    let root = RepoPath::root();
    let terms: Vec<(MergedTree, String)> = inputs
        .iter()
        .enumerate()
        .map(|(i, inner)| {
            let ids: Vec<TreeId> = inner.iter().map(|t| write_tree(store, root, t)).collect();
            (
                merged_tree(store, Merge::from_vec(ids), labeled),
                format!("term {i}"),
            )
        })
        .collect();
    let merge = Merge::from_vec(terms);
    let unresolved = MergedTree::merge_no_resolve(merge.clone()).into_tree_ids();
    let merged = jjv::catch(|| merge_trees(store, unresolved.clone()).block_on().ok()).flatten();
    let result = jjv::catch(|| {
        MergedTree::merge(merge.clone())
            .block_on()
            .ok()
            .map(|t| t.into_tree_ids())
    })
    .flatten();
    let mut paths: BTreeSet<Vec<u8>> = BTreeSet::new();
    for inner in inputs {
        for t in inner {
            paths.extend(all_paths(t));
        }
    }
    for ids in [&merged, &result].into_iter().flatten() {
        for id in ids.iter() {
            stored_paths(store, root, id, &mut paths);
        }
    }
    for p in probes {
        paths.insert(p.clone());
    }
    let mut values = vec![];
    if let Some(m) = &merged {
        let mt = MergedTree::new(store.clone(), m.clone(), ConflictLabels::unlabeled());
        for p in &paths {
            let v = mt.path_value(&repo_path(p)).block_on().unwrap();
            values.push((p.clone(), v));
        }
    }
    Outcome {
        unresolved,
        merged,
        result,
        values,
    }
}

fn dump_ids(store: &Arc<Store>, ids: &Merge<TreeId>) -> String {
    let mut s = String::new();
    for id in ids.iter() {
        dump_tree(store, RepoPath::root(), id, &mut s);
        s.push('|');
    }
    s
}

fn dump_outcome(store: &Arc<Store>, o: &Outcome) -> String {
    let mut s = dump_ids(store, &o.unresolved);
    s.push_str(" M ");
    s.push_str(&o.merged.as_ref().map_or("panic".into(), |m| dump_ids(store, m)));
    s.push_str(" R ");
    s.push_str(&o.result.as_ref().map_or("panic".into(), |m| dump_ids(store, m)));
    for (p, v) in &o.values {
        s.push_str(&format!(" {p:?}="));
        for t in v.iter() {
            dump_oval(store, &repo_path(p), t, &mut s);
            s.push('/');
        }
    }
    s
}

fn file(c: usize) -> V {
    V::File { c, x: false, cp: 0 }
}
fn dir(entries: &[(u8, V)]) -> V {
    V::Dir(entries.iter().cloned().collect())
}
fn tree(entries: &[(u8, V)]) -> T {
    entries.iter().cloned().collect()
}

/// Fixed corpus, always run first. Indices 0 and 1: the inputs on which
/// MergedTree::resolve was not idempotent before /repo commit 4915e33 (the final
/// simplification cancels the two file sides of a file/directory conflict and leaves an
/// all-directory conflict that a further merge resolves).
fn corpus(i: usize) -> Option<(bool, bool, Vec<Vec<T>>)> {
    match i {
        0 => {
            let a = tree(&[(0, dir(&[(0, file(8))])), (1, file(9))]);
            let b = tree(&[(0, file(10)), (1, file(9))]);
            let c = tree(&[(0, file(10)), (1, file(11))]);
            let d = tree(&[(1, file(11))]);
            let e = tree(&[(0, dir(&[(1, file(1))])), (1, file(0))]);
            Some((false, false, vec![vec![a], vec![b], vec![c], vec![d], vec![e]]))
        }
        1 => {
            // shape of the random case that exposed it (seed 7, index 3158, thorough tier)
            let fx = V::File { c: 8, x: true, cp: 0 };
            let t1 = tree(&[(0, dir(&[(0, fx.clone()), (1, file(8))])), (1, V::Sub(0)), (2, V::Link(0))]);
            let t2 = tree(&[(1, V::Sub(0)), (2, V::Link(0))]);
            let t3 = tree(&[(0, file(9)), (1, V::Sub(0)), (2, V::Link(0))]);
            let t4 = tree(&[(0, file(9)), (1, file(10)), (2, V::Link(0))]);
            let t6 = tree(&[(0, dir(&[(0, fx)])), (1, V::Sub(0)), (2, V::Link(0))]);
            Some((true, false, vec![vec![t1], vec![t2, t3, t4], vec![t6]]))
        }
        2 => {
            // A directory that cancels inside a 5-way file/directory conflict, at two paths
            // and at different term positions: p = f1 / T / T / f0 / f2 (content-mergeable),
            // q = g1 / g0 / U / U / g2 (content-mergeable). try_resolve_file_values must
            // simplify the terms before it decides that "the paths are not files".
            let t = dir(&[(0, file(10))]);
            let u = dir(&[(1, file(11))]);
            let t0 = tree(&[(0, file(1)), (1, file(4))]);
            let t1 = tree(&[(0, t.clone()), (1, file(0))]);
            let t2 = tree(&[(0, t), (1, u.clone())]);
            let t3 = tree(&[(0, file(0)), (1, u)]);
            let t4 = tree(&[(0, file(2)), (1, file(5))]);
            Some((true, false, vec![vec![t0], vec![t1], vec![t2], vec![t3], vec![t4]]))
        }
        _ => None,
    }
}

/// 5- and 7-way merges of resolved trees in which 1-3 paths hold one identical directory in
/// an adjacent add/remove pair of terms (at varying positions) and files in the other terms;
/// the files resolve after the directory pair is cancelled (trivially, by same change, or
/// by content merge) or stay conflicted; plus a path that stays conflicted and a resolved one.
fn gen_dir_cancel(rng: &mut Rng) -> Vec<Vec<T>> {
    let k = if rng.chance(2, 3) { 5 } else { 7 };
    let mut trees: Vec<T> = vec![T::new(); k];
    let npaths = 1 + rng.usize(3);
    for name in 0..npaths as u8 {
        let r = 1 + 2 * rng.usize(k / 2);
        let a = if rng.chance(1, 2) { r - 1 } else { r + 1 };
        let d = dir(&[(rng.below(2) as u8, file(10 + rng.usize(2)))]);
        let style = rng.below(5);
        let edits = [1usize, 2, 5, 4];
        let mut nth_add = 0;
        for (i, t) in trees.iter_mut().enumerate() {
            let v = if i == r || i == a {
                d.clone()
            } else if i % 2 == 1 {
                file(if style == 4 { 11 } else { 0 })
            } else {
                let c = match style {
                    0 => if nth_add == 0 { 1 } else { 0 }, // one side changed: trivial
                    1 | 2 => edits[nth_add % 4],            // different lines: content merge
                    3 => 3,                                  // all sides made the same change
                    _ => 8 + nth_add % 3,                    // unmergeable
                };
                nth_add += 1;
                file(c)
            };
            t.insert(name, v);
        }
    }
    let next = npaths as u8;
    if rng.chance(2, 3) {
        // a path that stays conflicted
        for (i, t) in trees.iter_mut().enumerate() {
            t.insert(next, file(if i % 2 == 1 { 11 } else { 8 + (i / 2) % 3 }));
        }
    }
    if rng.chance(1, 2) {
        for (i, t) in trees.iter_mut().enumerate() {
            t.insert(next + 1, file(if i == 0 { 9 } else { 8 }));
        }
    }
    trees.into_iter().map(|t| vec![t]).collect()
}

fn gen_inputs(rng: &mut Rng) -> (Vec<Vec<T>>, &'static str) {
    let names = rng.range(2, 5) as u8;
    let depth = rng.range(0, 3) as u32;
    let rich = rng.chance(1, 2);
    let base = {
        let mut b = gen_tree(rng, depth, names, rich);
        if b.is_empty() && rng.chance(3, 4) {
            b = gen_tree(rng, depth, names, rich);
        }
        b
    };
    let m = |rng: &mut Rng, t: &T| {
        let edits = 1 + rng.geometric(3);
        mutated(rng, t, edits, names, rich)
    };
    let conflicted = |rng: &mut Rng, t: &T| -> Vec<T> {
        let b = if rng.chance(1, 2) { t.clone() } else { mutated(rng, t, 1, names, rich) };
        vec![m(rng, &b), b.clone(), m(rng, &b)]
    };
    match rng.below(23) {
        20..=22 => (gen_dir_cancel(rng), "dircancel"),
        0..=5 => (vec![vec![m(rng, &base)], vec![base.clone()], vec![m(rng, &base)]], "3way"),
        6 => {
            let a = m(rng, &base);
            if rng.chance(1, 2) {
                (vec![vec![a], vec![base.clone()], vec![base.clone()]], "ident")
            } else {
                (vec![vec![base.clone()], vec![base.clone()], vec![a]], "ident")
            }
        }
        7 | 8 => (
            vec![
                vec![gen_tree(rng, depth, names, rich)],
                vec![gen_tree(rng, depth, names, rich)],
                vec![gen_tree(rng, depth, names, rich)],
            ],
            "indep",
        ),
        9..=11 => {
            let pos = rng.usize(3);
            let mut v = vec![vec![m(rng, &base)], vec![base.clone()], vec![m(rng, &base)]];
            v[pos] = conflicted(rng, &base);
            (v, "conf1")
        }
        12 | 13 => {
            let mut v = vec![conflicted(rng, &base), vec![base.clone()], conflicted(rng, &base)];
            if rng.chance(1, 3) {
                v[1] = conflicted(rng, &base);
            }
            (v, "conf2")
        }
        14 => {
            if rng.chance(1, 2) {
                (vec![vec![m(rng, &base)]], "single")
            } else {
                (vec![conflicted(rng, &base)], "single")
            }
        }
        15 | 16 => {
            let v = (0..5).map(|i| vec![if i % 2 == 1 && rng.chance(1, 2) { base.clone() } else { m(rng, &base) }]).collect();
            (v, "5way")
        }
        17 | 18 => {
            // terms drawn from a pool of three trees: whole trees cancel, also after merging
            let pool = [base.clone(), m(rng, &base), m(rng, &base)];
            let n = if rng.chance(1, 2) { 3 } else { 5 };
            let v = (0..n)
                .map(|_| {
                    if rng.chance(1, 4) {
                        vec![rng.pick(&pool).clone(), rng.pick(&pool).clone(), rng.pick(&pool).clone()]
                    } else {
                        vec![rng.pick(&pool).clone()]
                    }
                })
                .collect();
            (v, "pool")
        }
        _ => {
            // rebase-like: [new base; old base; old tree]
            let old_tree = m(rng, &base);
            let new_base = m(rng, &base);
            (vec![vec![new_base], vec![base.clone()], vec![old_tree]], "rebase")
        }
    }
}

fn main() {
    jjv::run("C07", "C07", |ctx| {
        if std::env::var("JJV_DEBUG").is_ok() {
            let _ = std::panic::take_hook();
        }
        let repos: Vec<_> = [(false, false), (true, false), (false, true), (true, true)]
            .iter()
            .map(|(accept, simple)| test_repo(*accept, *simple))
            .collect();
        for i in ctx.indices() {
            let mut rng = ctx.rng(i);
            let mut accept = rng.chance(2, 3);
            let mut labeled = rng.chance(1, 3);
            let (mut inputs, mut kind) = gen_inputs(&mut rng);
            if ctx.tier != "replay-random" {
                if let Some((a, l, inp)) = corpus(i) {
                    (accept, labeled, inputs, kind) = (a, l, inp, "corpus");
                }
            }
            let mut probes = vec![];
            for inner in &inputs {
                for t in inner {
                    let ps: Vec<_> = all_paths(t).into_iter().collect();
                    if !ps.is_empty() && rng.chance(1, 4) {
                        let mut p = rng.pick(&ps).clone();
                        p.push(9);
                        probes.push(p);
                    }
                }
            }
            let store = repos[accept as usize].repo.store().clone();
            let store1 = repos[2 + accept as usize].repo.store().clone();
            let o = run_on(&store, &inputs, labeled, &probes);
            // the simple backend (concurrency 1) cannot store submodules
            let cross = ctx.tier == "thorough" || i % 3 == 0;
            let agree = !cross || inputs.iter().flatten().any(has_sub) || {
                let o1 = run_on(&store1, &inputs, labeled, &probes);
                dump_outcome(&store, &o) == dump_outcome(&store1, &o1)
            };
            if o.merged.is_none() || o.result.is_none() {
                ctx.panicked();
            }

            let root = RepoPath::root();
            let mut intern = Interner::new(store.clone());
            let mut rows = vec![];
            for inner in &inputs {
                let mut ids = vec![];
                for t in inner {
                    let id = write_tree(&store, root, t);
                    ids.push(coq::n(intern.tree(root, &id)));
                }
                rows.push(list_of(ids));
            }
            let inputs_term = list_of(rows);
            let unresolved_term = intern.trees(&o.unresolved);
            let mut oracle_rows = vec![];
            oracle_rounds(&store, &mut intern, &o.unresolved, &mut BTreeSet::new(), &mut oracle_rows);
            let merged_term = match &o.merged {
                Some(m) => format!("(Some {})", intern.trees(m)),
                None => "None".into(),
            };
            let result_term = match &o.result {
                Some(m) => format!("(Some {})", intern.trees(m)),
                None => "None".into(),
            };
            let mut rows = vec![];
            for (p, v) in &o.values {
                let path = repo_path(p);
                let mut terms = vec![];
                for t in v.iter() {
                    terms.push(intern.oval(&path, t));
                }
                rows.push(coq::pair(
                    coq::list(p.iter(), |x| coq::n(*x as u64)),
                    list_of(terms),
                ));
            }
            let values_term = list_of(rows);
            let term = coq::app(
                "C07.mk_case",
                &[
                    coq::b(accept),
                    intern.table(),
                    inputs_term,
                    format!("[{}]", oracle_rows.join("; ")),
                    unresolved_term,
                    merged_term,
                    result_term,
                    values_term,
                    coq::b(agree),
                ],
            );
            let arity = o.unresolved.iter().count();
            let conflicted_paths = o.values.iter().filter(|(_, v)| !v.is_resolved()).count();
            let kind = if arity >= 5 && kind != "corpus" && kind != "dircancel" { "any" } else { kind };
            let shape = format!(
                "{kind} arity={} {}{}",
                arity.min(7),
                match &o.merged {
                    None => "panic",
                    Some(m) if m.is_resolved() => "resolved",
                    Some(_) => "conflict",
                },
                match (&o.merged, &o.result) {
                    (Some(m), Some(r)) if m.iter().count() != r.iter().count() => " shrunk",
                    _ => "",
                }
            );
            let _ = conflicted_paths;
            ctx.emit(i, term, arity >= 3, &shape);
        }
    });
}
