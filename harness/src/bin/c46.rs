//! C46: jj_lib::evolution::walk_predecessors on (A) real rewrite histories made of several
//! transactions (incl. concurrent pairs merged by RepoLoader::merge_operations, view
//! restores, legacy operations) and (B) operations written directly to the op store with
//! arbitrary commit_predecessors maps (well-formed, cyclic, duplicated keys across ops).
use std::collections::BTreeMap;
use std::collections::HashMap;
use std::sync::Arc;

use futures::StreamExt as _;
use jj_lib::backend::CommitId;
use jj_lib::backend::MillisSinceEpoch;
use jj_lib::commit::Commit;
use jj_lib::config::ConfigLayer;
use jj_lib::config::ConfigSource;
use jj_lib::evolution::WalkPredecessorsError;
use jj_lib::evolution::walk_predecessors;
use jj_lib::op_walk;
use jj_lib::operation::Operation;
use jj_lib::repo::ReadonlyRepo;
use jj_lib::repo::Repo as _;
use jj_lib::settings::UserSettings;
use jjv::Rng;
use jjv::coq;
use pollster::FutureExt as _;
use testutils::CommitBuilderExt as _;
use testutils::TestRepo;

fn settings() -> UserSettings {
    // fresh settings (fresh seeded rng) per case: a case replays from its index alone
    let mut config = testutils::base_user_config();
    let mut layer = ConfigLayer::empty(ConfigSource::User);
    layer
        .set_value("debug.commit-timestamp", "2001-02-03T04:05:06+07:00")
        .unwrap();
    layer
        .set_value("debug.operation-timestamp", "2001-02-03T04:05:07+07:00")
        .unwrap();
    config.add_layer(layer);
    UserSettings::from_config(config).unwrap()
}

/// Commit numbering: 0 = root, then creation order.
struct Numbering {
    ids: Vec<CommitId>,
    num: HashMap<CommitId, u64>,
}

impl Numbering {
    fn new(root: &CommitId) -> Self {
        let mut n = Numbering { ids: vec![], num: HashMap::new() };
        n.add(root);
        n
    }
    fn add(&mut self, id: &CommitId) -> u64 {
        if let Some(k) = self.num.get(id) {
            return *k;
        }
        let k = self.ids.len() as u64;
        self.ids.push(id.clone());
        self.num.insert(id.clone(), k);
        k
    }
    fn get(&self, id: &CommitId) -> u64 {
        *self.num.get(id).expect("unnumbered commit")
    }
    /// Number the commits a committed operation recorded that we have not seen being
    /// written (those created by rebase_descendants), in an order that does not depend on
    /// hash values: by the numbers of their predecessors.
    fn absorb(&mut self, op: &Operation) {
        let Some(map) = &op.store_operation().commit_predecessors else { return };
        loop {
            let mut fresh: Vec<(Vec<u64>, CommitId)> = vec![];
            for (k, v) in map {
                if !self.num.contains_key(k) && v.iter().all(|p| self.num.contains_key(p)) {
                    fresh.push((v.iter().map(|p| self.get(p)).collect(), k.clone()));
                }
            }
            if fresh.is_empty() {
                break;
            }
            fresh.sort();
            for (_, id) in fresh {
                self.add(&id);
            }
        }
        for k in map.keys() {
            self.add(k); // anything left (cannot happen for real histories)
        }
    }
}

struct Observed {
    ops: Vec<Option<Vec<(u64, Vec<u64>)>>>,
    out: Vec<(u64, Option<u64>)>,
    cycle: Option<u64>,
    failed: bool,
}

/// Runs the real walk and records its inputs (operations in walk_ancestors order with
/// their predecessor maps) and outputs.
fn observe(repo: &Arc<ReadonlyRepo>, start: &[CommitId], nums: &Numbering) -> Option<Observed> {
    jjv::catch(|| {
        let ops: Vec<Operation> = op_walk::walk_ancestors(std::slice::from_ref(repo.operation()))
            .collect::<Vec<_>>()
            .block_on()
            .into_iter()
            .map(|r| r.unwrap())
            .collect();
        let pos: HashMap<_, _> = ops.iter().enumerate().map(|(i, op)| (op.id().clone(), i as u64)).collect();
        let ops_n = ops
            .iter()
            .map(|op| {
                op.store_operation().commit_predecessors.as_ref().map(|m| {
                    let mut v: Vec<(u64, Vec<u64>)> = m
                        .iter()
                        .map(|(k, ps)| (nums.get(k), ps.iter().map(|p| nums.get(p)).collect()))
                        .collect();
                    v.sort();
                    v
                })
            })
            .collect();
        let mut out = vec![];
        let mut cycle = None;
        let mut failed = false;
        let mut stream = walk_predecessors(repo, start).boxed_local();
        while let Some(item) = stream.next().block_on() {
            match item {
                Ok(e) => out.push((nums.get(e.commit.id()), e.operation.as_ref().map(|op| pos[op.id()]))),
                Err(WalkPredecessorsError::CycleDetected(id)) => {
                    cycle = Some(nums.get(&id));
                    break;
                }
                Err(_) => {
                    failed = true;
                    break;
                }
            }
            if out.len() > 10_000 {
                failed = true; // would be a non-terminating walk
                break;
            }
        }
        Observed { ops: ops_n, out, cycle, failed }
    })
}

fn term(o: &Observed, start: &[u64]) -> String {
    let pmap = |m: &Vec<(u64, Vec<u64>)>| {
        coq::list(m.iter(), |(k, ps)| coq::pair(coq::n(*k), coq::list(ps.iter(), |p| coq::n(*p))))
    };
    coq::app(
        "C46.mk_case",
        &[
            coq::list(o.ops.iter(), |m| coq::opt(m.as_ref(), pmap)),
            coq::list(start.iter(), |s| coq::n(*s)),
            coq::list(o.out.iter(), |(c, k)| coq::pair(coq::n(*c), coq::opt(*k, coq::n))),
            coq::opt(o.cycle, coq::n),
            coq::b(o.failed),
        ],
    )
}

// ------------------------------------------------------------------ stream A: real histories

struct Hist {
    nums: Numbering,
    commits: Vec<Commit>, // by number - 1 is not guaranteed; lookup through `by_num`
    by_num: BTreeMap<u64, Commit>,
    counter: u64,
    features: Vec<&'static str>,
}

impl Hist {
    fn note(&mut self, f: &'static str) {
        if !self.features.contains(&f) {
            self.features.push(f);
        }
    }
    fn record(&mut self, c: &Commit) {
        let k = self.nums.add(c.id());
        self.by_num.entry(k).or_insert_with(|| c.clone());
        self.commits.push(c.clone());
    }
    /// Any non-root commit the given repo knows about (visible or hidden).
    fn pick(&self, rng: &mut Rng, repo: &Arc<ReadonlyRepo>) -> Option<Commit> {
        let keys: Vec<_> = self
            .by_num
            .iter()
            .filter(|(k, c)| **k != 0 && repo.index().has_id(c.id()).block_on().unwrap_or(false))
            .map(|(k, _)| *k)
            .collect();
        if keys.is_empty() {
            return None;
        }
        Some(self.by_num[rng.pick(&keys)].clone())
    }
}

/// One transaction's worth of random actions on `repo`; returns the unpublished repo.
fn random_tx(h: &mut Hist, rng: &mut Rng, repo: &Arc<ReadonlyRepo>, collide: bool) -> Arc<ReadonlyRepo> {
    let mut tx = repo.start_transaction();
    let root = repo.store().root_commit_id().clone();
    let n_actions = 1 + rng.below(3);
    let mut created_here: Vec<Commit> = vec![];
    for _ in 0..n_actions {
        let choice = rng.below(10);
        let target = if !created_here.is_empty() && rng.chance(1, 3) {
            Some(rng.pick(&created_here).clone()) // transitive rewrite within the operation
        } else {
            h.pick(rng, repo)
        };
        h.counter += 1;
        let desc = if collide { "same".to_string() } else { format!("d{}", h.counter) };
        match (choice, target) {
            (0..=2, _) | (_, None) => {
                // new commit, on the root or on top of an existing commit (a stack)
                let parent = match h.pick(rng, repo) {
                    Some(p) if rng.chance(1, 2) => p.id().clone(),
                    _ => root.clone(),
                };
                let c = tx
                    .repo_mut()
                    .new_commit(vec![parent], repo.store().empty_merged_tree())
                    .set_description(desc)
                    .write_unwrap();
                h.record(&c);
                created_here.push(c);
                h.note("create");
            }
            (3..=5, Some(t)) => {
                // an identical rewrite (colliding descriptions) is refused by the repo
                let Ok(c) = tx.repo_mut().rewrite_commit(&t).set_description(desc).write().block_on() else {
                    h.note("identical-rewrite-refused");
                    continue;
                };
                h.record(&c);
                if created_here.iter().any(|x| x.id() == t.id()) {
                    h.note("transitive");
                }
                created_here.push(c);
                h.note("rewrite1");
            }
            (6..=8, Some(t)) => {
                // squash-like: two predecessors (possibly equal, possibly in either order)
                let other = h.pick(rng, repo).unwrap_or_else(|| t.clone());
                let preds = if rng.chance(1, 2) {
                    vec![t.id().clone(), other.id().clone()]
                } else {
                    vec![other.id().clone(), t.id().clone()]
                };
                let Ok(c) = tx
                    .repo_mut()
                    .rewrite_commit(&t)
                    .set_predecessors(preds)
                    .set_description(desc)
                    .write()
                    .block_on()
                else {
                    h.note("identical-rewrite-refused");
                    continue;
                };
                h.record(&c);
                created_here.push(c);
                h.note("rewrite2");
            }
            (_, Some(t)) => {
                tx.repo_mut().record_abandoned_commit(&t);
                h.note("abandon");
            }
        }
    }
    let rebased = tx.repo_mut().rebase_descendants().block_on().unwrap();
    if rebased > 0 {
        h.note("rebased-descendants");
    }
    let new_repo = tx.write("tx").block_on().unwrap().leave_unpublished();
    h.nums.absorb(new_repo.operation());
    for (k, _) in new_repo.operation().store_operation().commit_predecessors.clone().unwrap() {
        let n = h.nums.get(&k);
        if !h.by_num.contains_key(&n) {
            let c = new_repo.store().get_commit(&k).unwrap();
            h.by_num.insert(n, c);
        }
    }
    new_repo
}

fn real_history(rng: &mut Rng, feats: &mut BTreeMap<&'static str, u64>) -> (String, bool, String) {
    let settings = settings();
    let test_repo = TestRepo::init_with_settings(&settings);
    let repo0 = test_repo.repo.clone();
    let loader = repo0.loader().clone();
    let root = repo0.store().root_commit();
    let mut h = Hist {
        nums: Numbering::new(root.id()),
        commits: vec![],
        by_num: BTreeMap::new(),
        counter: 0,
        features: vec![],
    };
    h.by_num.insert(0, root.clone());
    let collide = rng.chance(1, 12);
    if collide {
        h.note("colliding-descriptions");
    }
    let rounds = 2 + rng.below(5);
    let mut repo = repo0.clone();
    if rng.chance(1, 3) {
        // commits that exist without any operation recording them (as after `jj git import`
        // or in a repo created by an old jj): the operation's map is emptied
        let mut tx = repo.start_transaction();
        for _ in 0..1 + rng.below(3) {
            h.counter += 1;
            let c = tx
                .repo_mut()
                .new_commit(vec![root.id().clone()], repo.store().empty_merged_tree())
                .set_description(format!("imported{}", h.counter))
                .write_unwrap();
            h.record(&c);
        }
        let r = tx.write("import").block_on().unwrap().leave_unpublished();
        let mut data = r.operation().store_operation().clone();
        data.commit_predecessors = Some(BTreeMap::new());
        let op_id = loader.op_store().write_operation(&data).block_on().unwrap();
        let op = loader.load_operation(&op_id).block_on().unwrap();
        repo = loader.load_at(&op).block_on().unwrap();
        h.note("unrecorded-commits");
    }
    let mut history: Vec<Arc<ReadonlyRepo>> = vec![repo.clone()];
    for _ in 0..rounds {
        let kind = rng.below(10);
        if kind < 6 {
            repo = random_tx(&mut h, rng, &repo, collide);
        } else if kind < 9 {
            // two (or three) concurrent transactions from the same repo, then the real merge
            let k = if rng.chance(1, 4) { 3 } else { 2 };
            let mut ops = vec![];
            for _ in 0..k {
                let r = random_tx(&mut h, rng, &repo, collide);
                ops.push(r.operation().clone());
            }
            if rng.chance(1, 2) {
                ops.reverse();
            }
            let (merged, _) = loader.merge_operations(ops, None, Some("merge"), []).block_on().unwrap();
            h.nums.absorb(merged.operation());
            for (kk, _) in merged.operation().store_operation().commit_predecessors.clone().unwrap() {
                let n = h.nums.get(&kk);
                if !h.by_num.contains_key(&n) {
                    h.by_num.insert(n, merged.store().get_commit(&kk).unwrap());
                }
            }
            repo = merged;
            h.note("concurrent-merge");
        } else {
            // `op restore`-like: a new operation carrying an earlier view, no rewrites
            let old = rng.pick(&history).clone();
            let mut tx = repo.start_transaction();
            tx.repo_mut().set_view(old.view().store_view().clone());
            repo = tx.write("restore").block_on().unwrap().leave_unpublished();
            h.note("restore");
        }
        history.push(repo.clone());
    }
    if rng.chance(1, 10) {
        // an operation written by an old jj: no predecessor records from there on
        let victim = rng.pick(&history).clone();
        let _ = victim;
        let mut data = repo.operation().store_operation().clone();
        data.commit_predecessors = None;
        let op_id = loader.op_store().write_operation(&data).block_on().unwrap();
        let op = loader.load_operation(&op_id).block_on().unwrap();
        repo = loader.load_at(&op).block_on().unwrap();
        h.note("legacy-head");
    }
    // start commits
    let all: Vec<u64> = h.by_num.keys().copied().collect();
    let n_start = 1 + rng.geometric(2) as usize;
    let mut start: Vec<u64> = (0..n_start)
        .map(|_| if rng.chance(1, 20) { 0 } else { *rng.pick(&all[all.len().saturating_sub(6)..]) })
        .collect();
    if rng.chance(1, 10) {
        let s = start[0];
        start.push(s);
        h.note("dup-start");
    }
    let start_ids: Vec<CommitId> = start.iter().map(|n| h.by_num[n].id().clone()).collect();
    match observe(&repo, &start_ids, &h.nums) {
        Some(o) => {
            let nontrivial = o.out.len() >= 2;
            let mut f = h.features.clone();
            f.sort();
            let shape = format!(
                "A{}{} out={} {}",
                if f.contains(&"concurrent-merge") { " merge" } else { "" },
                if f.contains(&"legacy-head") { " legacy" } else if f.contains(&"unrecorded-commits") { " unrecorded" } else { "" },
                match o.out.len() {
                    0 => "0",
                    1 => "1",
                    2..=3 => "2-3",
                    _ => "4+",
                },
                if o.cycle.is_some() { "cycle" } else if o.failed { "error" } else { "ok" }
            );
            for feat in &f {
                *feats.entry(*feat).or_insert(0) += 1;
            }
            let _ = f;
            (term(&o, &start), nontrivial, shape)
        }
        None => (
            coq::app("C46.mk_case", &["[]".into(), "[]".into(), "[]".into(), "None".into(), "true".into()]),
            false,
            "A panic".into(),
        ),
    }
}

/// Corpus case (index 0): finding F6, repaired by /repo 77438d6.  Commit p is recorded by no
/// operation; c1 and c2 both rewrite p; c3 squashes c2 and c1.  p must be listed once.
fn corpus_unrecorded_two_paths() -> (String, bool, String) {
    let settings = settings();
    let test_repo = TestRepo::init_with_settings(&settings);
    let repo0 = test_repo.repo.clone();
    let loader = repo0.loader().clone();
    let root = repo0.store().root_commit_id().clone();
    let mut nums = Numbering::new(&root);
    let mut tx = repo0.start_transaction();
    let p = tx
        .repo_mut()
        .new_commit(vec![root.clone()], repo0.store().empty_merged_tree())
        .set_description("p")
        .write_unwrap();
    nums.add(p.id());
    let r = tx.write("import").block_on().unwrap().leave_unpublished();
    let mut data = r.operation().store_operation().clone();
    data.commit_predecessors = Some(BTreeMap::new());
    let op_id = loader.op_store().write_operation(&data).block_on().unwrap();
    let op = loader.load_operation(&op_id).block_on().unwrap();
    let mut repo = loader.load_at(&op).block_on().unwrap();
    let mut rewrite = |repo: &Arc<ReadonlyRepo>, of: &Commit, preds: Vec<CommitId>, desc: &str, nums: &mut Numbering| {
        let mut tx = repo.start_transaction();
        let c = tx
            .repo_mut()
            .rewrite_commit(of)
            .set_predecessors(preds)
            .set_description(desc)
            .write_unwrap();
        nums.add(c.id());
        tx.repo_mut().rebase_descendants().block_on().unwrap();
        (tx.write(desc).block_on().unwrap().leave_unpublished(), c)
    };
    let (r1, c1) = rewrite(&repo, &p, vec![p.id().clone()], "c1", &mut nums);
    repo = r1;
    let (r2, c2) = rewrite(&repo, &p, vec![p.id().clone()], "c2", &mut nums);
    repo = r2;
    let (r3, c3) = rewrite(&repo, &c2, vec![c2.id().clone(), c1.id().clone()], "c3", &mut nums);
    repo = r3;
    let start = vec![nums.get(c3.id())];
    match observe(&repo, &[c3.id().clone()], &nums) {
        Some(o) => (term(&o, &start), true, "corpus F6 unrecorded-two-paths".into()),
        None => (
            coq::app("C46.mk_case", &["[]".into(), "[]".into(), "[]".into(), "None".into(), "true".into()]),
            false,
            "corpus panic".into(),
        ),
    }
}

// ------------------------------------------------------------------ stream B: synthetic ops

struct Synth {
    _test_repo: TestRepo,
    repo: Arc<ReadonlyRepo>,
    nums: Numbering,
    ids: Vec<CommitId>, // ids[n] = commit number n (0 = root)
    clock: i64,
}

fn synth_base(k: usize) -> Synth {
    let settings = settings();
    let test_repo = TestRepo::init_with_settings(&settings);
    let repo0 = test_repo.repo.clone();
    let root = repo0.store().root_commit_id().clone();
    let mut nums = Numbering::new(&root);
    let mut ids = vec![root.clone()];
    let mut tx = repo0.start_transaction();
    for i in 0..k {
        let c = tx
            .repo_mut()
            .new_commit(vec![root.clone()], repo0.store().empty_merged_tree())
            .set_description(format!("c{i}"))
            .write_unwrap();
        nums.add(c.id());
        ids.push(c.id().clone());
    }
    let repo = tx.write("base").block_on().unwrap().leave_unpublished();
    // the base operation records nothing: the commits exist "from before the history"
    let loader = repo.loader().clone();
    let mut data = repo.operation().store_operation().clone();
    data.commit_predecessors = Some(BTreeMap::new());
    let op_id = loader.op_store().write_operation(&data).block_on().unwrap();
    let op = loader.load_operation(&op_id).block_on().unwrap();
    let repo = loader.load_at(&op).block_on().unwrap();
    Synth { _test_repo: test_repo, repo, nums, ids, clock: 0 }
}

type NMap = Vec<(u64, Vec<u64>)>;

/// Maps in walk order (position 0 = newest). `valid`: every commit is a key of at most one
/// op, predecessors are smaller numbers recorded by the same or an older op.
fn synth_maps(rng: &mut Rng, k: u64, n_ops: usize, valid: bool) -> Vec<Option<NMap>> {
    let mut maps: Vec<NMap> = vec![vec![]; n_ops];
    if valid {
        // creating op of each commit (n_ops = created before the recorded history: no key)
        let mut created: Vec<usize> = vec![n_ops; (k + 1) as usize];
        for c in 1..=k {
            if rng.chance(7, 8) {
                created[c as usize] = rng.usize(n_ops);
            }
        }
        for c in 1..=k {
            let pos = created[c as usize];
            if pos == n_ops {
                continue;
            }
            let cands: Vec<u64> = (if rng.chance(1, 10) { 0 } else { 1 }..c)
                .filter(|p| created[*p as usize] >= pos)
                .collect();
            let mut preds = vec![];
            if !cands.is_empty() {
                let n = [0, 1, 1, 1, 2, 2, 3][rng.usize(7)];
                for _ in 0..n {
                    preds.push(*rng.pick(&cands));
                }
            }
            maps[pos].push((c, preds));
        }
    } else {
        for m in maps.iter_mut() {
            let n_keys = rng.below(4);
            for _ in 0..n_keys {
                let c = rng.range(1, k);
                if m.iter().any(|(x, _)| *x == c) {
                    continue;
                }
                let n = rng.below(3);
                let preds = (0..n)
                    .map(|_| {
                        let lo = if rng.chance(1, 8) { 0 } else { 1 };
                        rng.range(lo, k)
                    })
                    .collect();
                m.push((c, preds));
            }
            m.sort();
        }
        // edge pool: plant a self-loop, a 2-cycle or a 3-cycle inside one operation
        if rng.chance(1, 3) {
            let pos = rng.usize(n_ops);
            let len = 1 + rng.usize(3);
            let mut nodes: Vec<u64> = (1..=k).collect();
            rng.shuffle(&mut nodes);
            let cyc = &nodes[..len];
            for i in 0..len {
                let (c, p) = (cyc[i], cyc[(i + 1) % len]);
                maps[pos].retain(|(x, _)| *x != c);
                let mut preds = vec![p];
                if rng.chance(1, 3) {
                    preds.insert(rng.usize(2), rng.range(1, k));
                }
                maps[pos].push((c, preds));
            }
            maps[pos].sort();
        }
    }
    let mut out: Vec<Option<NMap>> = maps.into_iter().map(Some).collect();
    if rng.chance(1, 10) {
        let i = rng.usize(n_ops);
        out[i] = None;
    }
    out
}

fn synthetic(s: &mut Synth, rng: &mut Rng) -> (String, bool, String) {
    let k = (s.ids.len() - 1) as u64;
    let n_ops = 1 + rng.usize(4);
    let valid = rng.chance(3, 5);
    let maps = synth_maps(rng, k, n_ops, valid);
    let loader = s.repo.loader().clone();
    let base = s.repo.operation().clone();
    // write oldest first; a fork (two children of the same parent, then a merge op) when asked
    let fork = n_ops >= 3 && rng.chance(1, 3);
    let mut parents = vec![base.id().clone()];
    let mut written: Vec<Operation> = vec![];
    let order: Vec<usize> = (0..n_ops).rev().collect();
    let mut i = 0;
    while i < order.len() {
        let make = |s: &mut Synth, parents: Vec<_>, m: &Option<NMap>| {
            let mut data = base.store_operation().clone();
            data.parents = parents;
            s.clock += 1;
            data.metadata.time.end.timestamp = MillisSinceEpoch(1_000_000_000_000 + s.clock);
            data.metadata.description = format!("synthetic {}", s.clock);
            data.commit_predecessors = m.as_ref().map(|m| {
                m.iter()
                    .map(|(c, ps)| (s.ids[*c as usize].clone(), ps.iter().map(|p| s.ids[*p as usize].clone()).collect()))
                    .collect()
            });
            let op_id = loader.op_store().write_operation(&data).block_on().unwrap();
            loader.load_operation(&op_id).block_on().unwrap()
        };
        if fork && i == 0 {
            // two concurrent ops, then the next op has both as parents
            let a = make(s, parents.clone(), &maps[order[0]]);
            let b = make(s, parents.clone(), &maps[order[1]]);
            parents = vec![a.id().clone(), b.id().clone()];
            written.push(a);
            written.push(b);
            i += 2;
        } else {
            let a = make(s, parents.clone(), &maps[order[i]]);
            parents = vec![a.id().clone()];
            written.push(a);
            i += 1;
        }
    }
    let head = written.last().unwrap().clone();
    let repo = match jjv::catch(|| loader.load_at(&head).block_on().unwrap()) {
        Some(r) => r,
        None => {
            return (
                coq::app("C46.mk_case", &["[]".into(), "[]".into(), "[]".into(), "None".into(), "true".into()]),
                false,
                "B load-panic".into(),
            );
        }
    };
    let n_start = 1 + rng.geometric(2);
    let mut start: Vec<u64> = (0..n_start).map(|_| if rng.chance(1, 16) { 0 } else { rng.range(1, k) }).collect();
    if rng.chance(1, 10) {
        let x = start[0];
        start.push(x);
    }
    let start_ids: Vec<CommitId> = start.iter().map(|n| s.ids[*n as usize].clone()).collect();
    match observe(&repo, &start_ids, &s.nums) {
        Some(o) => {
            let nontrivial = o.out.len() >= 2 || o.cycle.is_some();
            let shape = format!(
                "B {}{} out={} {}",
                if valid { "valid" } else { "arbitrary" },
                if fork { " fork" } else { "" },
                match o.out.len() {
                    0 => "0",
                    1 => "1",
                    2..=3 => "2-3",
                    _ => "4+",
                },
                if o.cycle.is_some() { "cycle" } else if o.failed { "error" } else { "ok" }
            );
            (term(&o, &start), nontrivial, shape)
        }
        None => (
            coq::app("C46.mk_case", &["[]".into(), "[]".into(), "[]".into(), "None".into(), "true".into()]),
            false,
            "B panic".into(),
        ),
    }
}

fn main() {
    jjv::run("C46", "C46", |ctx| {
        // temp repos go to the scratch dir of this run
        unsafe { std::env::set_var("TMPDIR", &ctx.scratch) };
        if std::env::var_os("C46_DEBUG").is_some() {
            std::panic::set_hook(Box::new(|info| eprintln!("panic: {info}")));
        }
        let mut synth = synth_base(7);
        let mut feats: BTreeMap<&'static str, u64> = BTreeMap::new();
        for i in ctx.indices() {
            let mut rng = ctx.rng(i);
            let (term, nontrivial, shape) = if i == 0 {
                corpus_unrecorded_two_paths()
            } else if i % 3 == 0 {
                real_history(&mut rng, &mut feats)
            } else {
                synthetic(&mut synth, &mut rng)
            };
            if shape.contains("panic") {
                ctx.panicked();
            }
            ctx.emit(i, term, nontrivial, &shape);
        }
        ctx.note(format!("stream A feature counts (cases having it): {feats:?}"));
    });
}
