//! C40: working-copy changes are never lost by commands. Random sessions of the real CLI
//! (jjbin built from /repo's working tree) over one or two workspaces with random file edits
//! between commands. After every command the operation log (parents, working-copy commit
//! trees per workspace), every workspace's disk and its recorded working-copy state are read
//! back. One Coq case per session: the protocol model must accept the whole trace and
//! reproduce every post-state, and the direct oracle checks that every disk state a command
//! found was recorded by an operation before it was overwritten.
#[path = "../cmdsess.rs"]
mod cmdsess;

use std::collections::BTreeMap;
use std::collections::BTreeSet;
use std::collections::HashMap;
use std::os::unix::fs::PermissionsExt as _;
use std::path::Path;
use std::path::PathBuf;

use cmdsess::Sess;
use jj_lib::backend::CommitId;
use jj_lib::backend::TreeValue;
use jj_lib::object_id::ObjectId as _;
use jj_lib::operation::Operation;
use jj_lib::repo::RepoLoader;
use jj_lib::workspace::Workspace;
use jjv::Rng;
use pollster::FutureExt as _;

#[derive(Clone, Debug, PartialEq)]
enum Kind {
    Normal,
    IgnoreWc,
    UpdateStale,
    WorkspaceAdd,
    AtOp(usize),
    OpAbandon,
    Gc,
    RecoverThen,
    Edit,
}

#[derive(Clone, Debug, PartialEq)]
struct WsSt {
    disk: u64,
    tree: u64,
    op: usize,
}

#[derive(Clone, Debug)]
struct OpInfo {
    parents: Vec<usize>,
    wcs: Vec<(u64, u64)>,
}

#[derive(Default)]
struct World {
    op_num: HashMap<String, usize>,
    op_hex: Vec<String>,
    ops: Vec<OpInfo>,
    digests: HashMap<Vec<u8>, u64>,
    commit_tree: HashMap<String, Option<u64>>, // commit id -> digest number (None = conflicted)
    tree_cache: HashMap<String, u64>,          // recorded working-copy tree ids -> digest number
}

fn ws_num(name: &str) -> u64 {
    if name == "default" { 0 } else { 1 }
}

impl World {
    fn intern(&mut self, canon: Vec<u8>) -> u64 {
        let n = self.digests.len() as u64;
        *self.digests.entry(canon).or_insert(n)
    }
}

/// Canonical listing of a directory tree (regular files only, `.jj` skipped).
fn disk_listing(root: &Path) -> Vec<u8> {
    fn walk(dir: &Path, rel: &str, out: &mut Vec<(String, bool, Vec<u8>)>) {
        let mut names: Vec<_> = match std::fs::read_dir(dir) {
            Ok(rd) => rd.filter_map(|e| e.ok()).collect(),
            Err(_) => return,
        };
        names.sort_by_key(|e| e.file_name());
        for e in names {
            let name = e.file_name().to_string_lossy().to_string();
            if rel.is_empty() && (name == ".jj" || name == ".git") {
                continue;
            }
            let p = e.path();
            let r = if rel.is_empty() { name.clone() } else { format!("{rel}/{name}") };
            let md = match std::fs::symlink_metadata(&p) {
                Ok(m) => m,
                Err(_) => continue,
            };
            if md.is_dir() {
                walk(&p, &r, out);
            } else if md.is_file() {
                let exec = md.permissions().mode() & 0o100 != 0;
                out.push((r, exec, std::fs::read(&p).unwrap_or_default()));
            }
        }
    }
    let mut v = vec![];
    walk(root, "", &mut v);
    v.sort();
    canon(&v)
}

fn canon(v: &[(String, bool, Vec<u8>)]) -> Vec<u8> {
    let mut out = vec![];
    for (p, x, c) in v {
        out.extend_from_slice(p.as_bytes());
        out.push(0);
        out.push(if *x { b'x' } else { b'-' });
        out.extend_from_slice(format!("{}:", c.len()).as_bytes());
        out.extend_from_slice(c);
        out.push(0);
    }
    out
}

/// Listing of a commit's tree; None if the tree has conflicts.
fn tree_listing(loader: &RepoLoader, id: &CommitId) -> Option<Vec<(String, bool, Vec<u8>)>> {
    let store = loader.store();
    let commit = store.get_commit(id).ok()?;
    let tree = commit.tree();
    if tree.has_conflict() {
        return None;
    }
    let mut v = vec![];
    for (path, value) in tree.entries() {
        let value = value.ok()?;
        let resolved = value.as_resolved()?;
        match resolved {
            Some(TreeValue::File { id, executable, .. }) => {
                let content = testutils::read_file(store, &path, id);
                v.push((path.as_internal_file_string().to_string(), *executable, content));
            }
            Some(_) => return None,
            None => {}
        }
    }
    v.sort();
    Some(v)
}

fn commit_digest(w: &mut World, loader: &RepoLoader, id: &CommitId) -> Option<u64> {
    let key = id.hex();
    if let Some(d) = w.commit_tree.get(&key) {
        return *d;
    }
    let d = tree_listing(loader, id).map(|v| w.intern(canon(&v)));
    w.commit_tree.insert(key, d);
    d
}

/// Files of the working-copy commit that no parent has (safe to modify in place).
fn born_files(loader: &RepoLoader, id: &CommitId) -> Vec<String> {
    let store = loader.store();
    let Ok(commit) = store.get_commit(id) else { return vec![] };
    let Some(mine) = tree_listing(loader, id) else { return vec![] };
    let mut parent_paths: BTreeSet<String> = BTreeSet::new();
    for p in commit.parent_ids() {
        if let Some(l) = tree_listing(loader, p) {
            for (path, _, _) in l {
                parent_paths.insert(path);
            }
        }
    }
    mine.into_iter().map(|(p, _, _)| p).filter(|p| !parent_paths.contains(p)).collect()
}

/// Numbers the operations reachable from `heads` that are new, parents first.
/// Returns the indices of the new operations (in numbering order) or None on a conflicted
/// working-copy commit.
fn absorb_ops(w: &mut World, loader: &RepoLoader, heads: &[String]) -> Option<Vec<usize>> {
    let fresh: Vec<Operation> = cmdsess::new_ops(loader, heads, &|h| w.op_num.contains_key(h));
    let mut pending: Vec<Operation> = fresh;
    let mut added = vec![];
    while !pending.is_empty() {
        let pos = pending
            .iter()
            .position(|op| op.parent_ids().iter().all(|p| w.op_num.contains_key(&p.hex())))?;
        let op = pending.remove(pos);
        let parents: Vec<usize> = op.parent_ids().iter().map(|p| w.op_num[&p.hex()]).collect();
        let view = op.view().block_on().ok()?;
        let mut wcs = vec![];
        for (name, cid) in view.wc_commit_ids() {
            let d = commit_digest(w, loader, cid)?;
            wcs.push((ws_num(name.as_str()), d));
        }
        wcs.sort();
        let n = w.ops.len();
        w.op_num.insert(op.id().hex(), n);
        w.op_hex.push(op.id().hex());
        w.ops.push(OpInfo { parents, wcs });
        added.push(n);
    }
    Some(added)
}

/// (tree digest, operation) recorded in the workspace's working-copy state.
fn wc_state(w: &mut World, ws_root: &Path) -> Option<(u64, usize)> {
    let settings = testutils::user_settings();
    let ws = Workspace::load(
        &settings,
        ws_root,
        &jj_lib::default_backend_factories::default_backend_factories(),
        &jj_lib::default_backend_factories::default_working_copy_factories(),
    )
    .ok()?;
    let wc = ws.working_copy();
    let op = *w.op_num.get(&wc.operation_id().hex())?;
    let tree = wc.tree().ok()?;
    if tree.has_conflict() {
        return None;
    }
    // digest of the recorded tree: read it like a commit tree (cached by tree id: after
    // `jj util gc` the objects of an abandoned working-copy commit may be gone)
    let key = format!("{:?}", tree.tree_ids());
    if let Some(d) = w.tree_cache.get(&key) {
        return Some((*d, op));
    }
    let store = ws.repo_loader().store();
    let mut v = vec![];
    for (path, value) in tree.entries() {
        let value = value.ok()?;
        match value.as_resolved()? {
            Some(TreeValue::File { id, executable, .. }) => {
                let content = testutils::read_file(store, &path, id);
                v.push((path.as_internal_file_string().to_string(), *executable, content));
            }
            Some(_) => return None,
            None => {}
        }
    }
    v.sort();
    let d = w.intern(canon(&v));
    w.tree_cache.insert(key, d);
    Some((d, op))
}

fn opinfo_term(o: &OpInfo) -> String {
    let ps: Vec<String> = o.parents.iter().map(|p| p.to_string()).collect();
    let ws: Vec<String> = o.wcs.iter().map(|(a, b)| format!("({a}%N, {b}%N)")).collect();
    format!("(mk_op [{}] [{}])", ps.join("; "), ws.join("; "))
}
fn wsl_term(l: &[(u64, WsSt)]) -> String {
    let v: Vec<String> = l
        .iter()
        .map(|(n, s)| format!("({n}%N, mk_ws {}%N {}%N {})", s.disk, s.tree, s.op))
        .collect();
    format!("[{}]", v.join("; "))
}
fn nat_list(xs: &[usize]) -> String {
    let v: Vec<String> = xs.iter().map(|x| x.to_string()).collect();
    format!("[{}]", v.join("; "))
}

/// Everything the operation log reachable from `heads` records: (operation, workspace, tree).
fn enumerate_log(w: &mut World, loader: &RepoLoader, heads: &[String], out: &mut BTreeSet<(usize, u64, u64)>) -> Result<(), &'static str> {
    let all = cmdsess::new_ops(loader, heads, &|_| false);
    for op in all {
        let Some(&i) = w.op_num.get(&op.id().hex()) else { return Err("final-unknown-op") };
        let Ok(view) = op.view().block_on() else { return Err("final-view") };
        for (name, cid) in view.wc_commit_ids() {
            match commit_digest(w, loader, cid) {
                Some(d) => {
                    out.insert((i, ws_num(name.as_str()), d));
                }
                None => return Err("final-conflict"),
            }
        }
    }
    Ok(())
}

struct SessionResult {
    term: String,
    nontrivial: bool,
    shapes: Vec<String>,
    invocations: u64,
}

fn failed_case(why: &str) -> SessionResult {
    SessionResult {
        term: "(mk_case (mk_state [mk_op [1] []] [] [] []) [] [] false)%nat".into(),
        nontrivial: false,
        shapes: vec![format!("harness-failure:{why}")],
        invocations: 0,
    }
}

struct WsInfo {
    num: u64,
    dir: PathBuf,
    known_stale: bool,
}

#[derive(Clone)]
enum Pre {
    Nothing,
    Create(&'static str),
    Modify(&'static str),
}
#[derive(Clone)]
struct Item {
    wi: usize,
    pre: Pre,
    args: Vec<String>,
    kind: Kind,
}

const REVS: &[&str] = &["@", "@-", "@--", "root()", "default@", "visible_heads()", "latest(all())", "heads(all() ~ @)", "@+"];

fn pick_rev(rng: &mut Rng, have_w2: bool) -> String {
    if have_w2 && rng.chance(1, 4) {
        "w2@".to_string()
    } else {
        rng.pick(REVS).to_string()
    }
}

fn session(index: usize, mut rng: Rng, scratch: &Path, tier: &str) -> SessionResult {
    let root0 = scratch.join(format!("s{index}"));
    let mut sess = Sess::new(&root0, rng.next_u64() % 1_000_000);
    let root = sess.root.clone();
    let mut shapes: Vec<String> = vec![];
    // colocated (the CLI default) in a quarter of the sessions
    let colocated = rng.chance(1, 4);
    let init_args: &[&str] = if colocated { &["git", "init", "--colocate", "repo"] } else { &["git", "init", "--no-colocate", "repo"] };
    if sess.jjs(&root, init_args).rc != 0 {
        return failed_case("init");
    }
    shapes.push(if colocated { "repo:colocated".into() } else { "repo:not-colocated".into() });
    let mut wss: Vec<WsInfo> = vec![WsInfo { num: 0, dir: root.join("repo"), known_stale: false }];
    let loader = cmdsess::loader(&wss[0].dir);
    let mut w = World::default();
    let mut heads = cmdsess::op_heads(&wss[0].dir);
    if absorb_ops(&mut w, &loader, &heads).is_none() {
        return failed_case("ops0");
    }
    let observe_ws = |w: &mut World, wss: &[WsInfo]| -> Option<Vec<(u64, WsSt)>> {
        let mut v = vec![];
        for ws in wss {
            let disk = w.intern(disk_listing(&ws.dir));
            let (tree, op) = wc_state(w, &ws.dir)?;
            v.push((ws.num, WsSt { disk, tree, op }));
        }
        Some(v)
    };
    let Some(mut cur_ws) = observe_ws(&mut w, &wss) else { return failed_case("ws0") };
    let head_nums = |w: &World, heads: &[String]| -> Vec<usize> {
        let mut v: Vec<usize> = heads.iter().filter_map(|h| w.op_num.get(h).copied()).collect();
        v.sort();
        v
    };
    let init_term = format!(
        "(mk_state [{}] {} {} [])",
        w.ops.iter().map(opinfo_term).collect::<Vec<_>>().join("; "),
        nat_list(&head_nums(&w, &heads)),
        wsl_term(&cur_ws)
    );

    let nsteps = if tier == "thorough" { rng.range(8, 14) } else { rng.range(6, 10) } as usize;
    let mut events: Vec<String> = vec![];
    let mut file_counter = 0usize;
    let mut n_snap_ops = 0;
    let mut n_checkout = 0;
    let mut n_stale = 0;
    let mut n_update_stale = 0;
    let mut n_ignore = 0;
    let mut n_absent = 0;
    let mut n_merge = 0;
    let mut n_atop = 0;
    let mut exempt = false;
    // scripted pool: forget / restore away the second workspace and keep using its directory
    let script_recover = index == 0 || rng.chance(1, 6);
    let script_absent = !script_recover && rng.chance(1, 8);
    let script_at = rng.range(0, 2) as usize;
    let nsteps = if script_recover { nsteps.max(script_at + 9) } else { nsteps };
    let mut recorded_set: BTreeSet<(usize, u64, u64)> = BTreeSet::new();
    let mut n_recover = 0;
    let mut script: std::collections::VecDeque<Item> = std::collections::VecDeque::new();
    let mut final_heads = heads.clone();
    for step in 0..nsteps {
        let have_w2 = wss.len() > 1;
        if script_absent && step == script_at {
            let sv = |v: &[&str]| -> Vec<String> { v.iter().map(|x| x.to_string()).collect() };
            if !have_w2 {
                script.push_back(Item { wi: 0, pre: Pre::Nothing, args: sv(&["workspace", "add", "../w2"]), kind: Kind::WorkspaceAdd });
            }
            script.push_back(Item { wi: 1, pre: Pre::Create("g"), args: sv(&["status"]), kind: Kind::Normal });
            let remove = if rng.chance(1, 2) { sv(&["workspace", "forget", "w2"]) } else { sv(&["op", "restore", "OP_BEFORE_ADD"]) };
            script.push_back(Item { wi: 0, pre: Pre::Nothing, args: remove, kind: Kind::Normal });
            script.push_back(Item { wi: 1, pre: Pre::Modify("g"), args: sv(&["new", "root()"]), kind: Kind::Normal });
        }
        if script_recover && step == script_at {
            // lose the operation the second workspace's working copy points at
            let sv = |v: &[&str]| -> Vec<String> { v.iter().map(|x| x.to_string()).collect() };
            if !have_w2 {
                script.push_back(Item { wi: 0, pre: Pre::Nothing, args: sv(&["workspace", "add", "../w2"]), kind: Kind::WorkspaceAdd });
            }
            script.push_back(Item { wi: 1, pre: Pre::Create("g"), args: sv(&["status"]), kind: Kind::Normal });
            // unsnapshotted edits on top: a new file, and in half of the sessions a change of g
            script.push_back(Item { wi: 1, pre: Pre::Create("h2"), args: vec![], kind: Kind::Edit });
            // (never in the fixed session 0: there g stays exactly as it was snapshotted)
            if rng.chance(1, 2) && index != 0 {
                script.push_back(Item { wi: 1, pre: Pre::Modify("g"), args: vec![], kind: Kind::Edit });
            }
            script.push_back(Item { wi: 0, pre: Pre::Nothing, args: sv(&["abandon", "w2@"]), kind: Kind::Normal });
            script.push_back(Item { wi: 0, pre: Pre::Nothing, args: sv(&["op", "abandon", "..@-"]), kind: Kind::OpAbandon });
            script.push_back(Item { wi: 0, pre: Pre::Nothing, args: sv(&["util", "gc", "--expire=now"]), kind: Kind::Gc });
            if rng.chance(1, 2) {
                script.push_back(Item { wi: 1, pre: Pre::Nothing, args: sv(&["status"]), kind: Kind::Normal });
            }
            if rng.chance(1, 2) {
                script.push_back(Item { wi: 1, pre: Pre::Nothing, args: sv(&["workspace", "update-stale"]), kind: Kind::UpdateStale });
            } else {
                script.push_back(Item { wi: 1, pre: Pre::Nothing, args: sv(&["--config", "snapshot.auto-update-stale=true", "status"]), kind: Kind::RecoverThen });
            }
        }
        let item = script.pop_front();
        let wi = match &item {
            Some(it) => it.wi,
            None => if have_w2 && rng.chance(2, 5) { 1 } else { 0 },
        };
        if let Some(it) = &item {
            let dir = wss[wi.min(wss.len() - 1)].dir.clone();
            match it.pre {
                Pre::Nothing => {}
                Pre::Create(n) => {
                    std::fs::write(dir.join(n), "one\n").unwrap();
                    // an old modification time, so that the file is cached as clean by the
                    // snapshot that follows (no same-granule re-check)
                    if let Ok(f) = std::fs::File::options().write(true).open(dir.join(n)) {
                        let _ = f.set_modified(std::time::SystemTime::now() - std::time::Duration::from_secs(30));
                    }
                }
                Pre::Modify(n) => std::fs::write(dir.join(n), "two, modified and not snapshotted\n").unwrap(),
            }
            if let Some(post) = observe_ws(&mut w, &wss) {
                if post != cur_ws {
                    events.push(format!(
                        "(mk_event {}%N KEdit 0%N [] {} {})",
                        wss[wi.min(wss.len() - 1)].num,
                        nat_list(&head_nums(&w, &heads)),
                        wsl_term(&post)
                    ));
                    cur_ws = post;
                }
            }
        }
        if matches!(&item, Some(it) if it.args.is_empty()) {
            continue;
        }
        let wi = wi.min(wss.len() - 1);
        // ---- file edits in the chosen workspace
        if item.is_none() && rng.chance(3, 5) {
            let dir = wss[wi].dir.clone();
            let stale = wss[wi].known_stale
                || cur_ws[wi].1.op != *head_nums(&w, &heads).first().unwrap_or(&0) && {
                    let h = *head_nums(&w, &heads).first().unwrap_or(&0);
                    w.ops[h].wcs.iter().find(|(n, _)| *n == wss[wi].num).map(|(_, t)| *t) != Some(cur_ws[wi].1.tree)
                };
            // files that may be modified in place: born in the workspace's current commit
            let born: Vec<String> = if stale {
                vec![]
            } else {
                let h = head_nums(&w, &heads);
                match h.first() {
                    Some(&h) => {
                        let op = cmdsess::load_op(&loader, &w.op_hex[h]);
                        let view = op.view().block_on().ok();
                        let name = if wss[wi].num == 0 { "default" } else { "w2" };
                        view.and_then(|v| {
                            v.wc_commit_ids()
                                .iter()
                                .find(|(n, _)| n.as_str() == name)
                                .map(|(_, id)| born_files(&loader, id))
                        })
                        .unwrap_or_default()
                    }
                    None => vec![],
                }
            };
            let nedits = rng.range(1, 3);
            for _ in 0..nedits {
                let existing: Vec<String> = {
                    let mut v = vec![];
                    for e in std::fs::read_dir(&dir).unwrap().filter_map(|e| e.ok()) {
                        let n = e.file_name().to_string_lossy().to_string();
                        if n != ".jj" && n != ".git" && e.path().is_file() {
                            v.push(n);
                        }
                    }
                    if let Ok(rd) = std::fs::read_dir(dir.join("d")) {
                        for e in rd.filter_map(|e| e.ok()) {
                            v.push(format!("d/{}", e.file_name().to_string_lossy()));
                        }
                    }
                    v.sort();
                    v
                };
                let born_here: Vec<String> = born.iter().filter(|p| existing.contains(p)).cloned().collect();
                match rng.below(8) {
                    0 | 1 | 2 => {
                        file_counter += 1;
                        let name = if rng.chance(1, 4) {
                            std::fs::create_dir_all(dir.join("d")).unwrap();
                            format!("d/f{file_counter}")
                        } else {
                            format!("f{file_counter}")
                        };
                        std::fs::write(dir.join(&name), format!("v{}-{}\n", file_counter, rng.below(10))).unwrap();
                        if rng.chance(1, 5) {
                            std::fs::set_permissions(dir.join(&name), std::fs::Permissions::from_mode(0o755)).unwrap();
                        }
                    }
                    3 | 4 if !existing.is_empty() => {
                        let _ = std::fs::remove_file(dir.join(rng.pick(&existing)));
                    }
                    5 | 6 if !born_here.is_empty() => {
                        // modify in place; half the time keeping the size
                        let name = rng.pick(&born_here).clone();
                        let old = std::fs::read(dir.join(&name)).unwrap_or_default();
                        let mut new = old.clone();
                        if rng.chance(1, 2) && !new.is_empty() {
                            let k = rng.usize(new.len().saturating_sub(1).max(1));
                            new[k] = if new[k] == b'#' { b'%' } else { b'#' };
                        } else {
                            new.extend_from_slice(format!("more{}\n", rng.below(100)).as_bytes());
                        }
                        std::fs::write(dir.join(&name), new).unwrap();
                    }
                    7 if !born_here.is_empty() => {
                        let name = rng.pick(&born_here).clone();
                        let p = dir.join(&name);
                        let mode = std::fs::metadata(&p).map(|m| m.permissions().mode()).unwrap_or(0o644);
                        let newmode = if mode & 0o100 != 0 { 0o644 } else { 0o755 };
                        let _ = std::fs::set_permissions(&p, std::fs::Permissions::from_mode(newmode));
                    }
                    _ => {
                        file_counter += 1;
                        std::fs::write(dir.join(format!("f{file_counter}")), format!("w{file_counter}\n")).unwrap();
                    }
                }
            }
            let Some(post) = observe_ws(&mut w, &wss) else { return failed_case("ws-edit") };
            if post != cur_ws {
                events.push(format!(
                    "(mk_event {}%N KEdit 0%N [] {} {})",
                    wss[wi].num,
                    nat_list(&head_nums(&w, &heads)),
                    wsl_term(&post)
                ));
                cur_ws = post;
            }
        }
        // ---- the command
        let msg = format!("m{step}");
        let other = if have_w2 { 1 - wi } else { wi };
        let other_rev = if wss[other].num == 0 { "default@" } else { "w2@" };
        let mut kind = Kind::Normal;
        let mut args: Vec<String> = vec![];
        let s = |x: &str| x.to_string();
        let mut forget = false;
        if let Some(it) = &item {
            kind = it.kind.clone();
            args = it.args.clone();
            for a in args.iter_mut() {
                if a == "OP_BEFORE_ADD" {
                    let k = w.ops.iter().position(|o| o.wcs.iter().any(|(n, _)| *n == 1)).unwrap_or(1);
                    *a = w.op_hex[k.saturating_sub(1)].clone();
                    forget = true;
                }
            }
            if args.iter().any(|a| a == "forget") {
                forget = true;
            }
        } else if wss[wi].known_stale && rng.chance(7, 10) {
            kind = Kind::UpdateStale;
            args = vec![s("workspace"), s("update-stale")];
        } else {
            match rng.below(32) {
                0 | 1 => args = vec![s("new")],
                2 => args = vec![s("new"), pick_rev(&mut rng, have_w2), s("-m"), msg.clone()],
                3 => args = vec![s("new"), pick_rev(&mut rng, have_w2)],
                4 | 5 => args = vec![s("edit"), pick_rev(&mut rng, have_w2)],
                6 | 7 => args = vec![s("describe"), s("-m"), msg.clone()],
                8 | 9 => args = vec![s("commit"), s("-m"), msg.clone()],
                10 | 11 => args = vec![s("squash"), s("-m"), msg.clone()],
                12 => args = vec![s("abandon")],
                13 => args = vec![s("abandon"), pick_rev(&mut rng, have_w2)],
                14 => args = vec![s("rebase"), s("-r"), s("@"), s("-o"), pick_rev(&mut rng, have_w2)],
                15 => args = vec![s("rebase"), s("-s"), pick_rev(&mut rng, have_w2), s("-o"), pick_rev(&mut rng, have_w2)],
                16 | 17 => args = vec![s("restore")],
                18 | 19 => args = vec![s("undo")],
                20 => {
                    let k = rng.usize(w.ops.len().max(2) - 1) + 1;
                    args = vec![s("op"), s("restore"), w.op_hex[k.min(w.op_hex.len() - 1)].clone()];
                }
                21 => args = vec![s("status")],
                22 | 23 => {
                    if !have_w2 {
                        kind = Kind::WorkspaceAdd;
                        args = vec![s("workspace"), s("add"), s("../w2")];
                    } else {
                        // rewrite the other workspace's working-copy commit from here
                        args = match rng.below(4) {
                            0 => vec![s("squash"), s("--from"), s("@"), s("--into"), s(other_rev), s("-m"), msg.clone()],
                            1 => vec![s("abandon"), s(other_rev)],
                            2 => vec![s("rebase"), s("-r"), s(other_rev), s("-o"), s("@")],
                            _ => vec![s("describe"), s(other_rev), s("-m"), msg.clone()],
                        };
                    }
                }
                24 => {
                    kind = Kind::UpdateStale;
                    args = vec![s("workspace"), s("update-stale")];
                }
                // (not in colocated repos: there an --at-op command moves Git HEAD and the next
                // command imports it as an extra operation, which the model does not describe)
                28 | 29 if w.ops.len() >= 3 && !colocated => {
                    // a command run at an older operation: no snapshot, no checkout, and its
                    // operation becomes a second head that the next command merges
                    let x = rng.range(1, w.ops.len() as u64 - 1) as usize;
                    kind = Kind::AtOp(x);
                    args = match rng.below(5) {
                        0 | 1 => vec![s("describe"), s("-m"), msg.clone()],
                        2 => vec![s("new"), s("-m"), msg.clone()],
                        3 => vec![s("new"), s("root()")],
                        _ => vec![s("log"), s("--no-graph"), s("-T"), s("commit_id")],
                    };
                    args.insert(0, w.op_hex[x].clone());
                    args.insert(0, s("--at-op"));
                }
                25 | 26 | 27 => {
                    kind = Kind::IgnoreWc;
                    args = match rng.below(6) {
                        0 => vec![s("describe"), s("-m"), msg.clone()],
                        1 => vec![s("new")],
                        2 => vec![s("abandon")],
                        3 => vec![s("squash"), s("-m"), msg.clone()],
                        4 => vec![s("edit"), pick_rev(&mut rng, have_w2)],
                        _ => vec![s("commit"), s("-m"), msg.clone()],
                    };
                    args.insert(0, s("--ignore-working-copy"));
                }
                _ => args = vec![s("new"), s("-m"), msg.clone()],
            }
        }
        let heads_before: Vec<usize> = head_nums(&w, &heads);
        if kind == Kind::OpAbandon {
            if let Err(e) = enumerate_log(&mut w, &loader, &heads, &mut recorded_set) {
                return failed_case(e);
            }
        }
        let out = sess.jj(&wss[wi].dir.clone(), &args);
        if out.timed_out {
            return failed_case("timeout");
        }
        let status: u64 = if out.rc == 0 {
            0
        } else if out.stderr.contains("working copy is stale")
            || out.stderr.contains("seems to be a sibling")
            || out.stderr.contains("Could not read working copy's operation")
        {
            1
        } else if out.rc == 101 || out.rc < 0 || out.stderr.contains("panicked") || out.stderr.contains("Internal error") {
            // a panic or an internal error is never an acceptable outcome
            3
        } else {
            2
        };
        if status == 3 {
            shapes.push("status:panic-or-internal-error".into());
        }
        // ---- observation
        let new_heads = cmdsess::op_heads(&wss[0].dir);
        let nops_before = w.ops.len();
        let Some(added) = absorb_ops(&mut w, &loader, &new_heads) else {
            // a working-copy commit became conflicted: stop before this command
            exempt = true;
            shapes.push("session:ended-by-conflict".into());
            break;
        };
        if kind == Kind::WorkspaceAdd && status == 0 {
            wss.push(WsInfo { num: 1, dir: root.join("w2"), known_stale: false });
        }
        let Some(post) = observe_ws(&mut w, &wss) else {
            w.ops.truncate(nops_before);
            exempt = true;
            shapes.push("session:ended-by-conflict".into());
            if kind == Kind::WorkspaceAdd && status == 0 {
                wss.pop();
            }
            break;
        };
        heads = new_heads;
        final_heads = heads.clone();
        // statistics
        let pre = cur_ws.iter().find(|(n, _)| *n == wss[wi].num).map(|(_, s)| s.clone());
        let postw = post.iter().find(|(n, _)| *n == wss[wi].num).map(|(_, s)| s.clone());
        if let (Some(a), Some(b)) = (&pre, &postw) {
            if a.disk != b.disk {
                n_checkout += 1;
            }
            if status == 0 && !added.is_empty() && kind != Kind::IgnoreWc {
                let first = &w.ops[added[0]];
                if first.wcs.iter().any(|(n, t)| *n == wss[wi].num && *t == a.disk) && a.disk != a.tree {
                    n_snap_ops += 1;
                }
            }
        }
        if status == 1 {
            n_stale += 1;
            wss[wi].known_stale = true;
        } else if status == 0 && !matches!(kind, Kind::IgnoreWc | Kind::AtOp(_) | Kind::OpAbandon) {
            wss[wi].known_stale = false;
        }
        if kind == Kind::UpdateStale && status == 0 {
            n_update_stale += 1;
        }
        if kind == Kind::IgnoreWc && status == 0 {
            n_ignore += 1;
        }
        let kind_term = match kind {
            Kind::Normal => "KNormal".to_string(),
            Kind::IgnoreWc => "KIgnoreWc".to_string(),
            Kind::UpdateStale => "KUpdateStale".to_string(),
            Kind::WorkspaceAdd => "(KWorkspaceAdd 1%N)".to_string(),
            Kind::AtOp(x) => format!("(KAtOp {x})"),
            Kind::OpAbandon => "KOpAbandon".to_string(),
            Kind::Gc => "KGc".to_string(),
            Kind::RecoverThen => "KRecoverThen".to_string(),
            Kind::Edit => "KEdit".to_string(),
        };
        if matches!(kind, Kind::UpdateStale | Kind::RecoverThen) && out.stderr.contains("recovery commit") {
            n_recover += 1;
        }
        // a command that found several operation heads first merges them: that operation is
        // reported as its own step
        let mut added = added;
        if heads_before.len() >= 2
            && matches!(kind, Kind::Normal | Kind::IgnoreWc | Kind::WorkspaceAdd)
            && !added.is_empty()
        {
            let mut ps = w.ops[added[0]].parents.clone();
            ps.sort();
            if ps == heads_before {
                let m = added.remove(0);
                events.push(format!(
                    "(mk_event {}%N KMerge 0%N [{}] [{m}] {})",
                    wss[wi].num,
                    opinfo_term(&w.ops[m]),
                    wsl_term(&cur_ws)
                ));
                n_merge += 1;
            }
        }
        if matches!(kind, Kind::AtOp(_)) && status == 0 {
            n_atop += 1;
        }
        shapes.push(format!(
            "cmd:{}{}",
            match kind {
                Kind::IgnoreWc => "ignore-wc ",
                Kind::AtOp(_) => "at-op ",
                _ => "",
            },
            args.iter().skip(if matches!(kind, Kind::AtOp(_)) { 2 } else { 0 }).filter(|a| !a.starts_with("--ignore")).take(if args.iter().any(|a| a == "workspace" || a == "op") { 2 } else { 1 }).cloned().collect::<Vec<_>>().join(" ")
        ));
        shapes.push(format!("status:{status}"));
        events.push(format!(
            "(mk_event {}%N {kind_term} {status}%N [{}] {} {})",
            wss[wi].num,
            added.iter().map(|&i| opinfo_term(&w.ops[i])).collect::<Vec<_>>().join("; "),
            nat_list(&head_nums(&w, &heads)),
            wsl_term(&post)
        ));
        if forget && status == 0 {
            n_absent += 1;
        }
        cur_ws = post;
    }
    // ---- final enumeration of everything the operation log records (independent pass),
    // together with the enumerations taken just before operations were abandoned
    if let Err(e) = enumerate_log(&mut w, &loader, &final_heads, &mut recorded_set) {
        return failed_case(e);
    }
    let recorded: Vec<String> = recorded_set.iter().map(|(i, n, d)| format!("({i}, {n}%N, {d}%N)")).collect();
    let term = format!(
        "(mk_case {init_term} [{}] [{}] {})%nat",
        events.join("; "),
        recorded.join("; "),
        if exempt { "true" } else { "false" }
    );
    if n_snap_ops > 0 {
        shapes.push("session:snapshot-op".into());
    }
    if n_checkout > 0 {
        shapes.push("session:disk-overwritten".into());
    }
    if n_stale > 0 {
        shapes.push("session:stale-error".into());
    }
    if n_update_stale > 0 {
        shapes.push("session:update-stale".into());
    }
    if n_ignore > 0 {
        shapes.push("session:ignore-working-copy".into());
    }
    if n_absent > 0 {
        shapes.push("session:workspace-removed-from-view".into());
    }
    if n_atop > 0 {
        shapes.push("session:at-op".into());
    }
    if n_recover > 0 {
        shapes.push("session:recovery-commit".into());
    }
    if n_merge > 0 {
        shapes.push("session:merged-operation-heads".into());
    }
    let _ = std::fs::remove_dir_all(&root);
    SessionResult {
        term,
        nontrivial: n_snap_ops > 0 && n_checkout > 0,
        shapes,
        invocations: sess.invocations,
    }
}

fn main() {
    jjv::run("C40", "C40", |ctx| {
        let idx = ctx.indices();
        let jobs: Vec<(usize, Rng)> = idx.iter().map(|&i| (i, ctx.rng(i))).collect();
        let scratch = ctx.scratch.clone();
        let tier = ctx.tier.clone();
        let nthreads = 12usize.min(jobs.len().max(1));
        let next = std::sync::atomic::AtomicUsize::new(0);
        let results: std::sync::Mutex<BTreeMap<usize, SessionResult>> = std::sync::Mutex::new(BTreeMap::new());
        std::thread::scope(|s| {
            for _ in 0..nthreads {
                s.spawn(|| loop {
                    let k = next.fetch_add(1, std::sync::atomic::Ordering::SeqCst);
                    if k >= jobs.len() {
                        break;
                    }
                    let (i, rng) = jobs[k].clone();
                    let r = jjv::catch(|| session(i, rng, &scratch, &tier))
                        .unwrap_or_else(|| failed_case("panic"));
                    results.lock().unwrap().insert(i, r);
                });
            }
        });
        let results = results.into_inner().unwrap();
        let mut inv = 0;
        for (i, r) in results {
            inv += r.invocations;
            for s in &r.shapes {
                ctx.count(s);
            }
            ctx.emit(i, r.term, r.nontrivial, "session");
        }
        ctx.note(format!("jj invocations: {inv}"));
    });
}
