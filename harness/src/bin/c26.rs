//! C26: the mtime rule of the snapshot, observed on the real TreeState with FORCED mtimes.
//!
//! Every case is a scripted trace of events on one tracked path `f` (external write / chmod /
//! delete; TreeState::load / snapshot / save), each with a real time `t`. The harness performs
//! the events on a real `TreeState` over a real directory and forces the modification time of
//! the file after every write, and of `tree_state` after every save, to `gran(u, t)` — so the
//! coincidences that a coarse file-system clock would produce happen deterministically.
//! After each snapshot it records the tree value at `f` (content id, length, exec) and the
//! recorded file state (type, mtime, size).
use std::fs;
use std::os::unix::fs::PermissionsExt as _;
use std::path::Path;
use std::sync::Arc;
use std::time::Duration;
use std::time::SystemTime;

use jj_lib::backend::TreeValue;
use jj_lib::local_working_copy::ExecChangeSetting;
use jj_lib::local_working_copy::TreeState;
use jj_lib::local_working_copy::TreeStateSettings;
use jj_lib::repo::Repo as _;
use jj_lib::repo_path::RepoPath;
use jj_lib::store::Store;
use jjv::coq;
use pollster::FutureExt as _;
use testutils::TestRepo;

const BASE: u64 = 1_700_000_000_000; // ms; a multiple of every granularity used

#[derive(Clone, Debug)]
enum Ev {
    Write(u64, bool, u64, u64),
    Chmod(u64, bool),
    Delete(u64),
    Load(u64),
    Snapshot(u64),
    Save(u64),
}

impl Ev {
    fn coq(&self) -> String {
        match self {
            Ev::Write(t, x, c, s) => format!("(EvWrite {t} {} {c} {s})", coq::b(*x)),
            Ev::Chmod(t, x) => format!("(EvChmod {t} {})", coq::b(*x)),
            Ev::Delete(t) => format!("(EvDelete {t})"),
            Ev::Load(t) => format!("(EvLoad {t})"),
            Ev::Snapshot(t) => format!("(EvSnapshot {t})"),
            Ev::Save(t) => format!("(EvSave {t})"),
        }
    }
}

fn gran(u: u64, t: u64) -> u64 {
    if u == 0 { 0 } else { t / u * u }
}

fn set_mtime(path: &Path, ms: u64) {
    let f = fs::File::options().write(true).open(path).unwrap();
    f.set_modified(SystemTime::UNIX_EPOCH + Duration::from_millis(ms))
        .unwrap();
}

fn content_bytes(id: u64, size: u64) -> Vec<u8> {
    let mut v = vec![b'0' + id as u8];
    while (v.len() as u64) < size {
        v.push(b'x');
    }
    v
}

fn settings() -> TreeStateSettings {
    TreeStateSettings {
        conflict_marker_style: jj_lib::conflicts::ConflictMarkerStyle::Diff,
        eol_conversion_mode: jj_lib::local_working_copy::EolConversionMode::None,
        exec_change_setting: ExecChangeSetting::Respect,
        fsmonitor_settings: jj_lib::fsmonitor::FsmonitorSettings::None,
    }
}

/// Runs the trace on the real code; returns one observation per snapshot as a Coq term.
fn run_impl(store: &Arc<Store>, dir: &Path, u: u64, t0: u64, evs: &[Ev]) -> Vec<String> {
    let wc = dir.join("wc");
    let state = dir.join("state");
    fs::create_dir_all(&wc).unwrap();
    fs::create_dir_all(&state).unwrap();
    let file = wc.join("f");
    let path = RepoPath::from_internal_string("f").unwrap();
    let ts_file = state.join("tree_state");
    let mut ts = TreeState::init(store.clone(), wc.clone(), state.clone(), &settings()).unwrap();
    set_mtime(&ts_file, gran(u, t0));
    let mut out = vec![];
    for ev in evs {
        match *ev {
            Ev::Write(t, x, c, s) => {
                let _ = fs::remove_file(&file);
                fs::write(&file, content_bytes(c, s)).unwrap();
                let mode = if x { 0o755 } else { 0o644 };
                fs::set_permissions(&file, fs::Permissions::from_mode(mode)).unwrap();
                set_mtime(&file, gran(u, t));
            }
            Ev::Chmod(_, x) => {
                if file.exists() {
                    let mode = if x { 0o755 } else { 0o644 };
                    fs::set_permissions(&file, fs::Permissions::from_mode(mode)).unwrap();
                }
            }
            Ev::Delete(_) => {
                let _ = fs::remove_file(&file);
            }
            Ev::Load(_) => {
                ts = TreeState::load(store.clone(), wc.clone(), state.clone(), &settings())
                    .unwrap();
            }
            Ev::Snapshot(_) => {
                let opts = testutils::empty_snapshot_options();
                ts.snapshot(&opts).block_on().unwrap();
                let value = ts.current_tree().path_value(path).block_on().unwrap();
                let tree = match value.into_resolved() {
                    Ok(None) => "None".to_string(),
                    Ok(Some(TreeValue::File { id, executable, .. })) => {
                        let bytes = testutils::read_file(store, path, &id);
                        let cid = bytes.first().map_or(99, |b| b.wrapping_sub(b'0') as u64);
                        format!(
                            "(Some (mk_tval {cid} {} {}))",
                            bytes.len(),
                            coq::b(executable)
                        )
                    }
                    other => panic!("unexpected tree value {other:?}"),
                };
                let st = match ts.file_states().get(path) {
                    None => "None".to_string(),
                    Some(s) => {
                        let ty = format!("{:?}", s.file_type);
                        let ty = if ty.contains("Symlink") {
                            "FSymlink".to_string()
                        } else if ty.contains("GitSubmodule") {
                            "FGitSubmodule".to_string()
                        } else {
                            format!("(FNormal {})", coq::b(ty.contains("ExecBit(true)")))
                        };
                        format!("(Some (mk_fstate {ty} {} {}))", s.mtime.0, s.size)
                    }
                };
                out.push(format!("(mk_obs {tree} {st})"));
            }
            Ev::Save(t) => {
                ts.save().unwrap();
                set_mtime(&ts_file, gran(u, t));
            }
        }
    }
    out
}

struct Clock {
    now: u64,
    u: u64,
}

impl Clock {
    /// Advance by a step chosen so that consecutive events often share a granule.
    fn tick(&mut self, rng: &mut jjv::Rng) -> u64 {
        let u = self.u.max(1);
        let choices = [0, 0, 0, 1, u / 4, u / 2, u - 1, u, u + 1];
        self.now += *rng.pick(&choices);
        self.now
    }
    /// Stay in the current granule if at all possible.
    fn same_granule(&mut self, rng: &mut jjv::Rng) -> u64 {
        let u = self.u.max(1);
        let room = (gran(u, self.now) + u - 1).saturating_sub(self.now);
        if room > 0 {
            self.now += rng.below(room.min(3) + 1);
        }
        self.now
    }
    fn next_granule(&mut self, rng: &mut jjv::Rng) -> u64 {
        let u = self.u.max(1);
        self.now = gran(u, self.now) + u + rng.below(u.min(3));
        self.now
    }
}

fn random_external(rng: &mut jjv::Rng, t: u64, same_size: bool) -> Ev {
    match rng.below(10) {
        0 => Ev::Delete(t),
        1 | 2 => Ev::Chmod(t, rng.chance(1, 2)),
        _ => {
            let size = if same_size || rng.chance(4, 5) { 4 } else { 5 };
            Ev::Write(t, rng.chance(1, 5), rng.range(1, 3), size)
        }
    }
}

fn main() {
    jjv::run("C26", "C26", |ctx| {
        // keep every temp dir of testutils inside the scratch dir
        unsafe { std::env::set_var("TMPDIR", &ctx.scratch) };
        let test_repo = TestRepo::init();
        let store = test_repo.repo.store().clone();
        for i in ctx.indices() {
            let mut rng = ctx.rng(i);
            let u = *rng.pick(&[1u64, 1000, 1000, 2000, 2000, 10]);
            let pool = rng.below(10);
            let mut t0 = BASE + rng.below(3) * u + rng.below(u);
            if pool <= 2 {
                t0 = gran(u, t0);
            }
            let mut clk = Clock { now: t0, u };
            let mut evs: Vec<Ev> = vec![];
            let shape;
            match pool {
                0 | 1 => {
                    // everything inside one granule: write, load, snapshot, save, same-size
                    // edit, (load), snapshot  -- the `<` vs `<=` scenario
                    shape = "one-granule edit after save";
                    let c1 = rng.range(1, 3);
                    let c2 = 1 + (c1 % 3);
                    let x = rng.chance(1, 4);
                    evs.push(Ev::Write(clk.same_granule(&mut rng), x, c1, 4));
                    evs.push(Ev::Load(clk.same_granule(&mut rng)));
                    evs.push(Ev::Snapshot(clk.same_granule(&mut rng)));
                    evs.push(Ev::Save(clk.same_granule(&mut rng)));
                    evs.push(Ev::Write(clk.same_granule(&mut rng), x, c2, 4));
                    if rng.chance(2, 3) {
                        evs.push(Ev::Load(clk.same_granule(&mut rng)));
                    }
                    evs.push(Ev::Snapshot(clk.same_granule(&mut rng)));
                    if rng.chance(1, 2) {
                        // a later granule: the now-recorded state must stay correct
                        evs.push(Ev::Save(clk.next_granule(&mut rng)));
                        evs.push(Ev::Load(clk.tick(&mut rng)));
                        evs.push(Ev::Snapshot(clk.tick(&mut rng)));
                    }
                }
                2 => {
                    // in-command edit window: second save without snapshot in a later granule;
                    // the edit keeps / changes the size, or is a chmod; the final snapshot is done
                    // by a reloaded process or by the process that did the second save
                    shape = "in-command edit, save without snapshot";
                    let c1 = rng.range(1, 3);
                    let c2 = 1 + (c1 % 3);
                    evs.push(Ev::Write(clk.same_granule(&mut rng), false, c1, 4));
                    evs.push(Ev::Load(clk.same_granule(&mut rng)));
                    evs.push(Ev::Snapshot(clk.same_granule(&mut rng)));
                    evs.push(Ev::Save(clk.same_granule(&mut rng)));
                    match rng.below(4) {
                        0 => evs.push(Ev::Write(clk.same_granule(&mut rng), false, c2, 5)),
                        1 => evs.push(Ev::Chmod(clk.same_granule(&mut rng), true)),
                        _ => evs.push(Ev::Write(clk.same_granule(&mut rng), false, c2, 4)),
                    }
                    evs.push(Ev::Load(clk.tick(&mut rng)));
                    evs.push(Ev::Save(clk.next_granule(&mut rng)));
                    if rng.chance(1, 2) {
                        evs.push(Ev::Load(clk.tick(&mut rng)));
                    }
                    evs.push(Ev::Snapshot(clk.tick(&mut rng)));
                }
                3 | 4 | 5 => {
                    // disciplined sessions: edits only outside snapshot..save
                    shape = "disciplined sessions";
                    for _ in 0..rng.range(2, 4) {
                        for _ in 0..rng.below(3) {
                            { let t = clk.tick(&mut rng); evs.push(random_external(&mut rng, t, true)); }
                        }
                        evs.push(Ev::Load(clk.tick(&mut rng)));
                        if rng.chance(1, 3) {
                            { let t = clk.tick(&mut rng); evs.push(random_external(&mut rng, t, true)); }
                        }
                        evs.push(Ev::Snapshot(clk.tick(&mut rng)));
                        if rng.chance(1, 5) {
                            evs.push(Ev::Chmod(clk.tick(&mut rng), rng.chance(1, 2)));
                        }
                        evs.push(Ev::Save(clk.tick(&mut rng)));
                        if rng.chance(1, 4) {
                            // same process snapshots again later
                            for _ in 0..rng.below(2) {
                                { let t = clk.tick(&mut rng); evs.push(random_external(&mut rng, t, true)); }
                            }
                            evs.push(Ev::Snapshot(clk.tick(&mut rng)));
                            evs.push(Ev::Save(clk.tick(&mut rng)));
                        }
                    }
                    for _ in 0..rng.below(3) {
                        { let t = clk.tick(&mut rng); evs.push(random_external(&mut rng, t, true)); }
                    }
                    evs.push(Ev::Load(clk.tick(&mut rng)));
                    evs.push(Ev::Snapshot(clk.tick(&mut rng)));
                }
                6 | 7 => {
                    // arbitrary history, then save, edits, snapshot (C26_detected's shape)
                    shape = "any history; save; edits; snapshot";
                    for _ in 0..rng.range(2, 8) {
                        let t = clk.tick(&mut rng);
                        evs.push(match rng.below(6) {
                            0 => Ev::Load(t),
                            1 => Ev::Snapshot(t),
                            2 => Ev::Save(t),
                            _ => random_external(&mut rng, t, true),
                        });
                    }
                    evs.push(Ev::Save(clk.tick(&mut rng)));
                    let stay = rng.chance(1, 2);
                    for _ in 0..rng.range(1, 2) {
                        let t = if stay { clk.same_granule(&mut rng) } else { clk.tick(&mut rng) };
                        evs.push(Ev::Write(t, rng.chance(1, 5), rng.range(1, 3), 4));
                    }
                    if rng.chance(1, 2) {
                        evs.push(Ev::Load(clk.tick(&mut rng)));
                    }
                    evs.push(Ev::Snapshot(clk.tick(&mut rng)));
                }
                8 => {
                    // fully random, including size changes
                    shape = "random";
                    for _ in 0..rng.range(3, 14) {
                        let t = clk.tick(&mut rng);
                        evs.push(match rng.below(7) {
                            0 => Ev::Load(t),
                            1 | 2 => Ev::Snapshot(t),
                            3 => Ev::Save(t),
                            _ => random_external(&mut rng, t, false),
                        });
                    }
                    evs.push(Ev::Snapshot(clk.tick(&mut rng)));
                }
                _ => {
                    // clock going backwards once (mtime-preserving tools): correspondence only
                    shape = "clock goes back";
                    clk.now += 2 * u.max(1);
                    for k in 0..rng.range(4, 10) {
                        if k == 3 {
                            clk.now = clk.now.saturating_sub(rng.range(1, 2) * u.max(1)).max(BASE);
                        }
                        let t = clk.tick(&mut rng);
                        evs.push(match rng.below(6) {
                            0 => Ev::Load(t),
                            1 | 2 => Ev::Snapshot(t),
                            3 => Ev::Save(t),
                            _ => random_external(&mut rng, t, true),
                        });
                    }
                    evs.push(Ev::Load(clk.tick(&mut rng)));
                    evs.push(Ev::Snapshot(clk.tick(&mut rng)));
                }
            }
            let dir = ctx.scratch.join(format!("case{i}"));
            let obs = jjv::catch(|| run_impl(&store, &dir, u, t0, &evs));
            let _ = fs::remove_dir_all(&dir);
            let (obs, panicked) = match obs {
                Some(o) => (o, false),
                None => {
                    ctx.panicked();
                    (vec![], true)
                }
            };
            let term = coq::app(
                "C26.mk_case",
                &[
                    coq::n(u),
                    coq::n(t0),
                    coq::list(evs.iter(), |e| e.coq()),
                    coq::list(obs.iter(), |o| o.clone()),
                    coq::b(panicked),
                ],
            );
            // non-trivial: an external write lands in the same granule as an earlier save
            let mut save_granules = vec![];
            let mut nontrivial = false;
            for e in &evs {
                match e {
                    Ev::Save(t) => save_granules.push(gran(u, *t)),
                    Ev::Write(t, ..) if save_granules.contains(&gran(u, *t)) => nontrivial = true,
                    _ => {}
                }
            }
            let shape = format!("{shape}; u={u}");
            ctx.emit(i, term, nontrivial, &shape);
        }
    });
}
