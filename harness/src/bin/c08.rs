//! C08: rewrite::rebase_commit on random small commit graphs with random trees (root,
//! merges, conflicted parents), plus find_recursive_merge_commits / merge_commit_trees.
#[path = "../treegen.rs"]
mod treegen;

use std::collections::BTreeSet;
use std::sync::Arc;

use jj_lib::backend::CommitId;
use jj_lib::backend::TreeId;
use jj_lib::commit::Commit;
use jj_lib::conflict_labels::ConflictLabels;
use jj_lib::merge::Merge;
use jj_lib::merged_tree::MergedTree;
use jj_lib::repo::Repo;
use jj_lib::repo_path::RepoPath;
use jj_lib::rewrite::find_recursive_merge_commits;
use jj_lib::rewrite::merge_commit_trees;
use jj_lib::rewrite::merge_commit_trees_no_resolve;
use jj_lib::rewrite::rebase_commit;
use jj_lib::store::Store;
use jjv::Rng;
use jjv::coq;
use pollster::FutureExt as _;
use treegen::*;

fn resolved_tree(store: &Arc<Store>, t: &T) -> MergedTree {
    MergedTree::resolved(store.clone(), write_tree(store, RepoPath::root(), t))
}

fn opt_list(x: Option<String>) -> String {
    match x {
        Some(s) => format!("(Some {s})"),
        None => "None".into(),
    }
}

fn main() {
    jjv::run("C08", "C08", |ctx| {
        if std::env::var("JJV_DEBUG").is_ok() {
            let _ = std::panic::take_hook();
        }
        let repos: Vec<_> = [false, true].iter().map(|a| test_repo(*a, false)).collect();
        for i in ctx.indices() {
            let mut rng = ctx.rng(i);
            let accept = rng.chance(2, 3);
            let repo = &repos[accept as usize].repo;
            let store = repo.store().clone();
            let mut tx = repo.start_transaction();
            let mut_repo = tx.repo_mut();
            let names = rng.range(2, 4) as u8;
            let depth = rng.range(0, 2) as u32;
            let rich = rng.chance(1, 3);

            // ---- the graph: position 0 is the root commit
            // One case in eight: a merge of three parents with partially shared history
            // (parents 1 and 3 descend from A, parent 2 only from R; A edits a file, parent 1
            // edits it again): the merge base of the third parent must come from ALL parents
            // merged so far.
            let special = rng.chance(1, 8);
            let mut n = rng.range(3, 8) as usize;
            let root_commit = store.root_commit();
            let mut commits: Vec<Commit> = vec![root_commit];
            let mut parents: Vec<Vec<usize>> = vec![vec![]];
            let mut mem: Vec<Option<T>> = vec![Some(T::new())];
            let mut forced: Option<(usize, Vec<usize>)> = None;
            if special {
                let x = rng.below(names as u64) as u8;
                let fx = |c: usize| V::File { c, x: false, cp: 0 };
                let mut t_r = gen_tree(&mut rng, depth, names, rich);
                t_r.insert(x, fx(0));
                let e = rng.below(2);
                let mut t_a = mutated(&mut rng, &t_r, e, names, rich);
                t_a.insert(x, fx(1));
                let e = rng.below(2);
                let mut t_p1 = mutated(&mut rng, &t_a, e, names, rich);
                t_p1.insert(x, fx(if rng.chance(1, 2) { 4 } else { 3 }));
                let e = 1 + rng.below(2);
                let mut t_p2 = mutated(&mut rng, &t_r, e, names, rich);
                t_p2.insert(x, fx(0));
                let e = 1 + rng.below(2);
                let mut t_p3 = mutated(&mut rng, &t_a, e, names, rich);
                t_p3.insert(x, fx(1));
                let t_m = mutated(&mut rng, &t_p1, 1, names, rich);
                let t_x = mutated(&mut rng, &t_r, 1, names, rich);
                let mut order = vec![3usize, 4, 5];
                if rng.chance(1, 3) {
                    rng.shuffle(&mut order);
                }
                let plan: Vec<(Vec<usize>, T)> = vec![
                    (vec![0], t_r),
                    (vec![1], t_a),
                    (vec![2], t_p1),
                    (vec![1], t_p2),
                    (vec![2], t_p3),
                    (order.clone(), t_m),
                    (vec![1], t_x),
                ];
                n = plan.len();
                for (ps, t) in plan {
                    let pids: Vec<CommitId> = ps.iter().map(|p| commits[*p].id().clone()).collect();
                    let commit = mut_repo
                        .new_commit(pids, resolved_tree(&store, &t))
                        .write()
                        .block_on()
                        .unwrap();
                    commits.push(commit);
                    parents.push(ps);
                    mem.push(Some(t));
                }
                forced = Some(if rng.chance(1, 2) {
                    // rebase the three-parent merge away
                    (6, vec![*rng.pick(&[7usize, 1, 2])])
                } else {
                    // rebase another commit onto the three parents
                    (7, order)
                });
            }
            for k in 1..=(if special { 0 } else { n }) {
                let np = match rng.below(10) {
                    0..=6 => 1,
                    7 | 8 => 2,
                    _ => 3,
                }
                .min(k);
                let mut ps: Vec<usize> = vec![];
                while ps.len() < np {
                    // prefer recent commits so that chains and criss-cross merges appear
                    let c = if rng.chance(1, 2) { k - 1 - rng.usize(k.min(2)) } else { rng.usize(k) };
                    if !ps.contains(&c) {
                        ps.push(c);
                    }
                }
                let base = mem[ps[0]].clone();
                let (tree, m): (MergedTree, Option<T>) = match rng.below(10) {
                    // same tree as the first parent (empty commit)
                    0 => (commits[ps[0]].tree(), base.clone()),
                    // the auto-merged parents, unchanged
                    1 | 2 if ps.len() > 1 => {
                        let pc: Vec<Commit> = ps.iter().map(|p| commits[*p].clone()).collect();
                        (merge_commit_trees(mut_repo, &pc).block_on().unwrap(), None)
                    }
                    // a tree that is really conflicted: the merge of three variants
                    3 if base.is_some() => {
                        let b = base.clone().unwrap();
                        let e1 = 1 + rng.geometric(2);
                        let e2 = 1 + rng.geometric(2);
                        let l = mutated(&mut rng, &b, e1, names, rich);
                        let r = mutated(&mut rng, &b, e2, names, rich);
                        let merged = MergedTree::merge(Merge::from_vec(vec![
                            (resolved_tree(&store, &l), "l".to_string()),
                            (resolved_tree(&store, &b), "b".to_string()),
                            (resolved_tree(&store, &r), "r".to_string()),
                        ]))
                        .block_on()
                        .unwrap();
                        (merged, None)
                    }
                    _ => {
                        let t = match &base {
                            Some(b) if !rng.chance(1, 8) => {
                                let e = 1 + rng.geometric(3);
                                mutated(&mut rng, b, e, names, rich)
                            }
                            _ => gen_tree(&mut rng, depth, names, rich),
                        };
                        (resolved_tree(&store, &t), Some(t))
                    }
                };
                let pids: Vec<CommitId> = ps.iter().map(|p| commits[*p].id().clone()).collect();
                let commit = mut_repo.new_commit(pids, tree).write().block_on().unwrap();
                commits.push(commit);
                parents.push(ps);
                mem.push(m);
            }

            // ---- what to rebase, and where to
            let target = match &forced {
                Some((t, _)) => *t,
                None => 1 + rng.usize(n),
            };
            let mut below = vec![false; n + 1]; // descendants of target (inclusive)
            below[target] = true;
            for k in target + 1..=n {
                below[k] = parents[k].iter().any(|p| below[*p]);
            }
            let candidates: Vec<usize> = (0..=n).filter(|k| !below[*k]).collect();
            let new_parents: Vec<usize> = if let Some((_, np)) = &forced {
                np.clone()
            } else if rng.chance(1, 10) {
                parents[target].clone()
            } else {
                let want = match rng.below(10) {
                    0..=5 => 1,
                    6..=8 => 2,
                    _ => 3,
                }
                .min(candidates.len());
                let mut v = vec![];
                while v.len() < want {
                    let c = *rng.pick(&candidates);
                    if !v.contains(&c) {
                        v.push(c);
                    }
                }
                v
            };
            let old_commit = commits[target].clone();
            let old_parent_commits: Vec<Commit> = parents[target].iter().map(|p| commits[*p].clone()).collect();
            let new_parent_commits: Vec<Commit> = new_parents.iter().map(|p| commits[*p].clone()).collect();
            let ids_of = |cs: &[Commit]| cs.iter().map(|c| c.id().clone()).collect::<Vec<_>>();
            let pos_of = |id: &CommitId| commits.iter().position(|c| c.id() == id).unwrap() as u64;

            let frmc = |cs: &[Commit]| {
                jjv::catch(|| {
                    find_recursive_merge_commits(&store, mut_repo.index(), ids_of(cs))
                        .block_on()
                        .ok()
                })
                .flatten()
                .map(|m| coq::list(m.iter(), |id| coq::n(pos_of(id))))
            };
            let frmc_old = frmc(&old_parent_commits);
            let frmc_new = frmc(&new_parent_commits);
            let base_of = |cs: &[Commit]| {
                jjv::catch(|| merge_commit_trees(mut_repo as &dyn Repo, cs).block_on().ok()).flatten()
            };
            let old_base = base_of(&old_parent_commits);
            let new_base = base_of(&new_parent_commits);
            let no_resolve_of = |cs: &[Commit]| {
                merge_commit_trees_no_resolve(mut_repo as &dyn Repo, cs)
                    .block_on()
                    .unwrap()
                    .into_tree_ids()
            };
            let old_unres = no_resolve_of(&old_parent_commits);
            let new_unres = no_resolve_of(&new_parent_commits);
            let (Some(old_base), Some(new_base)) = (old_base, new_base) else {
                ctx.panicked();
                ctx.note(format!("case {i}: merge_commit_trees failed"));
                continue;
            };
            let unresolved = MergedTree::merge_no_resolve(Merge::from_vec(vec![
                (new_base.clone(), "nb".to_string()),
                (old_base.clone(), "ob".to_string()),
                (old_commit.tree(), "ot".to_string()),
            ]))
            .into_tree_ids();

            let rebased: Option<Commit> = jjv::catch(|| {
                rebase_commit(mut_repo, old_commit.clone(), ids_of(&new_parent_commits))
                    .block_on()
                    .ok()
            })
            .flatten();
            let back: Option<Commit> = rebased.as_ref().and_then(|r| {
                jjv::catch(|| {
                    rebase_commit(mut_repo, r.clone(), ids_of(&old_parent_commits))
                        .block_on()
                        .ok()
                })
                .flatten()
            });
            if rebased.is_none() || back.is_none() {
                ctx.panicked();
            }
            let back_unres = rebased.as_ref().map(|r| {
                MergedTree::merge_no_resolve(Merge::from_vec(vec![
                    (old_base.clone(), "ob".to_string()),
                    (new_base.clone(), "nb".to_string()),
                    (r.tree(), "r".to_string()),
                ]))
                .into_tree_ids()
            });

            // ---- encode
            let root = RepoPath::root();
            let mut intern = Interner::new(store.clone());
            let mut rows = vec![];
            for (k, c) in commits.iter().enumerate() {
                rows.push(coq::pair(
                    coq::list(parents[k].iter(), |p| coq::n(*p as u64)),
                    intern.trees(c.tree_ids()),
                ));
            }
            let commits_term = list_of(rows);
            let old_base_term = intern.trees(old_base.tree_ids());
            let new_base_term = intern.trees(new_base.tree_ids());
            let unresolved_term = intern.trees(&unresolved);
            let mut seen = BTreeSet::new();
            let mut oracle_rows = vec![];
            for ts0 in [Some(&old_unres), Some(&new_unres), Some(&unresolved), back_unres.as_ref()]
                .into_iter()
                .flatten()
            {
                oracle_rounds(&store, &mut intern, ts0, &mut seen, &mut oracle_rows);
            }
            let rebased_term = opt_list(rebased.as_ref().map(|r| intern.trees(r.tree_ids())));
            let back_term = opt_list(back.as_ref().map(|r| intern.trees(r.tree_ids())));
            let mut paths: BTreeSet<Vec<u8>> = BTreeSet::new();
            let mut all_ids: Vec<TreeId> = vec![];
            all_ids.extend(old_base.tree_ids().iter().cloned());
            all_ids.extend(new_base.tree_ids().iter().cloned());
            all_ids.extend(old_commit.tree_ids().iter().cloned());
            if let Some(r) = &rebased {
                all_ids.extend(r.tree_ids().iter().cloned());
            }
            for id in &all_ids {
                stored_paths(&store, root, id, &mut paths);
            }
            let mut vrows = vec![];
            let mut conflicted_paths = 0;
            if let Some(r) = &rebased {
                let rt = MergedTree::new(store.clone(), r.tree_ids().clone(), ConflictLabels::unlabeled());
                for p in &paths {
                    let path = repo_path(p);
                    let v = rt.path_value(&path).block_on().unwrap();
                    if !v.is_resolved() {
                        conflicted_paths += 1;
                    }
                    let mut terms = vec![];
                    for t in v.iter() {
                        terms.push(intern.oval(&path, t));
                    }
                    vrows.push(coq::pair(coq::list(p.iter(), |x| coq::n(*x as u64)), list_of(terms)));
                }
            }
            let term = coq::app(
                "C08.mk_case",
                &[
                    coq::b(accept),
                    intern.table(),
                    commits_term,
                    coq::n(target as u64),
                    coq::list(new_parents.iter(), |p| coq::n(*p as u64)),
                    list_of(oracle_rows),
                    opt_list(frmc_old),
                    opt_list(frmc_new),
                    format!("(Some {old_base_term})"),
                    format!("(Some {new_base_term})"),
                    unresolved_term,
                    rebased_term,
                    list_of(vrows),
                    back_term,
                ],
            );
            let same = new_parents == parents[target];
            let shape = format!(
                "{}oldp={} newp={} {}{}{}",
                if special { "3parents-shared " } else { "" },
                parents[target].len().min(2),
                new_parents.len().min(2),
                if same { "same-parents " } else { "" },
                match &rebased {
                    None => "panic",
                    Some(r) if r.tree_ids().is_resolved() => "resolved",
                    Some(_) => "conflict",
                },
                if old_base.tree_ids().is_resolved() && new_base.tree_ids().is_resolved() && old_commit.tree_ids().is_resolved() {
                    ""
                } else {
                    " conflicted-input"
                }
            );
            let _ = conflicted_paths;
            ctx.emit(i, term, !same, &shape);
        }
    });
}
