//! C13: two concurrent transactions started from the same ReadonlyRepo (create / rewrite /
//! abandon commits, set / move / delete bookmarks, move / add / remove workspaces), both
//! written, then reconciled by the real RepoLoader::merge_operations (what load_at_head
//! runs) in either order.  All commits have a single parent, so every commit is emitted as
//! the list of (change, description) numbers from itself down to the root.
use std::collections::BTreeMap;
use std::collections::HashMap;
use std::sync::Arc;

use jj_lib::backend::ChangeId;
use jj_lib::backend::CommitId;
use jj_lib::commit::Commit;
use jj_lib::config::ConfigLayer;
use jj_lib::config::ConfigSource;
use jj_lib::op_store::RefTarget;
use jj_lib::ref_name::RefNameBuf;
use jj_lib::ref_name::WorkspaceNameBuf;
use jj_lib::repo::MutableRepo;
use jj_lib::repo::ReadonlyRepo;
use jj_lib::repo::Repo as _;
use jj_lib::settings::UserSettings;
use jjv::Rng;
use jjv::coq;
use pollster::FutureExt as _;
use testutils::CommitBuilderExt as _;
use testutils::TestRepo;

fn settings() -> UserSettings {
    let mut config = testutils::base_user_config();
    let mut layer = ConfigLayer::empty(ConfigSource::User);
    layer.set_value("debug.commit-timestamp", "2001-02-03T04:05:06+07:00").unwrap();
    config.add_layer(layer);
    UserSettings::from_config(config).unwrap()
}

struct Names {
    changes: HashMap<ChangeId, u64>,
    descs: u64,
}

impl Names {
    fn change(&mut self, id: &ChangeId) -> u64 {
        let n = self.changes.len() as u64 + 1;
        *self.changes.entry(id.clone()).or_insert(n)
    }
    fn change_known(&self, id: &ChangeId) -> u64 {
        self.changes.get(id).copied().unwrap_or(999_999)
    }
    /// Registers every change id reachable from the view of `repo` (operations of the DAG
    /// may contain commits created by a reconciliation, with ids the harness never saw).
    fn absorb(&mut self, repo: &ReadonlyRepo) {
        let mut ids: Vec<CommitId> = repo.view().heads().iter().cloned().collect();
        ids.sort();
        for h in ids {
            let mut chain = vec![];
            let mut cur = repo.store().get_commit(&h).unwrap();
            while cur.id() != repo.store().root_commit_id() {
                chain.push(cur.clone());
                cur = repo.store().get_commit(&cur.parent_ids()[0]).unwrap();
            }
            for c in chain.iter().rev() {
                self.change(c.change_id());
            }
        }
    }
    fn next_desc(&mut self) -> (u64, String) {
        self.descs += 1;
        (self.descs, format!("d{}", self.descs))
    }
}

fn desc_num(c: &Commit) -> u64 {
    c.description().strip_prefix('d').and_then(|s| s.trim().parse().ok()).unwrap_or(0)
}

/// (change, description) from the commit down to (excluding) the root.
fn path(repo: &ReadonlyRepo, names: &Names, id: &CommitId) -> Vec<(u64, u64)> {
    let mut out = vec![];
    let mut cur = repo.store().get_commit(id).unwrap();
    while cur.id() != repo.store().root_commit_id() {
        out.push((names.change_known(cur.change_id()), desc_num(&cur)));
        let parents = cur.parent_ids();
        assert_eq!(parents.len(), 1, "merge commit in a C13 case");
        cur = repo.store().get_commit(&parents[0]).unwrap();
    }
    out
}

fn path_term(p: &[(u64, u64)]) -> String {
    coq::list(p.iter(), |(a, b)| coq::pair(coq::n(*a), coq::n(*b)))
}

fn name_num(s: &str) -> u64 {
    s[1..].parse().unwrap()
}

fn view_term(repo: &ReadonlyRepo, names: &Names) -> String {
    let view = repo.view();
    let mut heads: Vec<Vec<(u64, u64)>> = view.heads().iter().map(|h| path(repo, names, h)).collect();
    heads.sort();
    let mut bookmarks: Vec<(u64, String)> = view
        .local_bookmarks()
        .map(|(name, target)| {
            let terms = coq::list(target.as_merge().iter(), |t| match t {
                Some(id) => format!("(Some {})", path_term(&path(repo, names, id))),
                None => "None".to_string(),
            });
            (name_num(name.as_str()), terms)
        })
        .collect();
    bookmarks.sort();
    let mut wc: Vec<(u64, String)> = view
        .wc_commit_ids()
        .iter()
        .map(|(name, id)| (name_num(name.as_str()), path_term(&path(repo, names, id))))
        .collect();
    wc.sort();
    coq::app(
        "C13.mk_view",
        &[
            coq::list(heads.iter(), |h| path_term(h)),
            coq::list(bookmarks.iter(), |(k, t)| coq::pair(coq::n(*k), t.clone())),
            coq::list(wc.iter(), |(k, c)| coq::pair(coq::n(*k), c.clone())),
        ],
    )
}

struct SideStats {
    creates: u64,
    rewrites: u64,
    abandons: u64,
    bookmark_ops: u64,
    wc_ops: u64,
}

fn visible_commits(repo: &ReadonlyRepo) -> Vec<Commit> {
    let mut heads: Vec<CommitId> = repo.view().heads().iter().cloned().collect();
    heads.sort();
    let mut out: Vec<Commit> = vec![];
    for h in heads {
        let mut chain = vec![];
        let mut cur = repo.store().get_commit(&h).unwrap();
        while cur.id() != repo.store().root_commit_id() {
            chain.push(cur.clone());
            cur = repo.store().get_commit(&cur.parent_ids()[0]).unwrap();
        }
        for c in chain.into_iter().rev() {
            if !out.iter().any(|x| x.id() == c.id()) {
                out.push(c);
            }
        }
    }
    out
}

/// Random edits on one side, started from `repo`.  The side may rewrite/abandon only the
/// visible commits whose position (in `visible_commits`) is in `allowed_rewrite`.
fn random_side(
    rng: &mut Rng,
    names: &mut Names,
    repo: &Arc<ReadonlyRepo>,
    allowed_mask: u64,
    race: Option<u8>,
) -> (Arc<ReadonlyRepo>, SideStats) {
    let base_commits_v = visible_commits(repo);
    let base_commits: &[Commit] = &base_commits_v;
    let allowed_rewrite_v: Vec<usize> = (0..base_commits.len())
        .filter(|i| {
            let ch = names.change_known(base_commits[*i].change_id());
            (allowed_mask >> (ch % 60)) & 1 == 1
        })
        .collect();
    let allowed_rewrite: &[usize] = &allowed_rewrite_v;
    let mut tx = repo.start_transaction();
    let root = repo.store().root_commit_id().clone();
    let mut st = SideStats { creates: 0, rewrites: 0, abandons: 0, bookmark_ops: 0, wc_ops: 0 };
    let mut visible: Vec<Commit> = base_commits.to_vec();
    let mut touched: Vec<CommitId> = vec![]; // rewritten or abandoned here
    // edge pool: both sides act on the same bookmark / the same workspace first
    match race {
        Some(0) => {
            let name = RefNameBuf::from("b0");
            if rng.chance(1, 6) {
                tx.repo_mut().set_local_bookmark_target(&name, RefTarget::absent());
            } else if !base_commits.is_empty() {
                let c = rng.pick(base_commits);
                tx.repo_mut().set_local_bookmark_target(&name, RefTarget::normal(c.id().clone()));
            }
            st.bookmark_ops += 1;
        }
        Some(_) => {
            let name = WorkspaceNameBuf::from("w0");
            if rng.chance(1, 5) {
                let _ = tx.repo_mut().remove_workspace(&name).block_on();
            } else if !base_commits.is_empty() {
                let c = rng.pick(base_commits);
                let _ = tx.repo_mut().set_wc_commit(name, c.id().clone());
            }
            st.wc_ops += 1;
        }
        None => {}
    }
    let n_actions = if race.is_some() { rng.below(3) } else { 1 + rng.below(4) };
    for _ in 0..n_actions {
        let pick_any = |rng: &mut Rng, visible: &Vec<Commit>, touched: &Vec<CommitId>| -> Option<Commit> {
            let c: Vec<&Commit> = visible.iter().filter(|c| !touched.contains(c.id())).collect();
            if c.is_empty() { None } else { Some((*rng.pick(&c)).clone()) }
        };
        let m: &mut MutableRepo = tx.repo_mut();
        match rng.below(12) {
            0..=2 => {
                let parent = match pick_any(rng, &visible, &touched) {
                    Some(p) if rng.chance(3, 4) => p.id().clone(),
                    _ => root.clone(),
                };
                let (_, d) = names.next_desc();
                let c = m.new_commit(vec![parent], repo.store().empty_merged_tree()).set_description(d).write_unwrap();
                names.change(c.change_id());
                visible.push(c);
                st.creates += 1;
            }
            3..=4 => {
                // rewrite (describe) one of the base commits this side is allowed to touch
                let cands: Vec<&Commit> = allowed_rewrite
                    .iter()
                    .map(|i| &base_commits[*i])
                    .filter(|c| !touched.contains(c.id()))
                    .collect();
                if let Some(c) = cands.first().map(|_| (*rng.pick(&cands)).clone()) {
                    let (_, d) = names.next_desc();
                    let n = m.rewrite_commit(&c).set_description(d).write_unwrap();
                    touched.push(c.id().clone());
                    visible.push(n);
                    st.rewrites += 1;
                }
            }
            5 => {
                let cands: Vec<&Commit> = allowed_rewrite
                    .iter()
                    .map(|i| &base_commits[*i])
                    .filter(|c| !touched.contains(c.id()))
                    .collect();
                if let Some(c) = cands.first().map(|_| (*rng.pick(&cands)).clone()) {
                    m.record_abandoned_commit(&c);
                    touched.push(c.id().clone());
                    st.abandons += 1;
                }
            }
            6..=8 => {
                let name = RefNameBuf::from(format!("b{}", rng.below(3)));
                if rng.chance(1, 5) {
                    m.set_local_bookmark_target(&name, RefTarget::absent());
                } else if let Some(c) = pick_any(rng, &visible, &touched) {
                    m.set_local_bookmark_target(&name, RefTarget::normal(c.id().clone()));
                }
                st.bookmark_ops += 1;
            }
            _ => {
                let name = WorkspaceNameBuf::from(format!("w{}", rng.below(3)));
                if rng.chance(1, 4) {
                    let _ = m.remove_workspace(&name).block_on();
                } else if let Some(c) = pick_any(rng, &visible, &touched) {
                    let _ = m.set_wc_commit(name, c.id().clone());
                }
                st.wc_ops += 1;
            }
        }
    }
    tx.repo_mut().rebase_descendants().block_on().unwrap();
    std::thread::sleep(std::time::Duration::from_millis(2)); // distinct operation end times
    (tx.write("side").block_on().unwrap().leave_unpublished(), st)
}

const FAIL_TERM: &str = "(C13.mk_case [] [] (C13.mk_view [] [] []) true)";

/// Operations of the case, in creation order.
struct Dag {
    nodes: Vec<Arc<ReadonlyRepo>>,
}

impl Dag {
    fn add(&mut self, r: &Arc<ReadonlyRepo>) -> usize {
        self.nodes.push(r.clone());
        self.nodes.len() - 1
    }
    fn term(&self, names: &mut Names, heads: &[usize], merged: &ReadonlyRepo) -> String {
        for n in &self.nodes {
            names.absorb(n);
        }
        // rank = position in the order of OperationByEndTime (end time, then id)
        let mut order: Vec<usize> = (0..self.nodes.len()).collect();
        order.sort_by(|a, b| {
            let (oa, ob) = (self.nodes[*a].operation(), self.nodes[*b].operation());
            oa.metadata().time.end.cmp(&ob.metadata().time.end).then_with(|| oa.id().cmp(ob.id()))
        });
        let mut rank = vec![0u64; self.nodes.len()];
        for (r, i) in order.iter().enumerate() {
            rank[*i] = r as u64;
        }
        let nodes: Vec<String> = self
            .nodes
            .iter()
            .enumerate()
            .map(|(i, n)| {
                let parents: Vec<usize> = n
                    .operation()
                    .parent_ids()
                    .iter()
                    .filter_map(|p| self.nodes.iter().position(|m| m.operation().id() == p))
                    .collect();
                assert!(parents.iter().all(|p| *p < i));
                format!(
                    "(C13.mk_node {} {} {})",
                    coq::list(parents.iter(), |p| format!("{p}%nat")),
                    rank[i],
                    view_term(n, names)
                )
            })
            .collect();
        format!(
            "(C13.mk_case {} {} {} false)",
            coq::list(nodes.iter(), |x| x.clone()),
            coq::list(heads.iter(), |h| format!("{h}%nat")),
            view_term(merged, names)
        )
    }
}

fn new_base(rng: &mut Rng, names: &mut Names, repo0: &Arc<ReadonlyRepo>) -> Arc<ReadonlyRepo> {
    let root = repo0.store().root_commit_id().clone();
    let mut tx = repo0.start_transaction();
    let n0 = 3 + rng.usize(3);
    let mut base_commits: Vec<Commit> = vec![];
    for _ in 0..n0 {
        let parent = if base_commits.is_empty() || rng.chance(1, 4) {
            root.clone()
        } else {
            rng.pick(&base_commits).id().clone()
        };
        let (_, d) = names.next_desc();
        let c = tx
            .repo_mut()
            .new_commit(vec![parent], repo0.store().empty_merged_tree())
            .set_description(d)
            .write_unwrap();
        names.change(c.change_id());
        base_commits.push(c);
    }
    for b in 0..3 {
        if rng.chance(2, 3) {
            let c = rng.pick(&base_commits);
            tx.repo_mut()
                .set_local_bookmark_target(&RefNameBuf::from(format!("b{b}")), RefTarget::normal(c.id().clone()));
        }
    }
    for w in 0..2 {
        if w == 0 || rng.chance(1, 2) {
            let c = rng.pick(&base_commits);
            tx.repo_mut().set_wc_commit(WorkspaceNameBuf::from(format!("w{w}")), c.id().clone()).unwrap();
        }
    }
    std::thread::sleep(std::time::Duration::from_millis(2));
    tx.write("base").block_on().unwrap().leave_unpublished()
}

fn reconcile(
    loader: &jj_lib::repo::RepoLoader,
    dag: &Dag,
    heads: &[usize],
) -> Option<Arc<ReadonlyRepo>> {
    let ops: Vec<_> = heads.iter().map(|h| dag.nodes[*h].operation().clone()).collect();
    std::thread::sleep(std::time::Duration::from_millis(2));
    jjv::catch(|| loader.merge_operations(ops, None, Some("reconcile"), []).block_on().unwrap().0)
}

/// Corpus case (index 0): O -> A2;  O -> B1 -> B2;  B1 -> C2.  B1 creates bookmark b0 on a new
/// commit X and rewrites base commit c; B2 moves b0 to a new commit Y and rewrites c again; C2 and
/// A2 only add commits.  Merged in the order A2, B2, C2: the third head must be merged relative
/// to B1 (not O), so b0 = Y without conflict and B1's version of c does not come back.
fn corpus_nested() -> (String, bool, String) {
    let settings = settings();
    let test_repo = TestRepo::init_with_settings(&settings);
    let repo0 = test_repo.repo.clone();
    let loader = repo0.loader().clone();
    let root = repo0.store().root_commit_id().clone();
    let mut names = Names { changes: HashMap::new(), descs: 0 };
    let mut dag = Dag { nodes: vec![] };
    let empty = repo0.store().empty_merged_tree();
    let mut write = |tx: jj_lib::transaction::Transaction| {
        std::thread::sleep(std::time::Duration::from_millis(2));
        tx.write("t").block_on().unwrap().leave_unpublished()
    };
    // O: commit c with child k, workspace w0 on k
    let mut tx = repo0.start_transaction();
    let mut mk = |m: &mut MutableRepo, parent: &CommitId, names: &mut Names| {
        let (_, d) = names.next_desc();
        let c = m.new_commit(vec![parent.clone()], empty.clone()).set_description(d).write_unwrap();
        names.change(c.change_id());
        c
    };
    let c = mk(tx.repo_mut(), &root, &mut names);
    let k = mk(tx.repo_mut(), c.id(), &mut names);
    tx.repo_mut().set_wc_commit(WorkspaceNameBuf::from("w0"), k.id().clone()).unwrap();
    let o = write(tx);
    let io = dag.add(&o);
    // A2 from O: a new commit
    let mut tx = o.start_transaction();
    mk(tx.repo_mut(), &root, &mut names);
    let a2 = write(tx);
    // B1 from O: new commit X with bookmark b0, rewrite c
    let mut tx = o.start_transaction();
    let x = mk(tx.repo_mut(), &root, &mut names);
    tx.repo_mut().set_local_bookmark_target(&RefNameBuf::from("b0"), RefTarget::normal(x.id().clone()));
    let (_, d) = names.next_desc();
    let c1 = tx.repo_mut().rewrite_commit(&c).set_description(d).write_unwrap();
    tx.repo_mut().rebase_descendants().block_on().unwrap();
    let b1 = write(tx);
    let ib1 = dag.add(&b1);
    // B2 from B1: new commit Y, move b0 there, rewrite c again
    let mut tx = b1.start_transaction();
    let y = mk(tx.repo_mut(), &root, &mut names);
    tx.repo_mut().set_local_bookmark_target(&RefNameBuf::from("b0"), RefTarget::normal(y.id().clone()));
    let (_, d) = names.next_desc();
    tx.repo_mut().rewrite_commit(&c1).set_description(d).write_unwrap();
    tx.repo_mut().rebase_descendants().block_on().unwrap();
    let b2 = write(tx);
    // C2 from B1: a new commit on top of B1's version of c's child
    let mut tx = b1.start_transaction();
    let kids = visible_commits(&b1);
    let top = kids.iter().find(|cc| cc.change_id() == k.change_id()).unwrap().clone();
    mk(tx.repo_mut(), top.id(), &mut names);
    let c2 = write(tx);
    let ia2 = dag.add(&a2);
    let ib2 = dag.add(&b2);
    let ic2 = dag.add(&c2);
    let _ = (io, ib1);
    let heads = vec![ia2, ib2, ic2];
    match reconcile(&loader, &dag, &heads) {
        Some(m) => (dag.term(&mut names, &heads, &m), true, "corpus nested-ancestor A2,B2,C2".into()),
        None => (FAIL_TERM.into(), false, "merge panic".into()),
    }
}

fn one_case(rng: &mut Rng) -> (String, bool, String) {
    let settings = settings();
    let test_repo = TestRepo::init_with_settings(&settings);
    let repo0 = test_repo.repo.clone();
    let loader = repo0.loader().clone();
    let mut names = Names { changes: HashMap::new(), descs: 0 };
    let mut dag = Dag { nodes: vec![] };
    let base = new_base(rng, &mut names, &repo0);
    let io = dag.add(&base);

    // which changes each line of history may rewrite/abandon: disjoint (3/4) or shared (1/4)
    let overlapping = rng.chance(1, 4);
    let all: u64 = u64::MAX;
    let m1: u64 = if overlapping { all } else { rng.next_u64() };
    let m2: u64 = if overlapping { all } else { !m1 };
    let race = if rng.chance(1, 4) { Some(rng.below(2) as u8) } else { None };
    let kind = rng.below(100);
    let mut stats: Vec<SideStats> = vec![];
    let heads: Vec<usize>;
    let shape_kind: &str;
    if kind < 30 {
        // nested: two or three heads share an ancestor B1 that the lonely head(s) do not have
        shape_kind = "nested";
        let brace = if rng.chance(1, 2) { Some(0u8) } else { race };
        let (b1, s) = random_side(rng, &mut names, &base, m2, brace);
        stats.push(s);
        let ib1 = dag.add(&b1);
        let _ = ib1;
        let mut hs = vec![];
        let (a2, s) = random_side(rng, &mut names, &base, m1, race);
        stats.push(s);
        hs.push(dag.add(&a2));
        let n_inner = if rng.chance(1, 4) { 3 } else { 2 };
        for _ in 0..n_inner {
            let r = if rng.chance(1, 2) { brace } else { None };
            let (x, s) = random_side(rng, &mut names, &b1, m2, r);
            stats.push(s);
            hs.push(dag.add(&x));
        }
        if rng.chance(1, 5) {
            let (a3, s) = random_side(rng, &mut names, &base, 0, None);
            stats.push(s);
            hs.push(dag.add(&a3));
        }
        // lonely head first in half of the cases, otherwise any order
        if rng.chance(1, 2) {
            let mut tail: Vec<usize> = hs[1..].to_vec();
            rng.shuffle(&mut tail);
            hs.truncate(1);
            hs.extend(tail);
        } else {
            rng.shuffle(&mut hs);
        }
        heads = hs;
    } else if kind < 40 {
        // criss-cross: two reconciliations of the same pair with swapped parents, continued
        shape_kind = "criss-cross";
        let (a, s) = random_side(rng, &mut names, &base, m1, race);
        stats.push(s);
        let (b, s) = random_side(rng, &mut names, &base, m2, race);
        stats.push(s);
        let ia = dag.add(&a);
        let ib = dag.add(&b);
        let Some(x1) = reconcile(&loader, &dag, &[ia, ib]) else {
            return (FAIL_TERM.into(), false, "merge panic".into());
        };
        let Some(x2) = reconcile(&loader, &dag, &[ib, ia]) else {
            return (FAIL_TERM.into(), false, "merge panic".into());
        };
        let i1 = dag.add(&x1);
        let i2 = dag.add(&x2);
        names.absorb(&x1);
        names.absorb(&x2);
        let mut hs = vec![];
        if rng.chance(2, 3) {
            let (y1, s) = random_side(rng, &mut names, &x1, m1, None);
            stats.push(s);
            hs.push(dag.add(&y1));
        } else {
            hs.push(i1);
        }
        if rng.chance(2, 3) {
            let (y2, s) = random_side(rng, &mut names, &x2, m2, None);
            stats.push(s);
            hs.push(dag.add(&y2));
        } else {
            hs.push(i2);
        }
        rng.shuffle(&mut hs);
        heads = hs;
    } else {
        // flat: two or three (1/4) concurrent transactions from the same operation
        shape_kind = "flat";
        let (s1, st) = random_side(rng, &mut names, &base, m1, race);
        stats.push(st);
        let (s2, st) = random_side(rng, &mut names, &base, m2, race);
        stats.push(st);
        let mut hs = vec![dag.add(&s1), dag.add(&s2)];
        if rng.chance(1, 4) {
            let (s3, st) = random_side(rng, &mut names, &base, if overlapping { all } else { 0 }, race);
            stats.push(st);
            hs.push(dag.add(&s3));
        }
        rng.shuffle(&mut hs);
        heads = hs;
    }
    let _ = io;
    let Some(merged) = reconcile(&loader, &dag, &heads) else {
        return (FAIL_TERM.into(), false, "merge panic".into());
    };
    let term = dag.term(&mut names, &heads, &merged);
    let total = |s: &SideStats| s.creates + s.rewrites + s.abandons + s.bookmark_ops + s.wc_ops;
    let rew: u64 = stats.iter().map(|s| s.rewrites + s.abandons).sum();
    let nontrivial = stats.iter().filter(|s| total(s) > 0).count() >= 2;
    let refs_sides = stats.iter().filter(|s| s.bookmark_ops + s.wc_ops > 0).count();
    let shape = format!(
        "{} heads={} {}{} rewrites={} refs={}",
        shape_kind,
        heads.len(),
        if overlapping { "overlap" } else { "disjoint" },
        match race {
            Some(0) => " bookmark-race",
            Some(_) => " wc-race",
            None => "",
        },
        rew.min(2),
        match refs_sides {
            0 => "none",
            1 => "one-line",
            _ => "several-lines",
        },
    );
    (term, nontrivial, shape)
}

fn main() {
    jjv::run("C13", "C13", |ctx| {
        unsafe { std::env::set_var("TMPDIR", &ctx.scratch) };
        if std::env::var_os("C13_DEBUG").is_some() {
            std::panic::set_hook(Box::new(|info| eprintln!("panic: {info}")));
        }
        let _ = BTreeMap::<u8, u8>::new();
        for i in ctx.indices() {
            let mut rng = ctx.rng(i);
            let (term, nontrivial, shape) = match jjv::catch(|| if i == 0 { corpus_nested() } else { one_case(&mut rng) }) {
                Some(x) => x,
                None => {
                    ctx.panicked();
                    (FAIL_TERM.into(), false, "harness panic".into())
                }
            };
            ctx.emit(i, term, nontrivial, &shape);
        }
    });
}
