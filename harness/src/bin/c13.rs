//! C13: two concurrent transactions started from the same ReadonlyRepo (create / rewrite /
//! abandon commits, set / move / delete bookmarks, move / add / remove workspaces), both
//! written, then reconciled by the real RepoLoader::merge_operations (what load_at_head
//! runs) in either order.  All commits have a single parent, so every commit is emitted as
//! the list of (change, description) numbers from itself down to the root.
use std::collections::BTreeMap;
use std::collections::HashMap;
use std::sync::Arc;

use jj_lib::backend::ChangeId;
use jj_lib::backend::CommitId;
use jj_lib::commit::Commit;
use jj_lib::config::ConfigLayer;
use jj_lib::config::ConfigSource;
use jj_lib::op_store::RefTarget;
use jj_lib::ref_name::RefNameBuf;
use jj_lib::ref_name::WorkspaceNameBuf;
use jj_lib::repo::MutableRepo;
use jj_lib::repo::ReadonlyRepo;
use jj_lib::repo::Repo as _;
use jj_lib::settings::UserSettings;
use jjv::Rng;
use jjv::coq;
use pollster::FutureExt as _;
use testutils::CommitBuilderExt as _;
use testutils::TestRepo;

fn settings() -> UserSettings {
    let mut config = testutils::base_user_config();
    let mut layer = ConfigLayer::empty(ConfigSource::User);
    layer.set_value("debug.commit-timestamp", "2001-02-03T04:05:06+07:00").unwrap();
    layer.set_value("debug.operation-timestamp", "2001-02-03T04:05:07+07:00").unwrap();
    config.add_layer(layer);
    UserSettings::from_config(config).unwrap()
}

struct Names {
    changes: HashMap<ChangeId, u64>,
    descs: u64,
}

impl Names {
    fn change(&mut self, id: &ChangeId) -> u64 {
        let n = self.changes.len() as u64 + 1;
        *self.changes.entry(id.clone()).or_insert(n)
    }
    fn change_known(&self, id: &ChangeId) -> u64 {
        self.changes.get(id).copied().unwrap_or(999_999)
    }
    fn next_desc(&mut self) -> (u64, String) {
        self.descs += 1;
        (self.descs, format!("d{}", self.descs))
    }
}

fn desc_num(c: &Commit) -> u64 {
    c.description().strip_prefix('d').and_then(|s| s.trim().parse().ok()).unwrap_or(0)
}

/// (change, description) from the commit down to (excluding) the root.
fn path(repo: &ReadonlyRepo, names: &Names, id: &CommitId) -> Vec<(u64, u64)> {
    let mut out = vec![];
    let mut cur = repo.store().get_commit(id).unwrap();
    while cur.id() != repo.store().root_commit_id() {
        out.push((names.change_known(cur.change_id()), desc_num(&cur)));
        let parents = cur.parent_ids();
        assert_eq!(parents.len(), 1, "merge commit in a C13 case");
        cur = repo.store().get_commit(&parents[0]).unwrap();
    }
    out
}

fn path_term(p: &[(u64, u64)]) -> String {
    coq::list(p.iter(), |(a, b)| coq::pair(coq::n(*a), coq::n(*b)))
}

fn name_num(s: &str) -> u64 {
    s[1..].parse().unwrap()
}

fn view_term(repo: &ReadonlyRepo, names: &Names) -> String {
    let view = repo.view();
    let mut heads: Vec<Vec<(u64, u64)>> = view.heads().iter().map(|h| path(repo, names, h)).collect();
    heads.sort();
    let mut bookmarks: Vec<(u64, String)> = view
        .local_bookmarks()
        .map(|(name, target)| {
            let terms = coq::list(target.as_merge().iter(), |t| match t {
                Some(id) => format!("(Some {})", path_term(&path(repo, names, id))),
                None => "None".to_string(),
            });
            (name_num(name.as_str()), terms)
        })
        .collect();
    bookmarks.sort();
    let mut wc: Vec<(u64, String)> = view
        .wc_commit_ids()
        .iter()
        .map(|(name, id)| (name_num(name.as_str()), path_term(&path(repo, names, id))))
        .collect();
    wc.sort();
    coq::app(
        "C13.mk_view",
        &[
            coq::list(heads.iter(), |h| path_term(h)),
            coq::list(bookmarks.iter(), |(k, t)| coq::pair(coq::n(*k), t.clone())),
            coq::list(wc.iter(), |(k, c)| coq::pair(coq::n(*k), c.clone())),
        ],
    )
}

struct SideStats {
    creates: u64,
    rewrites: u64,
    abandons: u64,
    bookmark_ops: u64,
    wc_ops: u64,
}

/// Random edits on one side. `visible` = commits this side may pick (non-root).
fn random_side(
    rng: &mut Rng,
    names: &mut Names,
    repo: &Arc<ReadonlyRepo>,
    base_commits: &[Commit],
    allowed_rewrite: &[usize],
    race: Option<u8>,
) -> (Arc<ReadonlyRepo>, SideStats) {
    let mut tx = repo.start_transaction();
    let root = repo.store().root_commit_id().clone();
    let mut st = SideStats { creates: 0, rewrites: 0, abandons: 0, bookmark_ops: 0, wc_ops: 0 };
    let mut visible: Vec<Commit> = base_commits.to_vec();
    let mut touched: Vec<CommitId> = vec![]; // rewritten or abandoned here
    // edge pool: both sides act on the same bookmark / the same workspace first
    match race {
        Some(0) => {
            let name = RefNameBuf::from("b0");
            if rng.chance(1, 6) {
                tx.repo_mut().set_local_bookmark_target(&name, RefTarget::absent());
            } else {
                let c = rng.pick(base_commits);
                tx.repo_mut().set_local_bookmark_target(&name, RefTarget::normal(c.id().clone()));
            }
            st.bookmark_ops += 1;
        }
        Some(_) => {
            let name = WorkspaceNameBuf::from("w0");
            if rng.chance(1, 5) {
                let _ = tx.repo_mut().remove_workspace(&name).block_on();
            } else {
                let c = rng.pick(base_commits);
                let _ = tx.repo_mut().set_wc_commit(name, c.id().clone());
            }
            st.wc_ops += 1;
        }
        None => {}
    }
    let n_actions = if race.is_some() { rng.below(3) } else { 1 + rng.below(4) };
    for _ in 0..n_actions {
        let pick_any = |rng: &mut Rng, visible: &Vec<Commit>, touched: &Vec<CommitId>| -> Option<Commit> {
            let c: Vec<&Commit> = visible.iter().filter(|c| !touched.contains(c.id())).collect();
            if c.is_empty() { None } else { Some((*rng.pick(&c)).clone()) }
        };
        let m: &mut MutableRepo = tx.repo_mut();
        match rng.below(12) {
            0..=2 => {
                let parent = match pick_any(rng, &visible, &touched) {
                    Some(p) if rng.chance(3, 4) => p.id().clone(),
                    _ => root.clone(),
                };
                let (_, d) = names.next_desc();
                let c = m.new_commit(vec![parent], repo.store().empty_merged_tree()).set_description(d).write_unwrap();
                names.change(c.change_id());
                visible.push(c);
                st.creates += 1;
            }
            3..=4 => {
                // rewrite (describe) one of the base commits this side is allowed to touch
                let cands: Vec<&Commit> = allowed_rewrite
                    .iter()
                    .map(|i| &base_commits[*i])
                    .filter(|c| !touched.contains(c.id()))
                    .collect();
                if let Some(c) = cands.first().map(|_| (*rng.pick(&cands)).clone()) {
                    let (_, d) = names.next_desc();
                    let n = m.rewrite_commit(&c).set_description(d).write_unwrap();
                    touched.push(c.id().clone());
                    visible.push(n);
                    st.rewrites += 1;
                }
            }
            5 => {
                let cands: Vec<&Commit> = allowed_rewrite
                    .iter()
                    .map(|i| &base_commits[*i])
                    .filter(|c| !touched.contains(c.id()))
                    .collect();
                if let Some(c) = cands.first().map(|_| (*rng.pick(&cands)).clone()) {
                    m.record_abandoned_commit(&c);
                    touched.push(c.id().clone());
                    st.abandons += 1;
                }
            }
            6..=8 => {
                let name = RefNameBuf::from(format!("b{}", rng.below(3)));
                if rng.chance(1, 5) {
                    m.set_local_bookmark_target(&name, RefTarget::absent());
                } else if let Some(c) = pick_any(rng, &visible, &touched) {
                    m.set_local_bookmark_target(&name, RefTarget::normal(c.id().clone()));
                }
                st.bookmark_ops += 1;
            }
            _ => {
                let name = WorkspaceNameBuf::from(format!("w{}", rng.below(3)));
                if rng.chance(1, 4) {
                    let _ = m.remove_workspace(&name).block_on();
                } else if let Some(c) = pick_any(rng, &visible, &touched) {
                    let _ = m.set_wc_commit(name, c.id().clone());
                }
                st.wc_ops += 1;
            }
        }
    }
    tx.repo_mut().rebase_descendants().block_on().unwrap();
    (tx.write("side").block_on().unwrap().leave_unpublished(), st)
}

fn one_case(rng: &mut Rng) -> (String, bool, String) {
    let settings = settings();
    let test_repo = TestRepo::init_with_settings(&settings);
    let repo0 = test_repo.repo.clone();
    let loader = repo0.loader().clone();
    let root = repo0.store().root_commit_id().clone();
    let mut names = Names { changes: HashMap::new(), descs: 0 };

    // base repository
    let mut tx = repo0.start_transaction();
    let n0 = 3 + rng.usize(3);
    let mut base_commits: Vec<Commit> = vec![];
    for _ in 0..n0 {
        let parent = if base_commits.is_empty() || rng.chance(1, 4) {
            root.clone()
        } else {
            rng.pick(&base_commits).id().clone()
        };
        let (_, d) = names.next_desc();
        let c = tx
            .repo_mut()
            .new_commit(vec![parent], repo0.store().empty_merged_tree())
            .set_description(d)
            .write_unwrap();
        names.change(c.change_id());
        base_commits.push(c);
    }
    for b in 0..3 {
        if rng.chance(2, 3) {
            let c = rng.pick(&base_commits);
            tx.repo_mut()
                .set_local_bookmark_target(&RefNameBuf::from(format!("b{b}")), RefTarget::normal(c.id().clone()));
        }
    }
    for w in 0..2 {
        if w == 0 || rng.chance(1, 2) {
            let c = rng.pick(&base_commits);
            tx.repo_mut().set_wc_commit(WorkspaceNameBuf::from(format!("w{w}")), c.id().clone()).unwrap();
        }
    }
    let base = tx.write("base").block_on().unwrap().leave_unpublished();

    // which base commits each side may rewrite/abandon: disjoint (3/4) or overlapping (1/4)
    let overlapping = rng.chance(1, 4);
    let mut a1 = vec![];
    let mut a2 = vec![];
    for i in 0..n0 {
        if overlapping {
            a1.push(i);
            a2.push(i);
        } else if rng.chance(1, 2) {
            a1.push(i);
        } else {
            a2.push(i);
        }
    }
    let race = if rng.chance(1, 4) { Some(rng.below(2) as u8) } else { None };
    let (side1, st1) = random_side(rng, &mut names, &base, &base_commits, &a1, race);
    let (side2, st2) = random_side(rng, &mut names, &base, &base_commits, &a2, race);
    // a third concurrent transaction in 1/4 of the cases
    let third = if rng.chance(1, 4) {
        let a3: Vec<usize> = if overlapping { (0..n0).collect() } else { vec![] };
        Some(random_side(rng, &mut names, &base, &base_commits, &a3, race))
    } else {
        None
    };
    let mut sides: Vec<&Arc<ReadonlyRepo>> = vec![&side1, &side2];
    if let Some((s3, _)) = &third {
        sides.push(s3);
    }
    rng.shuffle(&mut sides);
    let first_is_1 = Arc::ptr_eq(sides[0], &side1);
    let ops: Vec<_> = sides.iter().map(|r| r.operation().clone()).collect();
    let merged = jjv::catch(|| loader.merge_operations(ops, None, Some("reconcile"), []).block_on().unwrap().0);
    let fail_term = "(C13.mk_case (C13.mk_view [] [] []) (C13.mk_view [] [] []) (C13.mk_view [] [] []) None (C13.mk_view [] [] []) true)";
    let Some(merged) = merged else {
        return (fail_term.into(), false, "merge panic".into());
    };
    let term = coq::app(
        "C13.mk_case",
        &[
            view_term(sides[0], &names),
            view_term(&base, &names),
            view_term(sides[1], &names),
            match sides.get(2) {
                Some(r) => format!("(Some {})", view_term(r, &names)),
                None => "None".into(),
            },
            view_term(&merged, &names),
            "false".into(),
        ],
    );
    let total = |s: &SideStats| s.creates + s.rewrites + s.abandons + s.bookmark_ops + s.wc_ops;
    let rew = st1.rewrites + st1.abandons + st2.rewrites + st2.abandons;
    let nontrivial = total(&st1) > 0 && total(&st2) > 0;
    let shape = format!(
        "{}{}{} rewrites={} refs={}",
        if third.is_some() { "3-way " } else { "" },
        if overlapping { "overlap" } else { "disjoint" },
        match race {
            Some(0) => " bookmark-race",
            Some(_) => " wc-race",
            None => "",
        },
        rew.min(2),
        if (st1.bookmark_ops > 0 && st2.bookmark_ops > 0) || (st1.wc_ops > 0 && st2.wc_ops > 0) {
            "both-sides"
        } else if st1.bookmark_ops + st2.bookmark_ops + st1.wc_ops + st2.wc_ops > 0 {
            "one-side"
        } else {
            "none"
        },
    );
    let _ = first_is_1;
    (term, nontrivial, shape)
}

fn main() {
    jjv::run("C13", "C13", |ctx| {
        unsafe { std::env::set_var("TMPDIR", &ctx.scratch) };
        if std::env::var_os("C13_DEBUG").is_some() {
            std::panic::set_hook(Box::new(|info| eprintln!("panic: {info}")));
        }
        let _ = BTreeMap::<u8, u8>::new();
        for i in ctx.indices() {
            let mut rng = ctx.rng(i);
            let (term, nontrivial, shape) = match jjv::catch(|| one_case(&mut rng)) {
                Some(x) => x,
                None => {
                    ctx.panicked();
                    ("(C13.mk_case (C13.mk_view [] [] []) (C13.mk_view [] [] []) (C13.mk_view [] [] []) None (C13.mk_view [] [] []) true)".into(), false, "harness panic".into())
                }
            };
            ctx.emit(i, term, nontrivial, &shape);
        }
    });
}
