//! C32: file-system path <-> repository path conversion. Runs the real
//! `RepoPathBuf::parse_fs_path`, `from_relative_path`, `RepoPath::to_fs_path`,
//! `file_util::normalize_path`, `relative_path` and, to validate the modelled std oracle,
//! `Path::components`, `Path::join`, `str::from_utf8`.
use std::ffi::OsStr;
use std::os::unix::ffi::OsStrExt as _;
use std::path::Component;
use std::path::Path;
use std::path::PathBuf;

use jj_lib::file_util;
use jj_lib::repo_path::RelativePathParseError;
use jj_lib::repo_path::RepoPath;
use jj_lib::repo_path::RepoPathBuf;
use jjv::Rng;
use jjv::coq;

type B = Vec<u8>;

fn path(b: &[u8]) -> &Path {
    Path::new(OsStr::from_bytes(b))
}
fn bytes_of(p: &Path) -> B {
    p.as_os_str().as_bytes().to_vec()
}

const NAMES: &[&[u8]] = &[
    b"a", b"b", b"c", b"w", b"repo", b".", b"..", b"...", b".jj", b"..a", b"a.", b"a b",
    "é".as_bytes(), "日本".as_bytes(), b"-", b"\xff", b"a\xc3", b"\xed\xa0\x80", b"~",
];
const PLAIN: &[&[u8]] = &[b"a", b"b", b"c", b"w", b"repo", b"x", "é".as_bytes()];

fn piece(rng: &mut Rng) -> B {
    if rng.chance(3, 5) {
        rng.pick(PLAIN).to_vec()
    } else {
        rng.pick(NAMES).to_vec()
    }
}

/// A raw file-system path: optional root, pieces, single/double separators, odd tails.
fn fs_path(rng: &mut Rng, absolute: Option<bool>) -> B {
    let mut s = vec![];
    let abs = absolute.unwrap_or_else(|| rng.chance(1, 3));
    if abs {
        s.push(b'/');
        if rng.chance(1, 10) {
            s.push(b'/');
        }
    }
    let k = rng.geometric(4) as usize + if abs { 0 } else { rng.usize(2) };
    for i in 0..k {
        if i > 0 {
            s.push(b'/');
            if rng.chance(1, 8) {
                s.push(b'/');
            }
        }
        s.extend(piece(rng));
    }
    match rng.below(10) {
        0 if !s.is_empty() => s.push(b'/'),
        1 if !s.is_empty() => s.extend(b"/."),
        _ => {}
    }
    s
}

/// A clean absolute path made of plain names (what cwd/base are supposed to be).
fn clean_abs(rng: &mut Rng) -> B {
    let k = rng.below(4) as usize;
    if k == 0 {
        return b"/".to_vec();
    }
    let mut s = vec![];
    for _ in 0..k {
        s.push(b'/');
        s.extend(rng.pick(PLAIN).iter());
    }
    s
}

/// A case-variant of `p`: the ASCII case of the letters of one or more components is
/// flipped (a different path on a case-sensitive file system).
fn flip_case(rng: &mut Rng, p: &[u8]) -> B {
    let comps: Vec<&[u8]> = p.split(|b| *b == b'/').collect();
    let with_letters: Vec<usize> = comps
        .iter()
        .enumerate()
        .filter(|(_, c)| c.iter().any(|b| b.is_ascii_alphabetic()))
        .map(|(i, _)| i)
        .collect();
    if with_letters.is_empty() {
        return p.to_vec();
    }
    let forced = *rng.pick(&with_letters);
    let mut out: Vec<B> = vec![];
    for (i, c) in comps.iter().enumerate() {
        let mut c = c.to_vec();
        if i == forced || (with_letters.contains(&i) && rng.chance(1, 3)) {
            let letters: Vec<usize> =
                (0..c.len()).filter(|k| c[*k].is_ascii_alphabetic()).collect();
            let one = *rng.pick(&letters);
            let all = rng.chance(1, 2);
            for k in letters {
                if all || k == one {
                    c[k] ^= 0x20;
                }
            }
        }
        out.push(c);
    }
    out.join(&b'/')
}

/// A clean absolute path with at least one component containing an ASCII letter.
fn lettered_abs(rng: &mut Rng) -> B {
    const L: &[&[u8]] = &[b"w", b"repo", b"Repo", b"a", b"Sub", b"src", b"X"];
    let k = 1 + rng.below(3) as usize;
    let mut s = vec![];
    for _ in 0..k {
        s.push(b'/');
        s.extend(rng.pick(L).iter());
    }
    s
}

fn repo_path(rng: &mut Rng) -> B {
    let k = rng.geometric(4) as usize;
    let mut s: B = vec![];
    for i in 0..k {
        if i > 0 {
            s.push(b'/');
        }
        let p = piece(rng);
        // repository paths are Strings
        if std::str::from_utf8(&p).is_ok() {
            s.extend(p);
        } else {
            s.extend(b"u");
        }
    }
    match rng.below(16) {
        0 => s.insert(0, b'/'),
        1 => s.push(b'/'),
        2 if s.len() > 1 => {
            let at = rng.usize(s.len());
            s.insert(at, b'/');
        }
        _ => {}
    }
    s
}

fn res(r: &Result<B, u64>) -> String {
    match r {
        Ok(b) => coq::app("C32.Ok", &[coq::bytes(b)]),
        Err(e) => format!("(C32.Err {e})"),
    }
}

struct Obs {
    terms: Vec<String>,
    panicked: bool,
    seen: std::collections::HashSet<String>,
    parse_ok: usize,
    parse_err: usize,
    tofs_ok: usize,
    tofs_err: usize,
    roundtrips: usize,
}

fn rel_err(e: &RelativePathParseError) -> u64 {
    match e {
        RelativePathParseError::InvalidComponent { .. } => 1,
        RelativePathParseError::InvalidUtf8 { .. } => 2,
    }
}

impl Obs {
    fn add(&mut self, t: String) -> bool {
        if !self.seen.insert(t.clone()) {
            return false;
        }
        self.terms.push(t);
        true
    }

    fn components(&mut self, s: &[u8]) {
        let comps = jjv::catch(|| {
            path(s)
                .components()
                .map(|c| match c {
                    Component::RootDir => (0u64, vec![]),
                    Component::CurDir => (1, vec![]),
                    Component::ParentDir => (2, vec![]),
                    Component::Normal(n) => (3, n.as_bytes().to_vec()),
                    Component::Prefix(_) => (9, vec![]),
                })
                .collect::<Vec<_>>()
        });
        let Some(comps) = comps else {
            self.panicked = true;
            return;
        };
        self.add(coq::app(
            "C32.OComponents",
            &[
                coq::bytes(s),
                coq::list(comps.iter(), |(k, n)| coq::pair(coq::n(*k), coq::bytes(n))),
            ],
        ));
    }

    fn join(&mut self, a: &[u8], b: &[u8]) -> B {
        let r = bytes_of(&path(a).join(path(b)));
        self.add(coq::app(
            "C32.OJoin",
            &[coq::bytes(a), coq::bytes(b), coq::bytes(&r)],
        ));
        r
    }

    fn utf8(&mut self, s: &[u8]) {
        self.add(coq::app(
            "C32.OUtf8",
            &[coq::bytes(s), coq::b(std::str::from_utf8(s).is_ok())],
        ));
    }

    fn normalize(&mut self, s: &[u8]) -> Option<B> {
        let r = jjv::catch(|| bytes_of(&file_util::normalize_path(path(s))));
        let Some(r) = r else {
            self.panicked = true;
            return None;
        };
        self.add(coq::app("C32.ONormalize", &[coq::bytes(s), coq::bytes(&r)]));
        self.components(&r);
        Some(r)
    }

    fn relative(&mut self, from: &[u8], to: &[u8]) {
        let r = jjv::catch(|| bytes_of(&file_util::relative_path(path(from), path(to))));
        let Some(r) = r else {
            self.panicked = true;
            return;
        };
        self.add(coq::app(
            "C32.ORelative",
            &[coq::bytes(from), coq::bytes(to), coq::bytes(&r)],
        ));
        self.components(&r);
    }

    fn from_relative(&mut self, s: &[u8]) {
        let r = jjv::catch(|| {
            RepoPathBuf::from_relative_path(path(s))
                .map(|p| p.into_internal_string().into_bytes())
                .map_err(|e| rel_err(&e))
        });
        let Some(r) = r else {
            self.panicked = true;
            return;
        };
        self.add(coq::app("C32.OFromRelative", &[coq::bytes(s), res(&r)]));
    }

    /// parse_fs_path, then (when Ok) to_fs_path of the result from the same base.
    fn parse(&mut self, cwd: &[u8], base: &[u8], input: &[u8], follow: bool) {
        let r = jjv::catch(|| {
            RepoPathBuf::parse_fs_path(path(cwd), path(base), path(input))
                .map(|p| p.into_internal_string().into_bytes())
                .map_err(|e| rel_err(&e.source))
        });
        let Some(r) = r else {
            self.panicked = true;
            return;
        };
        if !self.add(coq::app(
            "C32.OParse",
            &[coq::bytes(cwd), coq::bytes(base), coq::bytes(input), res(&r)],
        )) {
            return;
        }
        match &r {
            Ok(p) => {
                self.parse_ok += 1;
                let _ = follow;
                self.to_fs(base, p, &[], false);
            }
            Err(_) => self.parse_err += 1,
        }
    }

    /// from_internal_string + to_fs_path, then (when Ok) parse_fs_path of the result from
    /// every given cwd.
    fn to_fs(&mut self, base: &[u8], p: &[u8], cwds: &[B], follow: bool) {
        let Ok(ps) = std::str::from_utf8(p) else {
            return;
        };
        let r = jjv::catch(|| match RepoPath::from_internal_string(ps) {
            Err(_) => Err(4),
            Ok(rp) => rp
                .to_fs_path(path(base))
                .map(|q: PathBuf| bytes_of(&q))
                .map_err(|_| 3u64),
        });
        let Some(r) = r else {
            self.panicked = true;
            return;
        };
        if !self.add(coq::app(
            "C32.OToFs",
            &[coq::bytes(base), coq::bytes(p), res(&r)],
        )) {
            return;
        }
        match &r {
            Ok(q) => {
                self.tofs_ok += 1;
                self.components(q);
                if follow {
                    for cwd in cwds {
                        self.parse(cwd, base, q, false);
                        self.roundtrips += 1;
                    }
                }
            }
            Err(_) => self.tofs_err += 1,
        }
    }
}

fn main() {
    jjv::run("C32", "C32", |ctx| {
        for i in ctx.indices() {
            let mut rng = ctx.rng(i);
            let mut o = Obs {
                terms: vec![],
                panicked: false,
                seen: Default::default(),
                parse_ok: 0,
                parse_err: 0,
                tofs_ok: 0,
                tofs_err: 0,
                roundtrips: 0,
            };
            // base: mostly absolute and normalized; sometimes not
            let variant = rng.chance(1, 5);
            let base_kind = if variant { 100 } else { rng.below(10) };
            let base: B = match base_kind {
                100 => lettered_abs(&mut rng),
                0..=5 => clean_abs(&mut rng),
                6 => {
                    let mut b = clean_abs(&mut rng);
                    if b.len() > 1 {
                        b.push(b'/');
                    }
                    b
                }
                7 => fs_path(&mut rng, Some(true)),
                8 => fs_path(&mut rng, Some(false)),
                _ => rng.pick(&[&b""[..], b".", b"..", b"/..", b"/../w", b"w"]).to_vec(),
            };
            // cwds: the base, below it, above it, unrelated, raw
            let mut cwds: Vec<B> = vec![base.clone()];
            {
                let mut below = base.clone();
                if !below.ends_with(b"/") {
                    below.push(b'/');
                }
                below.extend(rng.pick(PLAIN).iter());
                cwds.push(below);
            }
            cwds.push(match rng.below(4) {
                0 => clean_abs(&mut rng),
                1 => bytes_of(path(&base).parent().unwrap_or(path(b"/"))),
                2 => fs_path(&mut rng, Some(true)),
                _ => fs_path(&mut rng, None),
            });
            if variant {
                // a working directory below a case-variant of the base, and the variant itself
                let fb = flip_case(&mut rng, &base);
                let mut below = fb.clone();
                below.push(b'/');
                below.extend(rng.pick(PLAIN).iter());
                cwds.push(below);
                cwds.push(fb);
            }
            let cwd = rng.pick(&cwds).clone();
            o.components(&base);
            o.components(&cwd);

            // repository paths -> file-system paths -> back
            for _ in 0..(1 + rng.below(2)) {
                let p = repo_path(&mut rng);
                o.to_fs(&base, &p, &cwds, true);
                for c in p.split(|b| *b == b'/') {
                    o.utf8(c);
                }
                // relative spelling: to_fs_path("") parsed with cwd = base
                if rng.chance(1, 2) {
                    let before = o.terms.len();
                    o.to_fs(b"", &p, &[], false);
                    if o.terms.len() > before {
                        if let Ok(ps) = std::str::from_utf8(&p) {
                            if let Ok(rp) = RepoPath::from_internal_string(ps) {
                                if let Ok(q) = rp.to_fs_path(path(b"")) {
                                    o.parse(&base, &base, &bytes_of(&q), true);
                                }
                            }
                        }
                    }
                }
            }
            // file-system inputs -> repository paths -> back
            let mut inputs: Vec<B> = vec![];
            if variant {
                // (a) spelled below a case-variant of the base
                let mut s = flip_case(&mut rng, &base);
                if rng.chance(3, 4) {
                    s.push(b'/');
                    s.extend(fs_path(&mut rng, Some(false)));
                }
                inputs.push(s);
                // (b) climbing out of cwd into a case-variant of the directories above it
                let depth = cwd.split(|b| *b == b'/').filter(|c| !c.is_empty()).count();
                let mut s: B = vec![];
                for _ in 0..depth {
                    s.extend(b"../");
                }
                let fc = flip_case(&mut rng, &cwd);
                s.extend(fc.iter().skip_while(|b| **b == b'/'));
                if rng.chance(1, 2) {
                    s.extend(b"/x");
                }
                inputs.push(s);
                // (c) the exact base with mixed-case components below it (must parse)
                if rng.chance(1, 2) {
                    let mut s = base.clone();
                    s.extend(b"/Sub/x");
                    inputs.push(s);
                }
            }
            for _ in 0..(1 + rng.below(2)) {
                let input: B = match rng.below(6) {
                    0 | 1 => fs_path(&mut rng, Some(false)),
                    2 => fs_path(&mut rng, None),
                    3 => {
                        // spelled below the base
                        let mut s = base.clone();
                        s.push(b'/');
                        s.extend(fs_path(&mut rng, Some(false)));
                        s
                    }
                    4 => {
                        // climbs out of cwd and maybe back in
                        let mut s = b"..".to_vec();
                        for _ in 0..rng.below(3) {
                            s.extend(b"/..");
                        }
                        s.push(b'/');
                        s.extend(fs_path(&mut rng, Some(false)));
                        s
                    }
                    _ => rng
                        .pick(&[&b""[..], b".", b"./", b"..", b"/", b"//", b"./.", b"a/..", b"a/../.."])
                        .to_vec(),
                };
                inputs.push(input);
            }
            for input in inputs {
                o.components(&input);
                let joined = o.join(&cwd, &input);
                o.components(&joined);
                let abs = o.normalize(&joined);
                o.parse(&cwd, &base, &input, true);
                o.from_relative(&input);
                if let Some(abs) = abs {
                    o.relative(&base, &abs);
                }
                for c in input.split(|b| *b == b'/') {
                    o.utf8(c);
                }
                if rng.chance(1, 3) {
                    let other = fs_path(&mut rng, None);
                    o.relative(&input, &other);
                    o.normalize(&other);
                }
            }
            if o.panicked {
                ctx.panicked();
            }
            let term = coq::app(
                "C32.mk_case",
                &[coq::list(o.terms.iter(), |t| t.clone()), coq::b(o.panicked)],
            );
            let shape = format!(
                "base={} parse_ok={} tofs_ok={} any_err={}",
                match base_kind {
                    0..=5 => "clean",
                    6 => "trailing-slash",
                    7 | 8 => "raw",
                    100 => "case-variant",
                    _ => "odd",
                },
                o.parse_ok.min(1),
                o.tofs_ok.min(1),
                (o.parse_err + o.tofs_err).min(1)
            );
            let nontrivial = o.parse_ok >= 1 && o.tofs_ok >= 1 && o.roundtrips >= 1;
            ctx.emit(i, term, nontrivial, &shape);
        }
    });
}
