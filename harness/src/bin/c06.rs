//! C06: conflicts::update_from_content on a real Store, and the full path through a real
//! working copy (check out a conflicted file, optionally edit it, snapshot), compared term
//! by term with the model (file ids are mapped to the contents they name).
#[path = "../conf_gen.rs"]
mod conf_gen;

use std::sync::Arc;

use bstr::BString;
use conf_gen::*;
use jj_lib::backend::FileId;
use jj_lib::backend::TreeValue;
use jj_lib::config::ConfigLayer;
use jj_lib::config::ConfigSource;
use jj_lib::conflict_labels::ConflictLabels;
use jj_lib::conflicts;
use jj_lib::conflicts::ConflictMarkerStyle;
use jj_lib::conflicts::ConflictMaterializeOptions;
use jj_lib::conflicts::choose_materialized_conflict_marker_len;
use jj_lib::conflicts::materialize_merge_result_to_bytes;
use jj_lib::files;
use jj_lib::files::MergeResult;
use jj_lib::local_working_copy::LocalWorkingCopy;
use jj_lib::merge::Merge;
use jj_lib::merged_tree::MergedTree;
use jj_lib::repo::Repo as _;
use jj_lib::repo_path::RepoPath;
use jj_lib::settings::UserSettings;
use jj_lib::store::Store;
use jjv::Rng;
use jjv::coq;
use pollster::FutureExt as _;
use testutils::TestWorkspace;

const STYLES: [&str; 4] = ["diff", "diff-experimental", "snapshot", "git"];

fn style_of(n: usize) -> ConflictMarkerStyle {
    match n {
        0 => ConflictMarkerStyle::Diff,
        1 => ConflictMarkerStyle::DiffExperimental,
        2 => ConflictMarkerStyle::Snapshot,
        _ => ConflictMarkerStyle::Git,
    }
}

fn workspace_with_style(n: usize) -> TestWorkspace {
    let mut config = testutils::base_user_config();
    config.add_layer(
        ConfigLayer::parse(
            ConfigSource::User,
            &format!("ui.conflict-marker-style = \"{}\"\n", STYLES[n]),
        )
        .unwrap(),
    );
    let settings = UserSettings::from_config(config).unwrap();
    TestWorkspace::init_with_settings(&settings)
}

fn write(store: &Store, path: &RepoPath, c: &[u8]) -> FileId {
    store.write_file(path, &mut &c[..]).block_on().unwrap()
}

/// Terms of a file conflict: content and executable bit, `None` = absent.
type Terms = Vec<Option<(Vec<u8>, bool)>>;

fn gen_terms(rng: &mut Rng, pools: &mut Vec<&'static str>) -> Terms {
    let sides = 2 + rng.geometric(2) as usize;
    let nterms = 2 * sides - 1;
    let nbase = rng.usize(6);
    let mut base: Vec<Vec<u8>> = (0..nbase).map(|_| gen_line(rng, pools)).collect();
    if rng.chance(1, 2) {
        // shared first / last lines so that the merge has resolved hunks around the conflict
        pools.push("pool:shared-head-tail");
        if rng.chance(2, 3) {
            base.insert(0, b"head".to_vec());
        }
        if rng.chance(2, 3) {
            base.push(b"tail".to_vec());
        }
    }
    let eol_mode = rng.below(4).min(2);
    let mut terms: Terms = vec![];
    for t in 0..nterms {
        let term = if t > 0 && rng.chance(1, 8) {
            terms[rng.usize(t)].clone()
        } else if rng.chance(1, 8) {
            pools.push("pool:absent-term");
            None
        } else if rng.chance(1, 12) {
            pools.push("pool:empty-file");
            Some((vec![], rng.chance(1, 3)))
        } else {
            let l = edit(&base, rng, pools);
            let final_eol = !rng.chance(1, 4);
            if !final_eol {
                pools.push("pool:no-final-newline");
            }
            let mode = if rng.chance(1, 6) { rng.below(3) } else { eol_mode };
            Some((render(&l, mode, final_eol, rng), rng.chance(1, 3)))
        };
        terms.push(term);
    }
    // redundant pairs: the same term inserted once as an add and once as a remove
    let extra = if rng.chance(1, 2) { 0 } else { 1 + rng.usize(2) };
    for _ in 0..extra {
        pools.push("pool:redundant-pair");
        let v = if rng.chance(2, 3) { terms[rng.usize(terms.len())].clone() } else { None };
        let mut adds: Terms = terms.iter().step_by(2).cloned().collect();
        let mut removes: Terms = terms.iter().skip(1).step_by(2).cloned().collect();
        let (pa, pr) = (rng.usize(adds.len() + 1), rng.usize(removes.len() + 1));
        adds.insert(pa, v.clone());
        removes.insert(pr, v);
        let mut out = vec![adds[0].clone()];
        for (r, a) in removes.into_iter().zip(adds.into_iter().skip(1)) {
            out.push(r);
            out.push(a);
        }
        terms = out;
    }
    terms
}

/// Terms that share leading and trailing lines and differ in the middle, so that the merge is
/// resolved-hunk / conflict / resolved-hunk.
fn gen_terms_sandwich(rng: &mut Rng, pools: &mut Vec<&'static str>) -> Terms {
    pools.push("pool:sandwich");
    let sides = 2 + rng.geometric(2) as usize;
    let nterms = 2 * sides - 1;
    let crlf = rng.chance(1, 4);
    let eol: &[u8] = if crlf { b"\r\n" } else { b"\n" };
    let line = |l: &[u8]| {
        let mut v = l.to_vec();
        v.extend_from_slice(eol);
        v
    };
    let npre = rng.usize(3);
    let nsuf = if npre == 0 { 1 + rng.usize(2) } else { rng.usize(3) };
    let pre: Vec<u8> = (0..npre).flat_map(|k| line(format!("p{k}").as_bytes())).collect();
    let suf: Vec<u8> = (0..nsuf).flat_map(|k| line(format!("s{k}").as_bytes())).collect();
    let mids: Vec<Vec<u8>> = (0..nterms)
        .map(|k| {
            if rng.chance(1, 8) {
                vec![]
            } else {
                let mut m = gen_line(rng, pools);
                m.extend_from_slice(format!("{}", k % 3).as_bytes());
                line(&m)
            }
        })
        .collect();
    mids.into_iter()
        .map(|m| {
            let mut c = pre.clone();
            c.extend_from_slice(&m);
            c.extend_from_slice(&suf);
            Some((c, rng.chance(1, 4)))
        })
        .collect()
}

/// Terms whose contents contain marker look-alikes of length >= 7, so that the chosen marker
/// length exceeds the minimum (11 or more). `fixed` = the corpus scenario, no randomness.
fn gen_terms_long_markers(rng: &mut Rng, pools: &mut Vec<&'static str>, fixed: bool) -> Terms {
    pools.push("pool:long-markers(chosen-len>=11)");
    if fixed {
        return vec![
            Some((b"p0\n<<<<<<< left\nA\n=======\ns0\n".to_vec(), false)),
            Some((b"p0\nB\ns0\n".to_vec(), false)),
            Some((b"p0\n>>>>>>>>> r\nC\ns0\n".to_vec(), false)),
        ];
    }
    let sides = 2 + rng.geometric(2) as usize;
    let nterms = 2 * sides - 1;
    let pre: &[u8] = if rng.chance(1, 2) { b"p0\n" } else { b"" };
    let suf: &[u8] = if rng.chance(1, 2) { b"s0\n" } else { b"" };
    (0..nterms)
        .map(|k| {
            let mut c = pre.to_vec();
            let nl = 1 + rng.usize(3);
            for _ in 0..nl {
                if rng.chance(1, 2) {
                    let ch = *rng.pick(MARKERS);
                    let len = 7 + rng.usize(6);
                    c.extend(std::iter::repeat_n(ch, len));
                    c.extend_from_slice(*rng.pick(&[&b"\n"[..], b" x\n", b"\r\n"]));
                } else {
                    c.extend_from_slice(format!("m{}\n", k % 3).as_bytes());
                }
            }
            c.extend_from_slice(suf);
            Some((c, rng.chance(1, 4)))
        })
        .collect()
}

fn tval_term(t: &Option<(Vec<u8>, bool)>) -> String {
    coq::opt(t.as_ref(), |(c, x)| format!("({}, {})", coq::bytes(c), coq::b(*x)))
}

struct Prepared {
    mh: MergeResult,
    labels: Vec<String>,
    diffs: Vec<String>,
    len: usize,
    mat: Vec<u8>,
}

/// What checkout does for a conflicted file: simplify (with labels), read the contents,
/// choose the marker length, materialize.
fn prepare(store: &Arc<Store>, path: &RepoPath, ids: &Merge<Option<FileId>>, labels: &ConflictLabels, style: ConflictMarkerStyle) -> Prepared {
    let (slabels, sids) = labels.simplify_with(ids);
    let contents = conflicts::extract_as_single_hunk(&sids, store, path).block_on().unwrap();
    let len = choose_materialized_conflict_marker_len(&contents);
    let options = ConflictMaterializeOptions {
        marker_style: style,
        marker_len: Some(len),
        merge: store.merge_options().clone(),
    };
    let mat = materialize_merge_result_to_bytes(&contents, &slabels, &options);
    let mh = files::merge_hunks(&contents, store.merge_options());
    let files: Vec<Vec<u8>> = contents.iter().map(|c| c.to_vec()).collect();
    let diffs = match &mh {
        MergeResult::Conflict(hs) => record_diffs(hs, style, &files),
        MergeResult::Resolved(_) => vec![],
    };
    Prepared {
        mh,
        labels: slabels.as_slice().to_vec(),
        diffs,
        len,
        mat: mat.to_vec(),
    }
}

/// Content to hand to update_from_content / leave on disk, by kind.
fn edited_content(kind: u64, p: &Prepared, rng: &mut Rng, pools: &mut Vec<&'static str>) -> (u64, Option<(usize, Vec<u8>)>, Vec<u8>) {
    match kind {
        1 => {
            // edit the first or the last hunk if it is resolved (its position in the text is known)
            if let MergeResult::Conflict(hs) = &p.mh {
                let first = hs.first().filter(|h| h.is_resolved()).map(|h| (0usize, h.first().to_vec()));
                let last = hs.last().filter(|h| h.is_resolved()).map(|h| (hs.len() - 1, h.first().to_vec()));
                let pick = match (first, last) {
                    (Some(f), Some(l)) => Some(if rng.chance(1, 2) { f } else { l }),
                    (f, l) => f.or(l),
                };
                if let Some((k, r)) = pick {
                    let mut lines: Vec<Vec<u8>> = r.split_inclusive(|b| *b == b'\n').map(|l| l.to_vec()).collect();
                    let mut newl = rng.pick(&[&b"n"[..], b"new line", b"a", b"", b"   ", b"\r"]).to_vec();
                    newl.push(b'\n');
                    match rng.below(3) {
                        0 if lines.len() > 1 => {
                            let i = rng.usize(lines.len() - 1);
                            lines.remove(i);
                        }
                        1 => {
                            let i = rng.usize(lines.len());
                            lines.insert(i, newl);
                        }
                        _ => {
                            lines[0] = newl;
                        }
                    }
                    let r2 = lines.concat();
                    if !r2.is_empty() && r2 != r {
                        let mut content = p.mat.clone();
                        if k == 0 {
                            content.splice(0..r.len(), r2.iter().copied());
                        } else {
                            let at = content.len() - r.len();
                            content.truncate(at);
                            content.extend_from_slice(&r2);
                        }
                        pools.push("kind:resolved-region-edit");
                        return (1, Some((k, r2)), content);
                    }
                }
            }
            pools.push("kind:unedited");
            (0, None, p.mat.clone())
        }
        2 => {
            pools.push("kind:no-markers");
            let n = rng.usize(5);
            let mut c = vec![];
            for _ in 0..n {
                c.extend_from_slice(*rng.pick(&[&b"a\n"[..], b"resolved\n", b"<<<<<<\n", b"+++++++ x\n", b"\n", b"c"]));
            }
            if rng.chance(1, 4)
                && let MergeResult::Resolved(r) = &p.mh
            {
                c = r.to_vec();
            }
            (2, None, c)
        }
        3 => {
            pools.push("kind:mutated");
            (3, None, mutate(&p.mat, rng, p.len))
        }
        _ => {
            pools.push("kind:unedited");
            (0, None, p.mat.clone())
        }
    }
}

fn main() {
    jjv::run("C06", "C06", |ctx| {
        let mut workspaces: Vec<Option<TestWorkspace>> = (0..4).map(|_| None).collect();
        let direct = TestWorkspace::init();
        let path = testutils::repo_path("file");
        for i in ctx.indices() {
            let mut rng = ctx.rng(i);
            let mut pools: Vec<&'static str> = vec![];
            // Sequences of snapshots of an unedited conflict materialized with markers longer
            // than the minimum: indices 0 and 1 are a fixed corpus scenario, then 1 case in 12.
            let fixed_case = i < 2;
            let seq_case = fixed_case || ctx.rng(i + 5_000_000).chance(1, 12);
            let kind = match rng.below(10) {
                _ if seq_case => 0,
                0..=2 => 0,
                3..=5 => 1,
                6 => 2,
                _ => 3,
            };
            let terms = if seq_case {
                gen_terms_long_markers(&mut ctx.rng(i + 6_000_000), &mut pools, fixed_case)
            } else if (kind == 1 && rng.chance(4, 5)) || rng.chance(1, 10) {
                gen_terms_sandwich(&mut rng, &mut pools)
            } else {
                gen_terms(&mut rng, &mut pools)
            };
            let style_n = if fixed_case { [3, 0][i] } else { rng.usize(4) };
            let style = style_of(style_n);
            // Edits that produce a *different conflict* go through the API only: after a snapshot
            // the tree is passed through MergedTree::resolve() (file-level content merge of the
            // new sides and tree-level simplification, C07), which is outside this model. The
            // unedited file (kind 0) and marker-free text (kind 2) are not affected by it.
            let want_wc = (rng.chance(3, 10) && (kind == 0 || kind == 2)) || seq_case;
            let nlabels = terms.len();
            let label_strs: Vec<String> = if rng.chance(1, 2) || fixed_case {
                vec![]
            } else {
                (0..nlabels).map(|k| rng.pick(&["", "left", "right side", "b", "x y"]).to_string() + &format!("{k}")).collect()
            };

            let mut disk_exec = false;
            let mut done = false;
            let mut seq_terms: Vec<(bool, Option<Terms>, Option<u64>)> = vec![];

            if want_wc {
                if workspaces[style_n].is_none() {
                    workspaces[style_n] = Some(workspace_with_style(style_n));
                }
                let tw = workspaces[style_n].as_mut().unwrap();
                let repo = tw.repo.clone();
                let store = repo.store().clone();
                let trees: Vec<(MergedTree, String)> = terms
                    .iter()
                    .enumerate()
                    .map(|(k, t)| {
                        let tree = testutils::create_tree_with(&repo, |b| {
                            b.file(testutils::repo_path("other"), "o\n");
                            if let Some((c, x)) = t {
                                b.file(path, c).executable(*x);
                            }
                        });
                        (tree, label_strs.get(k).cloned().unwrap_or_default())
                    })
                    .collect();
                let merged = MergedTree::merge(Merge::from_vec(trees)).block_on().unwrap();
                let value = merged.path_value(path).block_on().unwrap();
                if !value.is_resolved() && value.to_file_merge().is_some() {
                    let ids = value.to_file_merge().unwrap();
                    let p = prepare(&store, path, &ids, merged.labels(), style);
                    let commit = testutils::commit_with_tree(&store, merged.clone());
                    let root = tw.workspace.workspace_root().to_owned();
                    let r = jjv::catch(|| {
                        tw.workspace.check_out(repo.op_id().clone(), None, &commit).block_on().unwrap();
                        let disk_path = path.to_fs_path_unchecked(&root);
                        let on_disk = std::fs::read(&disk_path).unwrap();
                        on_disk
                    });
                    if let Some(on_disk) = r {
                        let disk_path = path.to_fs_path_unchecked(&root);
                        let mut p = p;
                        // the bytes checkout wrote must be the materialization (tied by the model too)
                        if on_disk != p.mat {
                            ctx.note(format!("case {i}: checkout wrote different bytes than materialize_merge_result_to_bytes"));
                            p.mat = on_disk.clone();
                        }
                        let (k2, e2, c2) = edited_content(kind, &p, &mut rng, &mut pools);
                        // Steps: before each snapshot the file gets the same bytes again and/or new
                        // stat info (rewrite + newer mtime, pure touch, chmod). Kind 2 has one step.
                        let nsteps = if fixed_case {
                            3
                        } else if seq_case {
                            2 + ctx.rng(i + 7_000_000).usize(2)
                        } else {
                            1
                        };
                        let base_time = std::time::SystemTime::now();
                        let mut seq: Vec<(bool, Option<Terms>, Option<u64>)> = vec![];
                        let mut res: Option<Terms> = None;
                        for step in 0..nsteps {
                            let variant = if seq_case { (i + step) % 3 } else if k2 != 0 || rng.chance(1, 2) { 0 } else { 3 };
                            let newer = base_time + std::time::Duration::from_secs(3 * (step as u64 + 1));
                            match variant {
                                0 => {
                                    // rewrite (same bytes for kind 0) and force a newer mtime
                                    std::fs::write(&disk_path, &c2).unwrap();
                                    if seq_case {
                                        std::fs::File::options().write(true).open(&disk_path).unwrap().set_modified(newer).unwrap();
                                    }
                                    pools.push("step:rewrite-identical-bytes");
                                }
                                1 => {
                                    // pure touch
                                    std::fs::File::options().write(true).open(&disk_path).unwrap().set_modified(newer).unwrap();
                                    pools.push("step:touch");
                                }
                                2 => {
                                    use std::os::unix::fs::PermissionsExt as _;
                                    let mode = std::fs::metadata(&disk_path).unwrap().permissions().mode();
                                    std::fs::set_permissions(&disk_path, std::fs::Permissions::from_mode(mode ^ 0o111)).unwrap();
                                    std::fs::File::options().write(true).open(&disk_path).unwrap().set_modified(newer).unwrap();
                                    pools.push("step:chmod");
                                }
                                _ => {}
                            }
                            let exec_now = {
                                use std::os::unix::fs::PermissionsExt as _;
                                std::fs::metadata(&disk_path).unwrap().permissions().mode() & 0o111 != 0
                            };
                            let snap = jjv::catch(|| {
                                let tree = tw.snapshot().unwrap();
                                tree.path_value(path).block_on().unwrap()
                            });
                            let step_res: Option<Terms> = snap.map(|v| {
                                v.iter()
                                    .map(|t| match t {
                                        None => None,
                                        Some(TreeValue::File { id, executable, .. }) => {
                                            Some((testutils::read_file(&store, path, id), *executable))
                                        }
                                        Some(other) => panic!("unexpected tree value {other:?}"),
                                    })
                                    .collect()
                            });
                            if step_res.is_none() {
                                ctx.panicked();
                            }
                            let stored_len: Option<u64> = {
                                let wc: &LocalWorkingCopy = tw.workspace.working_copy().downcast_ref().unwrap();
                                wc.file_states()
                                    .unwrap()
                                    .get(path)
                                    .and_then(|st| st.materialized_conflict_data)
                                    .map(|d| d.conflict_marker_len as u64)
                            };
                            if step == 0 {
                                disk_exec = exec_now;
                                res = step_res.clone();
                            }
                            if k2 == 0 {
                                seq.push((exec_now, step_res, stored_len));
                            }
                        }
                        if seq.len() >= 2 {
                            pools.push("pool:snapshot-sequence");
                        }
                        seq_terms = seq;
                        // the conflict terms as stored in the tree (ids -> contents)
                        let vals: Terms = value
                            .iter()
                            .map(|t| match t {
                                None => None,
                                Some(TreeValue::File { id, executable, .. }) => {
                                    Some((testutils::read_file(&store, path, id), *executable))
                                }
                                Some(other) => panic!("unexpected tree value {other:?}"),
                            })
                            .collect();
                        let state: State = Some((p, k2, e2, c2, res));
                        let term = emit_term(&vals, &state, style_n, true, disk_exec, &seq_terms);
                        finish(ctx, i, term, &vals, &state, style_n, true, &mut pools);
                        done = true;
                    }
                }
            }
            if !done {
                let store = direct.repo.store().clone();
                let ids: Merge<Option<FileId>> =
                    Merge::from_vec(terms.iter().map(|t| t.as_ref().map(|(c, _)| write(&store, path, c))).collect::<Vec<_>>());
                let labels = ConflictLabels::from_vec(label_strs.clone());
                let p = prepare(&store, path, &ids, &labels, style);
                let (k2, e2, c2) = edited_content(kind, &p, &mut rng, &mut pools);
                let r = jjv::catch(|| conflicts::update_from_content(&ids, &store, path, &c2, p.len).block_on().unwrap());
                if r.is_none() {
                    ctx.panicked();
                }
                let res: Option<Terms> =
                    r.map(|m| m.iter().map(|t| t.as_ref().map(|id| (testutils::read_file(&store, path, id), false))).collect());
                let vals: Terms = terms.iter().map(|t| t.as_ref().map(|(c, _)| (c.clone(), false))).collect();
                let state: State = Some((p, k2, e2, c2, res));
                let term = emit_term(&vals, &state, style_n, false, false, &[]);
                finish(ctx, i, term, &vals, &state, style_n, false, &mut pools);
            }
        }
    });
}

type State = Option<(Prepared, u64, Option<(usize, Vec<u8>)>, Vec<u8>, Option<Terms>)>;

fn emit_term(vals: &Terms, state: &State, style_n: usize, wc: bool, disk_exec: bool, seq: &[(bool, Option<Terms>, Option<u64>)]) -> String {
    let (p, kind, edit, content, res) = state.as_ref().unwrap();
    let mh_term = match &p.mh {
        MergeResult::Resolved(c) => format!("(inl {})", coq::bytes(c)),
        MergeResult::Conflict(hs) => format!("(inr {})", hunks_term(hs)),
    };
    coq::app(
        "C06.mk_case",
        &[
            coq::list(vals.iter(), tval_term),
            mh_term,
            coq::n(style_n as u64),
            coq::list(p.labels.iter(), |l| coq::bytes(l.as_bytes())),
            format!("[{}]", p.diffs.join("; ")),
            coq::n(p.len as u64),
            coq::bytes(&p.mat),
            coq::n(*kind),
            coq::opt(edit.as_ref(), |(k, r)| format!("({}, {})", coq::n(*k as u64), coq::bytes(r))),
            coq::bytes(content),
            coq::b(wc),
            coq::b(disk_exec),
            coq::opt(res.as_ref(), |t| coq::list(t.iter(), tval_term)),
            coq::list(seq.iter(), |(x, v, l)| {
                format!(
                    "({}, {}, {})",
                    coq::b(*x),
                    coq::opt(v.as_ref(), |t| coq::list(t.iter(), tval_term)),
                    coq::opt(*l, coq::n)
                )
            }),
        ],
    )
}

#[allow(clippy::too_many_arguments)]
fn finish(ctx: &mut jjv::Ctx, i: usize, term: String, vals: &Terms, state: &State, style_n: usize, wc: bool, pools: &mut Vec<&'static str>) {
    let (p, kind, _, _, res) = state.as_ref().unwrap();
    let conflict = matches!(p.mh, MergeResult::Conflict(_));
    let shape = format!(
        "{} kind={} {}",
        if wc { "wc-snapshot" } else { "api" },
        kind,
        if conflict { "conflict" } else { "merges-cleanly" }
    );
    ctx.count(&format!("style:{}", STYLES[style_n]));
    ctx.count(&format!("terms:{}", vals.len().min(9)));
    if res.as_ref().is_some_and(|r| r.len() == 1) {
        ctx.count("result:resolved");
    }
    pools.sort();
    pools.dedup();
    for p in pools.iter() {
        ctx.count(p);
    }
    ctx.emit(i, term, conflict && vals.len() >= 3, &shape);
}
