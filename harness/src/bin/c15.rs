//! C15: the real `jj` CLI (jjbin, built from /repo's tree with the hooks on) is killed right
//! before its N-th durable effect (JJ_VERIF_CRASH_AT=N, lib/src/verif.rs) for every N of a
//! set of representative commands; afterwards the repo is loaded, inspected and recovered with
//! the documented commands, and the recorded effect sequence is handed to the model.
use std::collections::BTreeMap;
use std::collections::HashMap;
use std::path::Path;
use std::path::PathBuf;
use std::process::Command;
use std::process::Stdio;
use std::sync::Mutex;
use std::sync::atomic::AtomicUsize;
use std::sync::atomic::Ordering;
use std::time::Duration;
use std::time::Instant;

use blake2::Blake2b512;
use blake2::Digest as _;
use jjv::coq;

struct Env {
    root: PathBuf,
    jj: PathBuf,
}

struct Out {
    code: Option<i32>,
    stdout: String,
    stderr: String,
    timed_out: bool,
}

impl Env {
    fn jj(&self, cwd: &Path, args: &[&str], seed: u64, extra: &[(&str, String)]) -> Out {
        let mut cmd = Command::new(&self.jj);
        cmd.current_dir(cwd)
            .args(args)
            .env_clear()
            .env("PATH", std::env::var_os("PATH").unwrap_or_default())
            .env("HOME", self.root.join("home"))
            .env("JJ_CONFIG", self.root.join("config.toml"))
            .env("JJ_USER", "Test User")
            .env("JJ_EMAIL", "test.user@example.com")
            .env("JJ_OP_HOSTNAME", "host.example.com")
            .env("JJ_OP_USERNAME", "test-username")
            .env("JJ_RANDOMNESS_SEED", seed.to_string())
            .env("JJ_TIMESTAMP", format!("2001-02-03T04:05:{:02}+07:00", seed % 60))
            .env("JJ_OP_TIMESTAMP", format!("2001-02-03T04:{:02}:{:02}+07:00", (seed / 60) % 60, seed % 60))
            .env("GIT_CONFIG_SYSTEM", "/dev/null")
            .env("GIT_CONFIG_GLOBAL", "/dev/null")
            .env("TMPDIR", self.root.join("tmp"))
            .stdin(Stdio::null())
            .stdout(Stdio::piped())
            .stderr(Stdio::piped());
        for (k, v) in extra {
            cmd.env(k, v);
        }
        let mut child = cmd.spawn().expect("spawn jjbin");
        let deadline = Instant::now() + Duration::from_secs(600);
        let mut timed_out = false;
        // drain pipes in threads to avoid blocking
        let mut so = child.stdout.take().unwrap();
        let mut se = child.stderr.take().unwrap();
        let t1 = std::thread::spawn(move || {
            let mut s = String::new();
            let _ = std::io::Read::read_to_string(&mut so, &mut s);
            s
        });
        let t2 = std::thread::spawn(move || {
            let mut s = String::new();
            let _ = std::io::Read::read_to_string(&mut se, &mut s);
            s
        });
        let status = loop {
            match child.try_wait().unwrap() {
                Some(st) => break Some(st),
                None => {
                    if Instant::now() > deadline {
                        let _ = child.kill();
                        let _ = child.wait();
                        timed_out = true;
                        break None;
                    }
                    std::thread::sleep(Duration::from_millis(3));
                }
            }
        };
        Out {
            code: status.and_then(|s| s.code()),
            stdout: t1.join().unwrap_or_default(),
            stderr: t2.join().unwrap_or_default(),
            timed_out,
        }
    }
}

fn copy_dir(src: &Path, dst: &Path) {
    std::fs::create_dir_all(dst).unwrap();
    for e in std::fs::read_dir(src).unwrap() {
        let e = e.unwrap();
        let ty = e.file_type().unwrap();
        let to = dst.join(e.file_name());
        if ty.is_dir() {
            copy_dir(&e.path(), &to);
        } else if ty.is_symlink() {
            let target = std::fs::read_link(e.path()).unwrap();
            let _ = std::os::unix::fs::symlink(target, &to);
        } else {
            std::fs::copy(e.path(), &to).unwrap();
        }
    }
}

/// Working-copy files (path relative to the workspace root -> content), without .jj/.git.
fn wc_files(ws: &Path) -> BTreeMap<String, Vec<u8>> {
    fn go(base: &Path, dir: &Path, out: &mut BTreeMap<String, Vec<u8>>) {
        for e in std::fs::read_dir(dir).unwrap() {
            let e = e.unwrap();
            let name = e.file_name().to_str().unwrap().to_string();
            if name == ".jj" || name == ".git" {
                continue;
            }
            let p = e.path();
            if e.file_type().unwrap().is_dir() {
                go(base, &p, out);
            } else if let Ok(data) = std::fs::read(&p) {
                out.insert(p.strip_prefix(base).unwrap().to_str().unwrap().to_string(), data);
            }
        }
    }
    let mut out = BTreeMap::new();
    go(ws, ws, &mut out);
    out
}

#[derive(Clone, Debug)]
struct Scenario {
    name: &'static str,
    /// commands run (uncrashed) after the common base setup; "!" prefix = shell-like file write "path=content"
    setup: Vec<Vec<String>>,
    /// file edits in the working copy right before the command (path, content; empty content = delete)
    edits: Vec<(String, String)>,
    cmd: Vec<String>,
    /// directory (relative to the scenario root) the command runs in
    cwd: &'static str,
    colocated: bool,
}

fn sv(xs: &[&str]) -> Vec<String> {
    xs.iter().map(|s| s.to_string()).collect()
}

fn scenarios(variant: usize, thorough: bool) -> Vec<Scenario> {
    let v = variant;
    let txt = |s: &str| format!("{s}-{v}\n");
    let mut all = vec![
        Scenario { name: "new", setup: vec![], edits: vec![], cmd: sv(&["new", "-m", "two"]), cwd: "repo", colocated: false },
        Scenario {
            name: "describe+snapshot",
            setup: vec![],
            edits: vec![("a".into(), txt("a changed")), ("n".into(), txt("new file"))],
            cmd: sv(&["describe", "-m", "described"]),
            cwd: "repo",
            colocated: false,
        },
        Scenario {
            name: "commit",
            setup: vec![],
            edits: vec![("d".into(), txt("d"))],
            cmd: sv(&["commit", "-m", "C"]),
            cwd: "repo",
            colocated: false,
        },
        Scenario {
            name: "squash",
            setup: vec![],
            edits: vec![("e".into(), txt("e")), ("a".into(), txt("a squashed"))],
            cmd: sv(&["squash"]),
            cwd: "repo",
            colocated: false,
        },
        Scenario {
            name: "rebase",
            setup: vec![sv(&["new", "root()", "-m", "side"]), sv(&["!", "s", "side file\n"])],
            edits: vec![],
            cmd: sv(&["rebase", "-r", "@", "-d", "bm"]),
            cwd: "repo",
            colocated: false,
        },
        Scenario { name: "abandon", setup: vec![], edits: vec![], cmd: sv(&["abandon", "bm"]), cwd: "repo", colocated: false },
        Scenario {
            name: "bookmark-set",
            setup: vec![],
            edits: vec![],
            cmd: sv(&["bookmark", "set", "bm", "-r", "@", "--allow-backwards"]),
            cwd: "repo",
            colocated: false,
        },
        Scenario { name: "new-root", setup: vec![], edits: vec![], cmd: sv(&["new", "root()"]), cwd: "repo", colocated: false },
        Scenario {
            name: "update-stale",
            setup: vec![
                sv(&["workspace", "add", "../ws2"]),
                sv(&["!@ws2", "z", "written in ws2\n"]),
                sv(&["@ws2", "squash", "--into", "default@"]),
            ],
            edits: vec![],
            cmd: sv(&["workspace", "update-stale"]),
            cwd: "repo",
            colocated: false,
        },
        Scenario { name: "undo", setup: vec![sv(&["new", "-m", "to be undone"])], edits: vec![], cmd: sv(&["undo"]), cwd: "repo", colocated: false },
        Scenario { name: "abandon-colocated", setup: vec![], edits: vec![], cmd: sv(&["abandon", "bm"]), cwd: "repo", colocated: true },
        Scenario {
            name: "edit",
            setup: vec![],
            edits: vec![("x".into(), txt("x"))],
            cmd: sv(&["edit", "bm"]),
            cwd: "repo",
            colocated: false,
        },
        // a tracked-but-ignored file in the NEW tree: ign/f is tracked first, then ign/ is
        // added to .gitignore; @ moves from a commit without ign/f to the one that has it
        Scenario {
            name: "edit-ignored",
            setup: vec![
                sv(&["!", "ign/f", "tracked before it was ignored\n"]),
                sv(&["commit", "-m", "I1"]),
                sv(&["!", ".gitignore", "ign/\n"]),
                sv(&["commit", "-m", "I2"]),
                sv(&["bookmark", "create", "ig", "-r", "@-"]),
                sv(&["new", "root()", "-m", "elsewhere"]),
            ],
            edits: vec![],
            cmd: sv(&["edit", "ig"]),
            cwd: "repo",
            colocated: false,
        },
    ];
    if thorough {
        all.push(Scenario {
            name: "op-restore",
            setup: vec![sv(&["new", "root()", "-m", "elsewhere"])],
            edits: vec![],
            cmd: sv(&["op", "restore", "@--"]),
            cwd: "repo",
            colocated: false,
        });
        all.push(Scenario {
            name: "restore-from",
            setup: vec![sv(&["new", "root()", "-m", "empty side"])],
            edits: vec![("q".into(), txt("q"))],
            cmd: sv(&["restore", "--from", "bm"]),
            cwd: "repo",
            colocated: false,
        });
        all.push(Scenario {
            name: "duplicate",
            setup: vec![],
            edits: vec![],
            cmd: sv(&["duplicate", "bm"]),
            cwd: "repo",
            colocated: false,
        });
    }
    all
}

/// Working-copy file writes of one checkout run concurrently: their relative order (and
/// hence which path comes N-th) is not deterministic; the model treats them alike.
fn canon_kind(kind: &str, detail: &str) -> String {
    if let Some(rest) = detail.strip_prefix("wc-write:").or_else(|| detail.strip_prefix("wc-remove:")) {
        let _ = rest;
        return "durable\twc".to_string();
    }
    format!("{kind}\t{detail}")
}

fn hexname_ok(path: &Path) -> bool {
    // content-addressed by the bytes: name == blake2b-512(content)
    let name = path.file_name().unwrap().to_str().unwrap().to_string();
    if name.len() != 128 || !name.bytes().all(|b| b.is_ascii_hexdigit()) {
        return true; // not a content-addressed file (lock, temp file left by the crash, heads dir)
    }
    match std::fs::read(path) {
        Ok(data) => {
            let mut h = Blake2b512::new();
            h.update(&data);
            let digest = h.finalize();
            let hex: String = digest.iter().map(|b| format!("{b:02x}")).collect();
            hex == name
        }
        Err(_) => false,
    }
}

fn tables_ok(repo: &Path) -> bool {
    let mut ok = true;
    for sub in ["store/extra", "index/segments", "index/changed_paths"] {
        let d = repo.join(".jj/repo").join(sub);
        if let Ok(rd) = std::fs::read_dir(&d) {
            for e in rd {
                let e = e.unwrap();
                if e.file_type().unwrap().is_file() {
                    ok &= hexname_ok(&e.path());
                }
            }
        }
    }
    ok
}

fn checkout_op(ws: &Path, index: &HashMap<String, usize>) -> usize {
    std::fs::read(ws.join(".jj/working_copy/checkout"))
        .ok()
        .and_then(|b| {
            // proto: field 2 (operation_id) = 0x12 len bytes
            let mut i = 0;
            while i + 2 <= b.len() {
                let tag = b[i];
                let len = b[i + 1] as usize;
                if tag == 0x12 && i + 2 + len <= b.len() {
                    let hex: String = b[i + 2..i + 2 + len].iter().map(|x| format!("{x:02x}")).collect();
                    return index.get(&hex).copied();
                }
                i += 2 + len;
            }
            None
        })
        .unwrap_or(999)
}

struct OpInfo {
    ids: Vec<String>,          // index -> id, parents before children
    parents: Vec<Vec<usize>>,
}

fn op_log(env: &Env, dir: &Path, seed: u64) -> Option<Vec<(String, Vec<String>)>> {
    let out = env.jj(
        dir,
        &[
            "op",
            "log",
            "--ignore-working-copy",
            "--no-graph",
            "-T",
            r#"id ++ " " ++ parents.map(|p| p.id()).join(",") ++ "\n""#,
        ],
        seed,
        &[],
    );
    if out.code != Some(0) {
        return None;
    }
    let mut v = vec![];
    for line in out.stdout.lines() {
        let (id, ps) = line.split_once(' ').unwrap_or((line, ""));
        v.push((id.to_string(), ps.split(',').filter(|s| !s.is_empty()).map(|s| s.to_string()).collect()));
    }
    Some(v)
}

/// Described or bookmarked commits visible at the head operation, by change id, description,
/// parents' change ids and bookmarks (commit ids would change with every snapshot of the
/// working copy).
fn signature(env: &Env, dir: &Path, seed: u64) -> String {
    let o = env.jj(
        dir,
        &[
            "log",
            "--ignore-working-copy",
            "--no-graph",
            "-r",
            "all()",
            "-T",
            r#"if(description || bookmarks, change_id ++ " " ++ description.first_line() ++ " p:" ++ parents.map(|c| c.change_id()).join(",") ++ " b:" ++ bookmarks ++ "\n", "")"#,
        ],
        seed,
        &[],
    );
    let mut lines: Vec<&str> = o.stdout.lines().filter(|l| !l.trim().is_empty()).collect();
    lines.sort();
    format!("{:?}|{}", o.code, lines.join("\n"))
}

fn run_scenario(sc: &Scenario, root: &Path, jj: &Path, variant: usize) -> (String, String, bool, Vec<String>) {
    let _ = std::fs::remove_dir_all(root);
    std::fs::create_dir_all(root.join("home")).unwrap();
    std::fs::create_dir_all(root.join("tmp")).unwrap();
    std::fs::write(
        root.join("config.toml"),
        "[ui]\npaginate = \"never\"\ncolor = \"never\"\n[snapshot]\nauto-track = \"all()\"\n",
    )
    .unwrap();
    let env = Env { root: root.to_path_buf(), jj: jj.to_path_buf() };
    let base = root.join("base");
    std::fs::create_dir_all(&base).unwrap();
    let repo = base.join("repo");
    let mut seed = 1u64;
    let mut run = |cwd: &Path, args: &[&str]| {
        seed += 1;
        let o = env.jj(cwd, args, seed, &[]);
        if o.code != Some(0) {
            eprintln!("C15 setup command {args:?} failed: {}", o.stderr);
            panic!("setup failed");
        }
    };
    // ---- common base: A (a, b) <- B (a', c) [bookmark bm] <- @ (empty)
    run(&base, &["git", "init", if sc.colocated { "--colocate" } else { "--no-colocate" }, "repo"]);
    std::fs::write(repo.join("a"), format!("a-{variant}\n")).unwrap();
    std::fs::write(repo.join("b"), "b\n").unwrap();
    run(&repo, &["commit", "-m", "A"]);
    std::fs::write(repo.join("a"), format!("a2-{variant}\n")).unwrap();
    std::fs::write(repo.join("c"), "c\n").unwrap();
    if variant % 2 == 1 {
        std::fs::create_dir_all(repo.join("dir")).unwrap();
        std::fs::write(repo.join("dir/f"), "nested\n").unwrap();
    }
    run(&repo, &["commit", "-m", "B"]);
    run(&repo, &["bookmark", "create", "bm", "-r", "@-"]);
    for s in &sc.setup {
        if s[0] == "!" {
            if let Some(parent) = repo.join(&s[1]).parent() {
                std::fs::create_dir_all(parent).unwrap();
            }
            std::fs::write(repo.join(&s[1]), &s[2]).unwrap();
            run(&repo, &["status"]);
        } else if let Some(ws) = s[0].strip_prefix("!@") {
            std::fs::write(base.join(ws).join(&s[1]), &s[2]).unwrap();
        } else if let Some(ws) = s[0].strip_prefix('@') {
            let args: Vec<&str> = s[1..].iter().map(|x| x.as_str()).collect();
            run(&base.join(ws), &args);
        } else {
            let args: Vec<&str> = s.iter().map(|x| x.as_str()).collect();
            run(&repo, &args);
        }
    }
    for (p, c) in &sc.edits {
        if c.is_empty() {
            let _ = std::fs::remove_file(repo.join(p));
        } else {
            std::fs::write(repo.join(p), c).unwrap();
        }
    }
    let seed0 = seed + 10;
    let before = op_log(&env, &repo, seed0).expect("op log of the base repo");
    let sig_before = signature(&env, &base.join(sc.cwd), seed0);
    let cmd_args: Vec<&str> = sc.cmd.iter().map(|x| x.as_str()).collect();

    // ---- reference run with the trace
    let refdir = root.join("ref");
    copy_dir(&base, &refdir);
    let trace_path = root.join("trace-ref.txt");
    let o = env.jj(&refdir.join(sc.cwd), &cmd_args, seed0 + 1, &[("JJ_VERIF_TRACE", trace_path.to_string_lossy().to_string())]);
    let ref_ok = o.code == Some(0);
    let after = op_log(&env, &refdir.join(sc.cwd), seed0 + 2).unwrap_or_default();
    let sig_after = signature(&env, &refdir.join(sc.cwd), seed0 + 2);
    let sig_changed = sig_before != sig_after;

    // op numbering: parents before children
    let mut info = OpInfo { ids: vec![], parents: vec![] };
    let mut index: HashMap<String, usize> = HashMap::new();
    for (id, _) in before.iter().rev() {
        index.insert(id.clone(), info.ids.len());
        info.ids.push(id.clone());
    }
    let nbefore = info.ids.len();
    for (id, _) in after.iter().rev() {
        if !index.contains_key(id) {
            index.insert(id.clone(), info.ids.len());
            info.ids.push(id.clone());
        }
    }
    let mut par_of: HashMap<String, Vec<String>> = HashMap::new();
    for (id, ps) in before.iter().chain(after.iter()) {
        par_of.insert(id.clone(), ps.clone());
    }
    for id in &info.ids {
        let mut ps: Vec<usize> = par_of[id].iter().filter_map(|p| index.get(p).copied()).collect();
        ps.sort();
        info.parents.push(ps);
    }
    let head_before = index[&before[0].0];

    // tracked files (path -> content) of the working-copy commit at the operation before the
    // command and at every new operation of the uncrashed run
    let tree_at_op = |dir: &Path, op: &str| -> BTreeMap<String, Vec<u8>> {
        let l = env.jj(dir, &["file", "list", "--ignore-working-copy", "--at-op", op, "-r", "@"], seed0 + 2, &[]);
        let mut m = BTreeMap::new();
        for p in l.stdout.lines() {
            let f = env.jj(dir, &["file", "show", "--ignore-working-copy", "--at-op", op, "-r", "@", p], seed0 + 2, &[]);
            m.insert(p.to_string(), f.stdout.into_bytes());
        }
        m
    };
    let mut op_seq: Vec<usize> = vec![head_before];
    op_seq.extend(nbefore..info.ids.len());
    let wc_trees: Vec<(usize, BTreeMap<String, Vec<u8>>)> =
        op_seq.iter().map(|&o| (o, tree_at_op(&refdir.join(sc.cwd), &info.ids[o]))).collect();
    let mut wc_changed: Vec<usize> = vec![];
    for w in wc_trees.windows(2) {
        if w[0].1 != w[1].1 {
            wc_changed.push(w[1].0);
        }
    }

    // ---- classify the reference trace
    let refroot = refdir.to_string_lossy().to_string();
    let mut paths: HashMap<String, usize> = HashMap::new();
    let classify = |kind: &str, detail: &str, paths: &mut HashMap<String, usize>| -> Option<String> {
        let rel = detail.strip_prefix(&refroot).unwrap_or(detail).trim_start_matches('/');
        let opidx = |id: &str| index.get(id).copied().unwrap_or(999);
        match kind {
            "op_heads.add" => Some(format!("(C15.EHeadAdd {})", opidx(detail))),
            "op_heads.remove" => Some(format!("(C15.EHeadRemove {})", opidx(detail))),
            "table.add_head" => Some("C15.ETabAdd".to_string()),
            "table.remove_head" => Some("C15.ETabRemove".to_string()),
            "durable" => {
                if let Some(p) = detail.strip_prefix("wc-write:").or_else(|| detail.strip_prefix("wc-remove:")) {
                    let n = paths.len();
                    let i = *paths.entry(p.to_string()).or_insert(n);
                    if detail.starts_with("wc-write:") {
                        Some(format!("(C15.EWcWrite {i})"))
                    } else {
                        Some(format!("(C15.EWcRemove {i})"))
                    }
                } else if let Some(id) = rel.rsplit_once("op_store/operations/").map(|x| x.1) {
                    Some(format!("(C15.EOp {})", opidx(id)))
                } else if let Some(id) = rel.rsplit_once("index/op_links/").map(|x| x.1) {
                    Some(format!("(C15.ELink {})", opidx(id)))
                } else if rel.contains("op_store/views/")
                    || rel.contains("index/segments/")
                    || rel.contains("index/changed_paths/")
                    || rel.contains("store/extra/")
                {
                    Some("C15.EObj".to_string())
                } else if rel.ends_with("working_copy/tree_state") {
                    Some("C15.ETreeState".to_string())
                } else if rel.ends_with("working_copy/checkout") {
                    Some("C15.ECheckout".to_string())
                } else {
                    Some("C15.EOther".to_string())
                }
            }
            _ => None,
        }
    };
    let trace = std::fs::read_to_string(&trace_path).unwrap_or_default();
    let mut effects: Vec<String> = vec![];
    let mut kinds: Vec<String> = vec![];
    for line in trace.lines() {
        let mut it = line.splitn(3, '\t');
        let (_n, kind, detail) = (it.next().unwrap_or(""), it.next().unwrap_or(""), it.next().unwrap_or(""));
        if let Some(e) = classify(kind, detail, &mut paths) {
            kinds.push(canon_kind(kind, detail.strip_prefix(&refroot).unwrap_or(detail)));
            effects.push(e);
        }
    }
    let total = effects.len();

    // ---- crash runs, one per durable point, in parallel
    let results: Mutex<Vec<Option<String>>> = Mutex::new(vec![None; total]);
    let all_tables_ok = Mutex::new(true);
    let notes: Mutex<Vec<String>> = Mutex::new(vec![]);
    let trace_mismatch = AtomicUsize::new(0);
    let next = AtomicUsize::new(0);
    let workers = std::thread::available_parallelism().map(|n| n.get()).unwrap_or(4).min(10);
    std::thread::scope(|s| {
        for _ in 0..workers {
            s.spawn(|| {
                loop {
                    let k = next.fetch_add(1, Ordering::SeqCst);
                    if k >= total {
                        break;
                    }
                    let n = k + 1;
                    let dir = root.join(format!("crash{n}"));
                    copy_dir(&base, &dir);
                    let ws = dir.join(sc.cwd);
                    let tpath = root.join(format!("trace-{n}.txt"));
                    let o = env.jj(
                        &ws,
                        &cmd_args,
                        seed0 + 1,
                        &[
                            ("JJ_VERIF_CRASH_AT", n.to_string()),
                            ("JJ_VERIF_TRACE", tpath.to_string_lossy().to_string()),
                        ],
                    );
                    let aborted = o.code.is_none();
                    // the crashed run must have performed exactly the reference prefix
                    let droot = dir.to_string_lossy().to_string();
                    let t = std::fs::read_to_string(&tpath).unwrap_or_default();
                    let mut got: Vec<String> = vec![];
                    for line in t.lines() {
                        let mut it = line.splitn(3, '\t');
                        let (_c, kind, detail) = (it.next().unwrap_or(""), it.next().unwrap_or(""), it.next().unwrap_or(""));
                        if jj_lib::verif::is_durable(kind) {
                            got.push(canon_kind(kind, detail.strip_prefix(&droot).unwrap_or(detail)));
                        }
                    }
                    if got.len() != n || got[..] != kinds[..n] {
                        trace_mismatch.fetch_add(1, Ordering::SeqCst);
                    }
                    // observations
                    let mut heads: Vec<usize> = std::fs::read_dir(ws.join(".jj/repo/op_heads/heads"))
                        .map(|rd| {
                            rd.filter_map(|e| {
                                let name = e.unwrap().file_name().to_str().unwrap().to_string();
                                if name.len() == 128 { Some(index.get(&name).copied().unwrap_or(999)) } else { None }
                            })
                            .collect()
                        })
                        .unwrap_or_default();
                    heads.sort();
                    let checkout = checkout_op(&ws, &index);
                    let files_crash = wc_files(&ws);
                    let mut tok = tables_ok(&ws);
                    let listed = op_log(&env, &ws, seed0 + 3);
                    let loads = listed.is_some();
                    let listed = listed.unwrap_or_default();
                    let ops_kept = before.iter().all(|(id, _)| listed.iter().any(|(l, _)| l == id));
                    let current = listed.first().and_then(|(id, _)| index.get(id).copied()).unwrap_or(999);
                    let st = env.jj(&ws, &["status"], seed0 + 4, &[]);
                    let status_ok = st.code == Some(0);
                    let mut recovered = false;
                    if !status_ok {
                        let r = env.jj(&ws, &["workspace", "update-stale"], seed0 + 5, &[]);
                        let st2 = env.jj(&ws, &["status"], seed0 + 6, &[]);
                        recovered = r.code == Some(0) && st2.code == Some(0);
                        if !recovered {
                            notes.lock().unwrap().push(format!(
                                "{} crash point {n}: update-stale code={:?} timed_out={} stderr={:?}; status code={:?} timed_out={} stderr={:?}",
                                sc.name,
                                r.code,
                                r.timed_out,
                                r.stderr.chars().take(300).collect::<String>(),
                                st2.code,
                                st2.timed_out,
                                st2.stderr.chars().take(300).collect::<String>()
                            ));
                        }
                    }
                    tok &= tables_ok(&ws);
                    // no file lost: still on disk, or stored in a visible commit
                    let files_now = wc_files(&ws);
                    let mut files_kept = true;
                    let mut commits: Option<Vec<String>> = None;
                    for (p, c) in &files_crash {
                        if files_now.get(p) == Some(c) {
                            continue;
                        }
                        if commits.is_none() {
                            // commits shown by ANY operation of the log (a file of an abandoned
                            // commit is still recorded in the earlier operations)
                            let mut all: Vec<String> = vec![];
                            let ops_now = op_log(&env, &ws, seed0 + 7).unwrap_or_default();
                            for (op, _) in ops_now.iter().take(12) {
                                let l = env.jj(
                                    &ws,
                                    &["log", "--ignore-working-copy", "--at-op", op, "--no-graph", "-r", "all()", "-T", r#"commit_id ++ "\n""#],
                                    seed0 + 7,
                                    &[],
                                );
                                for c in l.stdout.lines() {
                                    if !all.iter().any(|x| x == c) {
                                        all.push(c.to_string());
                                    }
                                }
                            }
                            commits = Some(all);
                        }
                        let found = commits.as_ref().unwrap().iter().any(|cid| {
                            let f = env.jj(&ws, &["file", "show", "--ignore-working-copy", "-r", cid, p], seed0 + 8, &[]);
                            f.code == Some(0) && f.stdout.as_bytes() == &c[..]
                        });
                        files_kept &= found;
                    }
                    if !tok {
                        *all_tables_ok.lock().unwrap() = false;
                    }
                    // the recovered working-copy commit must have the tree it has at one of
                    // the operations of the uncrashed run: nothing tracked silently disappears.
                    // (status has just snapshotted: a tracked path's content is what is on disk)
                    let tracked = env.jj(&ws, &["file", "list", "--ignore-working-copy", "-r", "@"], seed0 + 9, &[]);
                    let mut now_tree: BTreeMap<String, Vec<u8>> = BTreeMap::new();
                    for p in tracked.stdout.lines() {
                        now_tree.insert(p.to_string(), files_now.get(p).cloned().unwrap_or_default());
                    }
                    let tree_at = wc_trees
                        .iter()
                        .rev()
                        .find(|(_, t)| tracked.code == Some(0) && *t == now_tree)
                        .map(|(o, _)| *o)
                        .unwrap_or(999);
                    let sig_now = signature(&env, &ws, seed0 + 9);
                    // The recovery may ADD commits (update-stale snapshots what it finds on disk
                    // next to the command's result); nothing of the before- or after-state
                    // may be missing.
                    let contains = |big: &str, small: &str| {
                        let (bc, bl) = big.split_once('|').unwrap_or(("", ""));
                        let (sc_, sl) = small.split_once('|').unwrap_or(("", ""));
                        bc == sc_ && sl.lines().all(|l| bl.lines().any(|x| x == l))
                    };
                    let state = if sig_now == sig_before {
                        0
                    } else if sig_now == sig_after {
                        1
                    } else {
                        match (contains(&sig_now, &sig_before), contains(&sig_now, &sig_after)) {
                            (true, true) => 3, // recovery kept a divergent copy: both are there
                            (true, false) => 0,
                            (false, true) => 1,
                            (false, false) => 2,
                        }
                    };
                    let term = format!(
                        "(C15.mk_obs {n} {} {} {} {current} {} {checkout} {} {} {} {tree_at} {state})",
                        coq::b(aborted),
                        coq::b(loads),
                        coq::b(ops_kept),
                        coq::list(heads.iter(), |h| format!("{h}")),
                        coq::b(status_ok),
                        coq::b(recovered),
                        coq::b(files_kept),
                    );
                    results.lock().unwrap()[k] = Some(term);
                    let _ = std::fs::remove_dir_all(&dir);
                }
            });
        }
    });
    let obs: Vec<String> = results.into_inner().unwrap().into_iter().map(|x| x.unwrap()).collect();
    let mism = trace_mismatch.load(Ordering::SeqCst);
    let term = format!(
        "(C15.mk_case {} {} {} {} [{}] [{}] {} {} {} {})%nat",
        nbefore,
        coq::list(info.parents.iter(), |ps| coq::list(ps.iter(), |p| format!("{p}"))),
        head_before,
        checkout_op(&base.join(sc.cwd), &index),
        effects.join("; "),
        obs.join("; "),
        coq::b(*all_tables_ok.lock().unwrap() && mism == 0 && ref_ok),
        coq::b(sc.colocated),
        coq::b(sig_changed),
        coq::list(wc_changed.iter(), |o| format!("{o}")),
    );
    let n_wc = effects.iter().filter(|e| e.contains("EWc")).count();
    let n_ops = effects.iter().filter(|e| e.contains("EOp ")).count();
    let shape = format!(
        "{} ops={} wcwrites={}{}{}",
        sc.name,
        n_ops,
        n_wc.min(3),
        if mism > 0 { " TRACE-REORDERED" } else { "" },
        if ref_ok { "" } else { " REF-FAILED" }
    );
    let _ = std::fs::remove_dir_all(root);
    (term, shape, total >= 5, notes.into_inner().unwrap())
}

fn main() {
    jjv::run("C15", "C15", |ctx| {
        let jj = jjv::jj_bin_path();
        let scratch = std::fs::canonicalize(&ctx.scratch).unwrap();
        for i in ctx.indices() {
            let thorough = ctx.tier == "thorough";
            let per = if thorough { 16 } else { 13 };
            let variant = i / per;
            let scs = scenarios(variant, thorough);
            let sc = &scs[i % scs.len()];
            let root = scratch.join(format!("s{i}"));
            let r = jjv::catch(|| run_scenario(sc, &root, &jj, variant));
            let (term, shape, nontrivial, notes) = r.unwrap_or_else(|| {
                (
                    "(C15.mk_case 0 [] 0 0 [] [] false false false [])%nat".to_string(),
                    format!("{} HARNESS-PANIC", sc.name),
                    false,
                    vec![],
                )
            });
            for n in notes {
                ctx.note(format!("case {i}: {n}"));
            }
            ctx.emit(i, term, nontrivial, &shape);
        }
    });
}
