//! C18: the commit index's is_ancestor / heads / common_ancestors / generation numbers /
//! all_heads on random DAGs built over several real transactions (stacked index segments,
//! concurrent operations, reload, full reindex), queried through the public `Index` trait.
#[path = "../dagrepo.rs"]
mod dagrepo;

use std::sync::Arc;

use dagrepo::Shape;
use jj_lib::backend::CommitId;
use jj_lib::object_id::ObjectId as _;
use jj_lib::commit::Commit;
use jj_lib::default_index::DefaultReadonlyIndex;
use jj_lib::repo::ReadonlyRepo;
use jj_lib::repo::Repo;
use jjv::Rng;
use jjv::coq;
use pollster::FutureExt as _;
use testutils::TestRepo;

struct Snap {
    term: String,
    n: usize,
    merges: usize,
    queries: usize,
}

fn pick_set(rng: &mut Rng, n: usize, max: usize, allow_dup: bool) -> Vec<usize> {
    // empty sets are an edge pool, not the bulk
    let k = if rng.chance(1, 12) { 0 } else { 1 + rng.usize(max) };
    let mut v: Vec<usize> = vec![];
    for _ in 0..k {
        let x = rng.usize(n);
        if allow_dup || !v.contains(&x) {
            v.push(x);
        }
    }
    v
}

/// Runs the queries on `repo`'s index and renders one `C18.mk_snap`.
fn snapshot(
    repo: &dyn Repo,
    readonly: Option<&Arc<ReadonlyRepo>>,
    order: Vec<CommitId>,
    rng: &mut Rng,
    nq: usize,
) -> Snap {
    let (g, pos) = dagrepo::graph_of(repo, &order);
    let n = g.len();
    let index = repo.index();
    let to_pos = |ids: &[CommitId]| -> Vec<usize> { ids.iter().map(|id| pos[id]).collect() };
    let ids_of = |xs: &[usize]| -> Vec<CommitId> { xs.iter().map(|&x| order[x].clone()).collect() };
    let mut qs: Vec<String> = vec![];
    for _ in 0..nq {
        match rng.below(10) {
            0..=3 => {
                // is_ancestor: half of the time a true ancestor pair
                let d = rng.usize(n);
                let a = if rng.chance(1, 2) {
                    *rng.pick(&dagrepo::ancestors_of(&g, d))
                } else {
                    rng.usize(n)
                };
                let r = index.is_ancestor(&order[a], &order[d]).block_on().unwrap();
                qs.push(format!("QAnc {a} {d} {}", coq::b(r)));
            }
            4..=6 => {
                let c = if rng.chance(1, 5) {
                    // an ancestor chain plus noise: heavy pruning
                    let d = rng.usize(n);
                    let mut v = dagrepo::ancestors_of(&g, d);
                    rng.shuffle(&mut v);
                    v.truncate(1 + rng.usize(6));
                    v.extend(pick_set(rng, n, 2, true));
                    v
                } else {
                    pick_set(rng, n, 7, true)
                };
                let ids = ids_of(&c);
                let r = index.heads(&mut ids.iter()).block_on().unwrap();
                qs.push(format!("QHeads {} {}", dagrepo::coq_nats(&c), dagrepo::coq_nats(&to_pos(&r))));
            }
            _ => {
                let s1 = pick_set(rng, n, 3, true);
                let s2 = pick_set(rng, n, 3, true);
                let r = index
                    .common_ancestors(&ids_of(&s1), &ids_of(&s2))
                    .block_on()
                    .unwrap();
                qs.push(format!(
                    "QCommon {} {} {}",
                    dagrepo::coq_nats(&s1),
                    dagrepo::coq_nats(&s2),
                    dagrepo::coq_nats(&to_pos(&r))
                ));
            }
        }
    }
    // heads(roots..heads & filter) through the engine's HeadsRange plan (readonly index only)
    if let Some(ro) = readonly {
        use jj_lib::revset::ResolvedExpression;
        use jj_lib::revset::ResolvedPredicateExpression;
        let idx: &DefaultReadonlyIndex = ro.readonly_index().downcast_ref().unwrap();
        for _ in 0..2 {
            let roots = pick_set(rng, n, 2, true);
            let roots = if rng.chance(1, 4) { vec![] } else { roots };
            let heads = pick_set(rng, n, 3, true);
            let max_parents = g.iter().map(|ps| ps.len()).max().unwrap_or(0) as u32;
            let (lo, hi): (u32, u32) = match rng.below(4) {
                0 => (0, 1),                    // first parents only
                1 => (1, u32::MAX),             // all but the first parent
                _ => (0, u32::MAX),
            };
            let fset: Option<Vec<usize>> = if rng.chance(2, 3) {
                let d = *rng.pick(&[20u64, 50, 80]);
                Some((0..n).filter(|_| rng.below(100) < d).collect())
            } else {
                None
            };
            let expr = ResolvedExpression::HeadsRange {
                roots: Box::new(ResolvedExpression::Commits(ids_of(&roots))),
                heads: Box::new(ResolvedExpression::Commits(ids_of(&heads))),
                parents_range: lo..hi,
                filter: fset.as_ref().map(|f| {
                    ResolvedPredicateExpression::Set(Box::new(ResolvedExpression::Commits(ids_of(f))))
                }),
            };
            let revset = idx.evaluate_revset_impl(&expr, ro.store()).unwrap();
            let r: Vec<CommitId> = revset.iter_graph_impl(false).map(|nd| nd.unwrap().0).collect();
            let hi_m = if hi == u32::MAX { max_parents.max(1) as usize + 1 } else { hi as usize };
            qs.push(format!(
                "QHeadsRange {} {} {lo} {hi_m} {} {}",
                dagrepo::coq_nats(&roots),
                dagrepo::coq_nats(&heads),
                match &fset {
                    Some(f) => format!("(Some {})", dagrepo::coq_nats(f)),
                    None => "None".to_string(),
                },
                dagrepo::coq_nats(&to_pos(&r))
            ));
        }
    }
    // all heads of the index (ascending positions)
    let all_heads: Vec<CommitId> = index.all_heads_for_gc().unwrap().collect();
    qs.push(format!("QAllHeads {}", dagrepo::coq_nats(&to_pos(&all_heads))));
    if let Some(ro) = readonly {
        let idx: &DefaultReadonlyIndex = ro.readonly_index().downcast_ref().unwrap();
        assert_eq!(idx.num_commits() as usize, n, "index holds commits invisible to all()");
        for _ in 0..3 {
            let x = rng.usize(n);
            let r = idx.generation_number(&order[x]).unwrap();
            qs.push(format!("QGen {x} {r}"));
        }
    }
    let merges = g.iter().filter(|ps| ps.len() > 1).count();
    let nqs = qs.len();
    let term = format!(
        "(mk_snap {} [{}])",
        dagrepo::coq_graph(&g),
        qs.iter().map(|q| format!("({q})")).collect::<Vec<_>>().join("; ")
    );
    Snap { term, n, merges, queries: nqs }
}

fn levels(repo: &Arc<ReadonlyRepo>) -> Vec<u32> {
    let idx: &DefaultReadonlyIndex = repo.readonly_index().downcast_ref().unwrap();
    idx.stats().commit_levels.iter().map(|l| l.num_commits).collect()
}

fn main() {
    jjv::run("C18", "C18", |ctx| {
        dagrepo::use_scratch(&ctx.scratch);
        let settings = dagrepo::settings();
        let results = dagrepo::par_cases(&*ctx, |ctx, i| -> dagrepo::CaseOut {
            let mut rng = ctx.rng(i);
            let thorough = ctx.tier == "thorough";
            let n = if rng.chance(1, 10) {
                rng.range(1, 4) as usize
            } else {
                rng.range(5, if thorough { 70 } else { 32 }) as usize
            };
            let style = rng.below(4);
            let shape: Shape = dagrepo::random_shape(&mut rng, n, style);
            let change_ids: Vec<_> = (0..n)
                .map(|k| {
                    // several commits per change id
                    if k > 0 && rng.chance(1, 6) { None } else { Some(dagrepo::change_id_for(&mut rng)) }
                })
                .collect();
            let res = jjv::catch(|| {
                let test_repo = TestRepo::init_with_settings(&settings);
                let mut repo = test_repo.repo.clone();
                let mut commits: Vec<Commit> = vec![];
                let root_id = repo.store().root_commit_id().clone();
                let known = |commits: &[Commit]| -> Vec<CommitId> {
                    std::iter::once(root_id.clone()).chain(commits.iter().map(|c| c.id().clone())).collect()
                };
                let mut snaps: Vec<Snap> = vec![];
                let mut level_obs: Vec<String> = vec![];
                let mut merge_obs: Vec<String> = vec![];
                let mut max_levels = 1usize;
                let mut concurrent = false;
                let mut reindexed = false;
                let mut last_cid = dagrepo::change_id_for(&mut rng);
                let mut k = 0usize;
                let mut txno = 0;
                while k < n {
                    txno += 1;
                    let remaining = n - k;
                    let cap = 1 + rng.usize(12);
                    let size = 1 + rng.usize(remaining.min(cap));
                    let write = |mut_repo: &mut jj_lib::repo::MutableRepo,
                                 commits: &mut Vec<Commit>,
                                 last_cid: &mut jj_lib::backend::ChangeId,
                                 k: usize| {
                        let cid = change_ids[k].clone().unwrap_or_else(|| last_cid.clone());
                        *last_cid = cid.clone();
                        let c = dagrepo::write_node(mut_repo, &shape, k, commits, cid, "c18");
                        commits.push(c);
                    };
                    // two concurrent transactions on the same base, when the second half does
                    // not depend on the first half
                    let half = size / 2;
                    let independent = half > 0
                        && (k + half..k + size)
                            .all(|m| shape.parents[m].iter().all(|&p| p < k || p >= k + half));
                    if independent && rng.chance(1, 2) {
                        concurrent = true;
                        let mut tx1 = repo.start_transaction();
                        let mut tx2 = repo.start_transaction();
                        for m in k..k + half {
                            write(tx1.repo_mut(), &mut commits, &mut last_cid, m);
                        }
                        for m in k + half..k + size {
                            write(tx2.repo_mut(), &mut commits, &mut last_cid, m);
                        }
                        let known0 = known(&commits[..k]);
                        let repo1 = tx1.commit("c18 a").block_on().unwrap();
                        // operation heads are merged in the order of their end times (ms)
                        std::thread::sleep(std::time::Duration::from_millis(3));
                        let repo2 = tx2.commit("c18 b").block_on().unwrap();
                        repo = repo.reload_at_head().block_on().unwrap();
                        // the three indexes as (node number, parent positions) by position
                        let node_of: std::collections::HashMap<CommitId, usize> = known(&commits)
                            .iter()
                            .enumerate()
                            .map(|(j, id)| (id.clone(), j))
                            .collect();
                        let flat_of = |r: &Arc<ReadonlyRepo>, ids: &[CommitId]| -> (String, Vec<usize>) {
                            let order = dagrepo::index_order(r, ids);
                            let (g, _) = dagrepo::graph_of(r.as_ref(), &order);
                            let nodes: Vec<usize> = order.iter().map(|id| node_of[id]).collect();
                            let s = g
                                .iter()
                                .zip(&nodes)
                                .map(|(ps, nd)| format!("({nd}%N, {})", dagrepo::coq_nats(ps)))
                                .collect::<Vec<_>>()
                                .join("; ");
                            (format!("[{s}]"), nodes)
                        };
                        let mut ids1 = known0.clone();
                        ids1.extend(commits[k..k + half].iter().map(|c| c.id().clone()));
                        let mut ids2 = known0.clone();
                        ids2.extend(commits[k + half..k + size].iter().map(|c| c.id().clone()));
                        let (own, _) = flat_of(&repo1, &ids1);
                        let (other, _) = flat_of(&repo2, &ids2);
                        let (_, merged) = flat_of(&repo, &known(&commits));
                        merge_obs.push(format!(
                            "({own}, {other}, [{}])",
                            merged.iter().map(|x| format!("{x}%N")).collect::<Vec<_>>().join("; ")
                        ));
                    } else {
                        let before: Vec<usize> = levels(&repo).iter().map(|&x| x as usize).collect();
                        let mut tx = repo.start_transaction();
                        for m in k..k + size {
                            write(tx.repo_mut(), &mut commits, &mut last_cid, m);
                        }
                        if rng.chance(1, 3) {
                            // in-memory (mutable segment on top of the readonly stack); its
                            // position order is read through the public Revset trait
                            let order = dagrepo::index_order_dyn(tx.repo(), &known(&commits));
                            snaps.push(snapshot(tx.repo(), None, order, &mut rng, 4));
                        }
                        repo = tx.commit("c18").block_on().unwrap();
                        let after: Vec<usize> = levels(&repo).iter().map(|&x| x as usize).collect();
                        level_obs.push(format!(
                            "({}, {}, {})",
                            dagrepo::coq_nats(&before),
                            size,
                            dagrepo::coq_nats(&after)
                        ));
                    }
                    k += size;
                    max_levels = max_levels.max(levels(&repo).len());
                    if rng.chance(1, 4) && k < n {
                        let order = dagrepo::index_order(&repo, &known(&commits));
                        snaps.push(snapshot(repo.as_ref(), Some(&repo), order, &mut rng, 4));
                    }
                    let _ = txno;
                }
                // an empty transaction leaves the segment stack alone
                if rng.chance(1, 4) {
                    let before: Vec<usize> = levels(&repo).iter().map(|&x| x as usize).collect();
                    let tx = repo.start_transaction();
                    let r2 = tx.commit("c18 empty").block_on().unwrap();
                    let after: Vec<usize> = levels(&r2).iter().map(|&x| x as usize).collect();
                    level_obs.push(format!(
                        "({}, 0, {})",
                        dagrepo::coq_nats(&before),
                        dagrepo::coq_nats(&after)
                    ));
                }
                // final: as committed, freshly loaded from disk, and (sometimes) fully reindexed
                let order = dagrepo::index_order(&repo, &known(&commits));
                snaps.push(snapshot(repo.as_ref(), Some(&repo), order, &mut rng, 6));
                let fresh = dagrepo::reload(&test_repo, &settings);
                max_levels = max_levels.max(levels(&fresh).len());
                let order = dagrepo::index_order(&fresh, &known(&commits));
                snaps.push(snapshot(fresh.as_ref(), Some(&fresh), order, &mut rng, 6));
                // the segment files of the final index, byte for byte
                let mut files: Vec<String> = vec![];
                {
                    let order = dagrepo::index_order(&fresh, &known(&commits));
                    let (g, _) = dagrepo::graph_of(fresh.as_ref(), &order);
                    let idx: &DefaultReadonlyIndex = fresh.readonly_index().downcast_ref().unwrap();
                    let stats = idx.stats();
                    let seg_dir = test_repo.repo_path().join("index").join("segments");
                    let mut start = 0usize;
                    let mut parent_name = String::new();
                    for level in &stats.commit_levels {
                        let cnt = level.num_commits as usize;
                        let bytes = std::fs::read(seg_dir.join(&level.name)).unwrap();
                        let entries: Vec<String> = (start..start + cnt)
                            .map(|p| {
                                let c = fresh.store().get_commit(&order[p]).unwrap();
                                format!(
                                    "(mk_centry {} {} {}%N [{}])",
                                    coq::bytes(order[p].as_bytes()),
                                    coq::bytes(c.change_id().as_bytes()),
                                    idx.generation_number(&order[p]).unwrap(),
                                    g[p].iter().map(|q| format!("{q}%N")).collect::<Vec<_>>().join("; ")
                                )
                            })
                            .collect();
                        files.push(format!(
                            "(mk_file {} [{}] {})",
                            coq::bytes(parent_name.as_bytes()),
                            entries.join("; "),
                            coq::bytes(&bytes)
                        ));
                        parent_name = level.name.clone();
                        start += cnt;
                    }
                }
                if rng.chance(1, 3) {
                    reindexed = true;
                    let seg = test_repo.repo_path().join("index").join("segments");
                    std::fs::remove_dir_all(&seg).unwrap();
                    let re = dagrepo::reload(&test_repo, &settings);
                    let order = dagrepo::index_order(&re, &known(&commits));
                    snaps.push(snapshot(re.as_ref(), Some(&re), order, &mut rng, 6));
                }
                (snaps, level_obs, merge_obs, files, max_levels, concurrent, reindexed)
            });
            let mut panicked = false;
            let (term, nontrivial, shape_s) = match res {
                Some((snaps, level_obs, merge_obs, files, max_levels, concurrent, reindexed)) => {
                    let n_max = snaps.iter().map(|s| s.n).max().unwrap_or(0);
                    let merges = snaps.iter().map(|s| s.merges).max().unwrap_or(0);
                    let nq: usize = snaps.iter().map(|s| s.queries).sum();
                    let term = format!(
                        "(mk_case [{}] [{}] [{}] [{}] false)%nat",
                        snaps.iter().map(|s| s.term.clone()).collect::<Vec<_>>().join("; "),
                        merge_obs.join("; "),
                        level_obs.join("; "),
                        files.join("; ")
                    );
                    let shape_s = format!(
                        "n{} levels{} {}{}{}",
                        match n_max { 0..=5 => "<=5", 6..=15 => "6-15", 16..=33 => "16-33", _ => ">33" },
                        max_levels.min(4),
                        if merges > 0 { "merges " } else { "" },
                        if concurrent { "concurrent " } else { "" },
                        if reindexed { "reindexed" } else { "" }
                    );
                    (term, n_max >= 5 && nq >= 8, shape_s)
                }
                None => {
                    panicked = true;
                    ("(mk_case [] [] [] [] true)".to_string(), false, "panic".to_string())
                }
            };
            dagrepo::CaseOut { term, nontrivial, shape: shape_s.trim().to_string(), panicked }
        });
        for (i, r) in results {
            if r.panicked {
                ctx.panicked();
            }
            ctx.emit(i, r.term, r.nontrivial, &r.shape);
        }
    });
}
