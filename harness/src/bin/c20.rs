//! C20: shortest unique prefixes and prefix resolution of commit ids and change ids through
//! the public Index / Repo / IdPrefixIndex API, on repos whose index has several segments,
//! hidden commits, divergent changes, change ids with long shared prefixes, an optional
//! disambiguation set, and bookmarks named like id prefixes.
#[path = "../dagrepo.rs"]
mod dagrepo;

use std::collections::HashMap;
use std::collections::HashSet;

use jj_lib::backend::ChangeId;
use jj_lib::backend::CommitId;
use jj_lib::commit::Commit;
use jj_lib::default_index::DefaultReadonlyIndex;
use jj_lib::id_prefix::IdPrefixContext;
use jj_lib::index::ResolvedChangeState;
use jj_lib::object_id::HexPrefix;
use jj_lib::object_id::ObjectId as _;
use jj_lib::object_id::PrefixResolution;
use jj_lib::op_store::RefTarget;
use jj_lib::repo::Repo as _;
use jj_lib::revset::RevsetExpression;
use jjv::Rng;
use pollster::FutureExt as _;
use testutils::TestRepo;

fn dg(hex: &str) -> String {
    format!("(dg \"{hex}\")")
}

fn random_prefix(rng: &mut Rng, pool: &[String]) -> String {
    match rng.below(4) {
        0 => {
            // random digits, short
            let n = 1 + rng.usize(4);
            (0..n).map(|_| format!("{:x}", rng.below(16))).collect()
        }
        1 => {
            // prefix of an existing id with one digit changed at the end
            let s = rng.pick(pool);
            let n = 1 + rng.usize(6.min(s.len()));
            let mut p: String = s[..n].to_string();
            p.pop();
            p.push_str(&format!("{:x}", rng.below(16)));
            p
        }
        _ => {
            // prefix of an existing id (sometimes the full id)
            let s = rng.pick(pool);
            let n = if rng.chance(1, 8) { s.len() } else { 1 + rng.usize(7.min(s.len())) };
            s[..n].to_string()
        }
    }
}

fn main() {
    jjv::run("C20", "C20", |ctx| {
        dagrepo::use_scratch(&ctx.scratch);
        let settings = dagrepo::settings();
        let results = dagrepo::par_cases(&*ctx, |ctx, i| -> dagrepo::CaseOut {
            let mut rng = ctx.rng(i);
            let thorough = ctx.tier == "thorough";
            let n = if i < 2 {
                // fixed corpus cases (conflicted bookmark named like the shortest prefix)
                rng.range(12, 40) as usize
            } else if rng.chance(1, 12) {
                rng.range(0, 3) as usize
            } else {
                rng.range(8, if thorough { 300 } else { 110 }) as usize
            };
            let style = rng.below(3);
            let shape = dagrepo::random_shape(&mut rng, n, style);
            // change ids: clusters with long shared prefixes, some reused (divergent changes)
            let nclusters = 1 + rng.usize(4);
            let bases: Vec<Vec<u8>> = (0..nclusters)
                .map(|_| (0..16).map(|_| rng.below(256) as u8).collect())
                .collect();
            let mut change_ids: Vec<ChangeId> = vec![];
            for k in 0..n {
                let cid = if k > 0 && rng.chance(1, 10) {
                    change_ids[rng.usize(k)].clone() // same change again
                } else if rng.chance(2, 3) {
                    let mut b = rng.pick(&bases).clone();
                    let at = rng.usize(8); // shares 2*at (+1) hex digits with its cluster
                    if rng.chance(1, 2) {
                        b[at] ^= 1 + rng.below(15) as u8; // low nibble differs: odd common length
                    } else {
                        b[at] ^= (1 + rng.below(15) as u8) << 4;
                    }
                    for x in b.iter_mut().skip(at + 1) {
                        *x = rng.below(256) as u8;
                    }
                    ChangeId::new(b)
                } else {
                    dagrepo::change_id_for(&mut rng)
                };
                change_ids.push(cid);
            }
            let res = jjv::catch(|| {
                let test_repo = TestRepo::init_with_settings(&settings);
                let mut repo = test_repo.repo.clone();
                let mut commits: Vec<Commit> = vec![];
                let mut extra: Vec<Commit> = vec![]; // rewritten (new) commits
                let mut k = 0;
                while k < n {
                    let cap = 1 + rng.usize(40);
                    let size = 1 + rng.usize((n - k).min(cap));
                    let mut tx = repo.start_transaction();
                    for m in k..k + size {
                        let c = dagrepo::write_node(
                            tx.repo_mut(),
                            &shape,
                            m,
                            &commits,
                            change_ids[m].clone(),
                            "c20",
                        );
                        commits.push(c);
                    }
                    // hide a few childless commits by rewriting them (same change id, new commit)
                    if rng.chance(1, 2) {
                        for _ in 0..1 + rng.usize(3) {
                            let m = k + rng.usize(size);
                            let has_child = (0..commits.len()).any(|j| shape.parents[j].contains(&m));
                            if !has_child && !extra.iter().any(|e| e.change_id() == commits[m].change_id()) {
                                let c = tx
                                    .repo_mut()
                                    .rewrite_commit(&commits[m])
                                    .set_description(format!("rewritten {m}"))
                                    .write()
                                    .block_on()
                                    .unwrap();
                                extra.push(c);
                            }
                        }
                        tx.repo_mut().rebase_descendants().block_on().unwrap();
                    }
                    repo = tx.commit("c20").block_on().unwrap();
                    k += size;
                }
                let known: Vec<CommitId> = std::iter::once(repo.store().root_commit_id().clone())
                    .chain(commits.iter().map(|c| c.id().clone()))
                    .chain(extra.iter().map(|c| c.id().clone()))
                    .collect();
                let order = dagrepo::index_order(&repo, &known);
                let pos: HashMap<CommitId, usize> =
                    order.iter().enumerate().map(|(p, id)| (id.clone(), p)).collect();
                let total = order.len();
                let store = repo.store().clone();
                let commit_at = |p: usize| store.get_commit(&order[p]).unwrap();
                let commit_hex: Vec<String> = order.iter().map(|id| id.hex()).collect();
                let change_hex: Vec<String> =
                    (0..total).map(|p| commit_at(p).change_id().hex()).collect();
                // disambiguation set (chosen first: the displayed lengths depend on it)
                let dis: Option<Vec<usize>> = if total > 2 && rng.chance(2, 3) {
                    let d = *rng.pick(&[10u64, 30, 60]);
                    Some((0..total).filter(|_| rng.below(100) < d).collect())
                } else {
                    None
                };
                let make_context = || match &dis {
                    Some(d) => IdPrefixContext::default().disambiguate_within(
                        RevsetExpression::commits(d.iter().map(|&p| order[p].clone()).collect()),
                    ),
                    None => IdPrefixContext::default(),
                };
                // local bookmarks and tags named like id prefixes (hex for commit ids, reverse
                // hex for change ids): exactly the displayed length, one shorter, one longer; in
                // the states normal / conflicted / conflicted with an absent side / deleted
                const REVERSE_HEX: &[u8; 16] = b"zyxwvutsrqponmlk";
                let to_reverse = |hex: &str| -> String {
                    hex.bytes()
                        .map(|b| REVERSE_HEX[(b as char).to_digit(16).unwrap() as usize] as char)
                        .collect()
                };
                // (is_tag, name as written) -> state; 3 = deleted
                let mut ref_state: HashMap<(bool, String), u8> = HashMap::new();
                let mut ref_hex: HashMap<String, (bool, String)> = HashMap::new(); // name -> (is change style, hex)
                let mut conflicted_refs = false;
                if total > 3 && (i < 2 || rng.chance(3, 5)) {
                    let context0 = make_context();
                    let pindex0 = context0.populate(repo.as_ref()).unwrap();
                    let mut plans: Vec<(bool, String, u8)> = vec![];
                    let nrefs = if i < 2 { 1 } else { 2 + rng.usize(5) };
                    for r in 0..nrefs {
                        let p = rng.usize(total);
                        let change_style = if i < 2 { i == 1 } else { rng.chance(1, 2) };
                        let (hex, l) = if change_style {
                            let c = commit_at(p);
                            let l = pindex0
                                .shortest_change_prefix_len(repo.as_ref(), c.change_id())
                                .block_on()
                                .unwrap();
                            (change_hex[p].clone(), l)
                        } else {
                            let l = pindex0
                                .shortest_commit_prefix_len_exact(repo.as_ref(), &order[p])
                                .unwrap();
                            (commit_hex[p].clone(), l)
                        };
                        let delta: i64 = if i < 2 { 0 } else { rng.below(3) as i64 - 1 };
                        let len = ((l as i64 + delta).max(1) as usize).min(hex.len());
                        let hexp = hex[..len].to_string();
                        let name = if change_style { to_reverse(&hexp) } else { hexp.clone() };
                        let state = if i < 2 { 1 } else { rng.below(4) as u8 };
                        let is_tag = if i < 2 { false } else { rng.chance(1, 2) };
                        ref_hex.insert(name.clone(), (change_style, hexp));
                        plans.push((is_tag, name, state));
                        let _ = r;
                    }
                    let mut tx = repo.start_transaction();
                    for (is_tag, name, state) in &plans {
                        let a = order[rng.usize(total)].clone();
                        let mut b = order[rng.usize(total)].clone();
                        let mut base = order[rng.usize(total)].clone();
                        // three distinct commits make a genuine conflict
                        let mut guard = 0;
                        while (b == a || base == a || base == b) && guard < 50 {
                            b = order[rng.usize(total)].clone();
                            base = order[rng.usize(total)].clone();
                            guard += 1;
                        }
                        let target = match state {
                            1 => RefTarget::from_merge(jj_lib::merge::Merge::from_removes_adds(
                                vec![Some(base)],
                                vec![Some(a), Some(b)],
                            )),
                            2 => RefTarget::from_merge(jj_lib::merge::Merge::from_removes_adds(
                                vec![Some(base)],
                                vec![Some(a), None],
                            )),
                            _ => RefTarget::normal(a),
                        };
                        if *state == 1 || *state == 2 {
                            conflicted_refs = true;
                        }
                        if *is_tag {
                            tx.repo_mut().set_local_tag_target(name.as_str().as_ref(), target);
                        } else {
                            tx.repo_mut().set_local_bookmark_target(name.as_str().as_ref(), target);
                        }
                        ref_state.insert((*is_tag, name.clone()), *state);
                    }
                    repo = tx.commit("c20 refs").block_on().unwrap();
                    // deleted refs: set in one operation, removed in the next
                    if plans.iter().any(|(_, _, st)| *st == 3) {
                        let mut tx = repo.start_transaction();
                        for (is_tag, name, _) in plans.iter().filter(|(t, n, _)| ref_state[&(*t, n.clone())] == 3) {
                            if *is_tag {
                                tx.repo_mut().set_local_tag_target(name.as_str().as_ref(), RefTarget::absent());
                            } else {
                                tx.repo_mut().set_local_bookmark_target(name.as_str().as_ref(), RefTarget::absent());
                            }
                        }
                        repo = tx.commit("c20 refs deleted").block_on().unwrap();
                    }
                }
                // what the view says now: a name shadows iff its bookmark or tag is not absent
                let mut commit_names: Vec<String> = vec![];
                let mut change_names: Vec<String> = vec![];
                for (name, (change_style, hexp)) in &ref_hex {
                    let present = !repo.view().get_local_bookmark(name.as_str().as_ref()).is_absent()
                        || !repo.view().get_local_tag(name.as_str().as_ref()).is_absent();
                    let expect = [false, true].iter().any(|t| {
                        ref_state.get(&(*t, name.clone())).is_some_and(|st| *st != 3)
                    });
                    assert_eq!(present, expect, "view does not hold the refs as set");
                    if present {
                        if *change_style { change_names.push(hexp.clone()) } else { commit_names.push(hexp.clone()) }
                    }
                }
                commit_names.sort();
                change_names.sort();
                let names_present = !commit_names.is_empty() || !change_names.is_empty();
                // segments (oldest level first in stats), visible set
                let ro: &DefaultReadonlyIndex = repo.readonly_index().downcast_ref().unwrap();
                assert_eq!(ro.num_commits() as usize, total, "index holds unknown commits");
                let levels: Vec<usize> =
                    ro.stats().commit_levels.iter().map(|l| l.num_commits as usize).collect();
                let mut visible: HashSet<usize> = HashSet::new();
                let mut work: Vec<CommitId> = repo.view().heads().iter().cloned().collect();
                while let Some(id) = work.pop() {
                    if visible.insert(pos[&id]) {
                        work.extend(store.get_commit(&id).unwrap().parent_ids().iter().cloned());
                    }
                }
                let mut vis: Vec<usize> = visible.iter().copied().collect();
                vis.sort_unstable();
                let mut segs: Vec<String> = vec![];
                let mut start = 0;
                for &cnt in &levels {
                    let entries: Vec<String> = (start..start + cnt)
                        .map(|p| format!("({}, {})", dg(&commit_hex[p]), dg(&change_hex[p])))
                        .collect();
                    segs.push(format!("({start}, [{}])", entries.join("; ")));
                    start += cnt;
                }
                segs.reverse(); // newest first
                let context = make_context();
                let pindex = context.populate(repo.as_ref()).unwrap();
                let index = repo.index();
                let mut qs: Vec<String> = vec![];
                let res_commit = |r: PrefixResolution<CommitId>| -> String {
                    match r {
                        PrefixResolution::NoMatch => "RNo".into(),
                        PrefixResolution::AmbiguousMatch => "RAmb".into(),
                        PrefixResolution::SingleMatch(id) => format!("(ROne {} [])", dg(&id.hex())),
                    }
                };
                let q_res_commit = |qs: &mut Vec<String>, p: &str| {
                    if p.is_empty() { return; }
                    let hp = HexPrefix::try_from_hex(p).unwrap();
                    let r = index.resolve_commit_id_prefix(&hp).block_on().unwrap();
                    qs.push(format!("QResCommit {} {}", dg(p), res_commit(r)));
                    let r2 = pindex.resolve_commit_prefix(repo.as_ref(), &hp).unwrap();
                    qs.push(format!("QResCommit2 {} {}", dg(p), res_commit(r2)));
                };
                let q_res_change = |qs: &mut Vec<String>, p: &str| {
                    if p.is_empty() { return; }
                    let hp = HexPrefix::try_from_hex(p).unwrap();
                    let r = repo.resolve_change_id_prefix(&hp).block_on().unwrap();
                    let s = match r {
                        PrefixResolution::NoMatch => "RNo []".to_string(),
                        PrefixResolution::AmbiguousMatch => "RAmb []".to_string(),
                        PrefixResolution::SingleMatch(t) => {
                            let ps: Vec<usize> = t.targets.iter().map(|(id, _)| pos[id]).collect();
                            let change = &change_hex[ps[0]];
                            let vs: Vec<String> = t
                                .targets
                                .iter()
                                .map(|(_, st)| jjv::coq::b(*st == ResolvedChangeState::Visible))
                                .collect();
                            format!("(ROne {} {}) [{}]", dg(change), dagrepo::coq_nats(&ps), vs.join("; "))
                        }
                    };
                    qs.push(format!("QResChange {} {}", dg(p), s));
                    let r2 = pindex.resolve_change_prefix(repo.as_ref(), &hp).block_on().unwrap();
                    let s2 = match r2 {
                        PrefixResolution::NoMatch => "RNo".to_string(),
                        PrefixResolution::AmbiguousMatch => "RAmb".to_string(),
                        PrefixResolution::SingleMatch(t) => {
                            let ps: Vec<usize> = t.targets.iter().map(|(id, _)| pos[id]).collect();
                            format!("(ROne {} {})", dg(&change_hex[ps[0]]), dagrepo::coq_nats(&ps))
                        }
                    };
                    qs.push(format!("QResChange2 {} {}", dg(p), s2));
                };
                let nq = if total <= 3 { total } else { 10 };
                for _ in 0..nq {
                    let p = rng.usize(total);
                    let l = index.shortest_unique_commit_id_prefix_len(&order[p]).block_on().unwrap();
                    qs.push(format!("QShortCommit {} {l}", dg(&commit_hex[p])));
                    q_res_commit(&mut qs, &commit_hex[p][..l.min(commit_hex[p].len())]);
                    if l >= 1 {
                        q_res_commit(&mut qs, &commit_hex[p][..l - 1]);
                    }
                    let l2 = pindex.shortest_commit_prefix_len_exact(repo.as_ref(), &order[p]).unwrap();
                    qs.push(format!("QShortCommit2 {} {l2}", dg(&commit_hex[p])));
                    q_res_commit(&mut qs, &commit_hex[p][..l2.min(commit_hex[p].len())]);
                    if l2 >= 1 {
                        q_res_commit(&mut qs, &commit_hex[p][..l2 - 1]);
                    }
                    q_res_commit(&mut qs, &random_prefix(&mut rng, &commit_hex));
                    // change ids
                    let c = commit_at(p);
                    let lc = repo.shortest_unique_change_id_prefix_len(c.change_id()).block_on().unwrap();
                    qs.push(format!("QShortChange {} {lc}", dg(&change_hex[p])));
                    let lc2 = pindex
                        .shortest_change_prefix_len(repo.as_ref(), c.change_id())
                        .block_on()
                        .unwrap();
                    q_res_change(&mut qs, &change_hex[p][..lc2.min(change_hex[p].len())]);
                    if lc2 >= 1 {
                        q_res_change(&mut qs, &change_hex[p][..lc2 - 1]);
                    }
                    q_res_change(&mut qs, &change_hex[p][..lc.min(change_hex[p].len())]);
                    if lc >= 1 {
                        q_res_change(&mut qs, &change_hex[p][..lc - 1]);
                    }
                    q_res_change(&mut qs, &random_prefix(&mut rng, &change_hex));
                }
                // the displayed (ref-aware) length of every commit id and every change id
                let mut seen_changes: HashSet<String> = HashSet::new();
                for p in 0..total {
                    let l2 = pindex.shortest_commit_prefix_len_exact(repo.as_ref(), &order[p]).unwrap();
                    let l3 = pindex.shortest_commit_prefix_len(repo.as_ref(), &order[p]).unwrap();
                    qs.push(format!("QRefsLen {} {l2} {l3}", dg(&commit_hex[p])));
                    if seen_changes.insert(change_hex[p].clone()) {
                        let c = commit_at(p);
                        let lc3 = pindex
                            .shortest_change_prefix_len(repo.as_ref(), c.change_id())
                            .block_on()
                            .unwrap();
                        qs.push(format!("QRefsLenChange {} {lc3}", dg(&change_hex[p])));
                    }
                }
                let term = format!(
                    "(mk_case [{}] {} {} {} [{}] [{}] [{}] false)%nat",
                    segs.join("; "),
                    format!(
                        "{} {}",
                        dagrepo::coq_graph(&dagrepo::graph_of(repo.as_ref(), &order).0),
                        dagrepo::coq_nats(&{
                            let mut hs: Vec<usize> = repo.view().heads().iter().map(|id| pos[id]).collect();
                            hs.sort_unstable();
                            hs
                        })
                    ),
                    match &dis {
                        Some(d) => format!(
                            "(Some [{}])",
                            d.iter().map(|&p| dg(&commit_hex[p])).collect::<Vec<_>>().join("; ")
                        ),
                        None => "None".to_string(),
                    },
                    match &dis {
                        Some(d) => format!(
                            "(Some [{}])",
                            d.iter().map(|&p| dg(&change_hex[p])).collect::<Vec<_>>().join("; ")
                        ),
                        None => "None".to_string(),
                    },
                    commit_names.iter().map(|s| dg(s)).collect::<Vec<_>>().join("; "),
                    change_names.iter().map(|s| dg(s)).collect::<Vec<_>>().join("; "),
                    qs.iter().map(|q| format!("({q})")).collect::<Vec<_>>().join("; ")
                );
                let hidden = total - vis.len();
                (term, total, levels.len(), hidden, dis.is_some(), names_present, conflicted_refs, qs.len())
            });
            match res {
                Some((term, total, nlevels, hidden, dis, names, conflicted, nq)) => {
                    let shape_s = format!(
                        "n{} segs{} {}{}{}",
                        match total { 0..=4 => "<=4", 5..=40 => "5-40", 41..=120 => "41-120", _ => ">120" },
                        nlevels.min(4),
                        if hidden > 0 { "hidden " } else { "" },
                        if dis { "disambig " } else { "" },
                        if conflicted { "refs+conflicted" } else if names { "refs" } else { "" }
                    );
                    dagrepo::CaseOut {
                        term,
                        nontrivial: total >= 8 && nq >= 20,
                        shape: shape_s.trim().to_string(),
                        panicked: false,
                    }
                }
                None => dagrepo::CaseOut {
                    term: "(mk_case [] [] [] None None [] [] [] true)".to_string(),
                    nontrivial: false,
                    shape: "panic".to_string(),
                    panicked: true,
                },
            }
        });
        for (i, r) in results {
            if r.panicked {
                ctx.panicked();
            }
            ctx.emit(i, r.term, r.nontrivial, &r.shape);
        }
    });
}
