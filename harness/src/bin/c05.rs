//! C05: materialize_merge_result_to_bytes / choose_materialized_conflict_marker_len /
//! parse_conflict on generated file merges (all marker styles, EOL kinds, marker
//! look-alikes), plus a parse probe on edited or synthetic marker text.
use bstr::BString;
use jj_lib::conflict_labels::ConflictLabels;
use jj_lib::conflicts::ConflictMarkerStyle;
use jj_lib::conflicts::ConflictMaterializeOptions;
use jj_lib::conflicts::choose_materialized_conflict_marker_len;
use jj_lib::conflicts::materialize_merge_result_to_bytes;
use jj_lib::conflicts::parse_conflict;
use jj_lib::diff::ContentDiff;
use jj_lib::diff::DiffHunkKind;
use jj_lib::files;
use jj_lib::files::FileMergeHunkLevel;
use jj_lib::files::MergeResult;
use jj_lib::merge::Merge;
use jj_lib::merge::SameChange;
use jj_lib::tree_merge::MergeOptions;
use jjv::Rng;
use jjv::coq;

const MARKERS: &[u8] = b"<>+-%\\|=";

/// One line without its terminator.
fn gen_line(rng: &mut Rng, pools: &mut Vec<&'static str>) -> Vec<u8> {
    match rng.below(12) {
        0..=5 => rng.pick(&[&b"a"[..], b"b", b"c", b"d", b"e"]).to_vec(),
        6 => vec![],
        7 | 8 => {
            // marker look-alike of length 1..20, with and without trailing text
            pools.push("pool:marker-like-line");
            let ch = *rng.pick(MARKERS);
            let k = *rng.pick(&[1usize, 2, 3, 5, 6, 7, 7, 8, 9, 10, 11, 12, 15, 19, 20]);
            let mut l = vec![ch; k];
            let sfx: &[u8] = *rng.pick(&[
                &b""[..], b"", b" x", b"x", b"\t", b" ", b"\x0c", b"\x0b", b" conflict 1 of 1",
                b"\r",
            ]);
            l.extend_from_slice(sfx);
            l
        }
        9 => {
            // a prefix byte in front of a marker run (diff-style prefixes)
            let p = *rng.pick(b" +-");
            let ch = *rng.pick(MARKERS);
            let k = *rng.pick(&[1usize, 5, 6, 7, 9, 10]);
            let mut l = vec![p];
            l.extend(std::iter::repeat_n(ch, k));
            if rng.chance(1, 2) {
                l.extend_from_slice(b" y");
            }
            l
        }
        10 => {
            pools.push("pool:cr-bytes");
            rng.pick(&[&b"\r"[..], b"a\rb", b"x\r", b"\r\r", b"\ra"]).to_vec()
        }
        _ => rng.pick(&[&b"foo bar"[..], b"a b", b"x y z", b"+a", b"-b", b" c"]).to_vec(),
    }
}

fn render(lines: &[Vec<u8>], eol_mode: u64, final_eol: bool, rng: &mut Rng) -> Vec<u8> {
    let mut out = vec![];
    for (i, l) in lines.iter().enumerate() {
        out.extend_from_slice(l);
        if i + 1 < lines.len() || final_eol {
            let crlf = match eol_mode {
                0 => false,
                1 => true,
                _ => rng.chance(1, 2),
            };
            if crlf {
                out.push(b'\r');
            }
            out.push(b'\n');
        }
    }
    out
}

fn edit(base: &[Vec<u8>], rng: &mut Rng, pools: &mut Vec<&'static str>) -> Vec<Vec<u8>> {
    let mut l = base.to_vec();
    let n = rng.geometric(3);
    for _ in 0..n {
        match rng.below(3) {
            0 if !l.is_empty() => {
                let i = rng.usize(l.len());
                l[i] = gen_line(rng, pools);
            }
            1 if !l.is_empty() => {
                let i = rng.usize(l.len());
                l.remove(i);
            }
            _ => {
                let i = rng.usize(l.len() + 1);
                l.insert(i, gen_line(rng, pools));
            }
        }
    }
    l
}

/// The scenario in which a word-level merge synthesizes marker lines no input contains.
fn word_synth(rng: &mut Rng) -> Vec<Vec<u8>> {
    let kinds: &[&[u8]] = if rng.chance(1, 2) {
        &[b"<<<<<<<", b"|||||||", b"=======", b">>>>>>>"]
    } else {
        &[b"<<<<<<<", b"+++++++", b"-------", b"+++++++", b">>>>>>>"]
    };
    let mut base = vec![];
    let mut s1 = vec![];
    let mut s2 = vec![];
    for (i, k) in kinds.iter().enumerate() {
        let mut b = b"a".to_vec();
        b.extend_from_slice(k);
        b.extend_from_slice(b"b\n");
        base.extend_from_slice(&b);
        s1.extend_from_slice(&b[1..]);
        s2.extend_from_slice(&b[..b.len() - 2]);
        s2.push(b'\n');
        let filler = format!("x{i}\n");
        for f in [&mut base, &mut s1, &mut s2] {
            f.extend_from_slice(filler.as_bytes());
        }
    }
    for (f, t) in [(&mut base, "o\n"), (&mut s1, "p\n"), (&mut s2, "q\n")] {
        f.extend_from_slice(b"sep\n");
        f.extend_from_slice(t.as_bytes());
    }
    vec![s1, base, s2]
}

/// Files made of alternating segments: common lines (identical in every term, hence resolved
/// hunks) and conflicting lines (different per term), so that the merge has several
/// conflict hunks with resolved text before, between and after them.
fn gen_structured(rng: &mut Rng, pools: &mut Vec<&'static str>) -> Vec<Vec<u8>> {
    let sides = 2 + rng.geometric(2) as usize;
    let nterms = 2 * sides - 1;
    let nseg = 1 + rng.usize(5);
    let start_common = rng.chance(1, 2);
    let eol_mode = rng.below(4).min(2);
    let mut lines: Vec<Vec<Vec<u8>>> = vec![vec![]; nterms];
    for s in 0..nseg {
        let common = (s % 2 == 0) == start_common;
        if common {
            let n = 1 + rng.usize(2);
            let seg: Vec<Vec<u8>> = (0..n)
                .map(|k| {
                    if rng.chance(1, 4) {
                        gen_line(rng, pools)
                    } else {
                        format!("k{s}{k}").into_bytes()
                    }
                })
                .collect();
            for t in lines.iter_mut() {
                t.extend(seg.iter().cloned());
            }
        } else {
            for (k, t) in lines.iter_mut().enumerate() {
                let n = rng.usize(3);
                for _ in 0..n {
                    let mut l = gen_line(rng, pools);
                    if rng.chance(1, 2) {
                        l.extend_from_slice(format!("{}", k % 3).as_bytes());
                    }
                    t.push(l);
                }
            }
        }
    }
    lines
        .iter()
        .map(|l| {
            let final_eol = !rng.chance(1, 5);
            let mode = if rng.chance(1, 8) { rng.below(3) } else { eol_mode };
            render(l, mode, final_eol, rng)
        })
        .collect()
}

fn detect_crlf(files: &[Vec<u8>]) -> bool {
    let mut flags = vec![];
    for f in files {
        if let Some(i) = f.iter().position(|b| *b == b'\n') {
            flags.push(i > 0 && f[i - 1] == b'\r');
        }
    }
    !flags.is_empty() && flags.iter().all(|x| *x)
}

fn hunk_term(h: &Merge<BString>) -> String {
    coq::list(h.iter(), |t| coq::bytes(t))
}

fn hunks_term(hs: &[Merge<BString>]) -> String {
    coq::list(hs.iter(), hunk_term)
}

fn diff_term(l: &[u8], r: &[u8]) -> String {
    let d = ContentDiff::by_line([l, r]);
    let hs: Vec<String> = d
        .hunks()
        .map(|h| {
            coq::app(
                "Conflicts.mk_dhunk",
                &[
                    coq::b(h.kind == DiffHunkKind::Matching),
                    coq::bytes(h.contents[0]),
                    coq::bytes(h.contents[1]),
                ],
            )
        })
        .collect();
    format!("({}, {}, [{}])", coq::bytes(l), coq::bytes(r), hs.join("; "))
}

fn mutate(out: &[u8], rng: &mut Rng, len: usize) -> Vec<u8> {
    let mut lines: Vec<Vec<u8>> = out.split_inclusive(|b| *b == b'\n').map(|l| l.to_vec()).collect();
    let n = 1 + rng.geometric(2);
    for _ in 0..n {
        if lines.is_empty() {
            break;
        }
        let i = rng.usize(lines.len());
        match rng.below(9) {
            0 => {
                lines.remove(i);
            }
            1 => {
                let l = lines[i].clone();
                lines.insert(i, l);
            }
            2 => {
                // turn a line into a marker line of a length around `len`
                let ch = *rng.pick(MARKERS);
                let k = (len + rng.usize(3)).saturating_sub(1);
                let mut l = vec![ch; k];
                l.extend_from_slice(*rng.pick(&[&b"\n"[..], b" t\n", b"\r\n", b"z\n", b""]));
                lines.insert(i, l);
            }
            3 => {
                if lines[i].len() > 1 {
                    lines[i].remove(0);
                }
            }
            4 => {
                // editors stripping trailing whitespace: " \n" -> "\n"
                if lines[i].first() == Some(&b' ') {
                    lines[i].remove(0);
                }
            }
            5 => {
                let j = rng.usize(lines.len());
                lines.swap(i, j);
            }
            6 => {
                if lines[i].ends_with(b"\n") && !lines[i].ends_with(b"\r\n") {
                    let at = lines[i].len() - 1;
                    lines[i].insert(at, b'\r');
                }
            }
            7 => {
                if lines[i].ends_with(b"\n") {
                    lines[i].pop();
                }
            }
            _ => {
                lines[i].insert(0, *rng.pick(b" +-x"));
            }
        }
    }
    lines.concat()
}

fn synthetic(rng: &mut Rng, len: usize) -> Vec<u8> {
    let mut out = vec![];
    let n = 2 + rng.usize(10);
    for _ in 0..n {
        if rng.chance(3, 5) {
            let ch = *rng.pick(MARKERS);
            let k = (len + rng.usize(3)).saturating_sub(1);
            out.extend(std::iter::repeat_n(ch, k));
            out.extend_from_slice(*rng.pick(&[&b"\n"[..], b" l\n", b"\r\n", b"\n", b"q\n"]));
        } else {
            out.extend_from_slice(*rng.pick(&[
                &b"a\n"[..], b"b\n", b" a\n", b"-a\n", b"+b\n", b"\n", b"\r\n", b"c",
            ]));
        }
    }
    out
}

fn main() {
    jjv::run("C05", "C05", |ctx| {
        for i in ctx.indices() {
            let mut rng = ctx.rng(i);
            let mut pools: Vec<&'static str> = vec![];
            let word = rng.chance(3, 10);
            let same_change = if rng.chance(1, 2) { SameChange::Accept } else { SameChange::Keep };
            // ---- the merge
            let files: Vec<Vec<u8>> = if word && rng.chance(1, 12) {
                pools.push("pool:word-synthesized-markers");
                word_synth(&mut rng)
            } else if ctx.rng(i + 2_000_000).chance(1, 3) {
                pools.push("pool:structured-segments");
                gen_structured(&mut ctx.rng(i + 3_000_000), &mut pools)
            } else {
                let sides = 2 + rng.geometric(2) as usize; // 2..4
                let nterms = 2 * sides - 1;
                let nbase = rng.usize(6);
                let base: Vec<Vec<u8>> = (0..nbase).map(|_| gen_line(&mut rng, &mut pools)).collect();
                let eol_mode = rng.below(4).min(2); // 0 LF (x2 weight via min), 1 CRLF, 2 mixed
                let mut fs: Vec<Vec<u8>> = vec![];
                for t in 0..nterms {
                    let f = if t > 0 && rng.chance(1, 8) {
                        fs[rng.usize(t)].clone()
                    } else if rng.chance(1, 10) {
                        pools.push("pool:empty-side");
                        vec![]
                    } else {
                        let l = edit(&base, &mut rng, &mut pools);
                        let final_eol = !rng.chance(1, 4);
                        if !final_eol {
                            pools.push("pool:no-final-newline");
                        }
                        let mode = if rng.chance(1, 6) { rng.below(3) } else { eol_mode };
                        render(&l, mode, final_eol, &mut rng)
                    };
                    fs.push(f);
                }
                fs
            };
            let sides = files.len() / 2 + 1;
            let single_hunk: Merge<Vec<u8>> = Merge::from_vec(files.clone());
            let merge_opts = MergeOptions {
                hunk_level: if word { FileMergeHunkLevel::Word } else { FileMergeHunkLevel::Line },
                same_change,
            };
            let style_n = rng.below(4);
            let style = match style_n {
                0 => ConflictMarkerStyle::Diff,
                1 => ConflictMarkerStyle::DiffExperimental,
                2 => ConflictMarkerStyle::Snapshot,
                _ => ConflictMarkerStyle::Git,
            };
            let labels: Vec<String> = if rng.chance(2, 5) {
                vec![]
            } else {
                let n = if rng.chance(1, 6) { rng.usize(9) } else { files.len() };
                (0..n)
                    .map(|_| {
                        rng.pick(&["", "", "left", "rebase destination", "a b  c", " x", "y ", "é", "<<<<<<< z", "l\tm"])
                            .to_string()
                    })
                    .collect()
            };
            // Outside the property's quantifier (jj strips control characters from the labels it
            // generates): a label ending in CR. Only with an explicit marker length, so that the
            // round trip is not required; the model must still agree byte for byte.
            // (separate generator state, so that the main stream of the case is unchanged)
            let cr_label = ctx.rng(i + 1_000_000).chance(1, 30);
            let labels: Vec<String> = if cr_label {
                pools.push("pool:label-ending-in-cr(outside-quantifier)");
                (0..files.len()).map(|_| "lab\r".to_string()).collect()
            } else {
                labels
            };
            let conflict_labels = ConflictLabels::from_vec(if labels.len() % 2 == 0 { vec![] } else { labels.clone() });
            // what the ConflictLabels value holds (a resolved or all-empty label merge is "unlabeled")
            let labels_eff: Vec<String> = conflict_labels.as_slice().to_vec();
            let chosen = choose_materialized_conflict_marker_len(&single_hunk);
            let (len_opt, len_mode) = match rng.below(10) {
                0..=5 if !cr_label => (None, "len:chosen"),
                0..=5 => (Some(chosen), "len:explicit>=chosen"),
                6 | 7 => (Some(chosen + rng.usize(4)), "len:explicit>=chosen"),
                _ => (Some(1 + rng.usize(12)), "len:explicit-arbitrary"),
            };
            let len = len_opt.unwrap_or(chosen);
            let options = ConflictMaterializeOptions {
                marker_style: style,
                marker_len: len_opt,
                merge: merge_opts.clone(),
            };
            let real = jjv::catch(|| {
                let merged = files::merge_hunks(&single_hunk, &merge_opts);
                let out = materialize_merge_result_to_bytes(&single_hunk, &conflict_labels, &options);
                let parsed = parse_conflict(&out, sides, len);
                (merged, out, parsed)
            });
            let panicked = real.is_none();
            if panicked {
                ctx.panicked();
            }
            let (merged, out, parsed) = real.unwrap_or((MergeResult::Resolved(BString::default()), BString::default(), None));
            // ---- recorded line diffs for the diff styles
            let mut diffs: Vec<String> = vec![];
            if let MergeResult::Conflict(hunks) = &merged
                && matches!(style, ConflictMarkerStyle::Diff | ConflictMarkerStyle::DiffExperimental)
            {
                let eol: &[u8] = if detect_crlf(&files) { b"\r\n" } else { b"\n" };
                let mut seen = std::collections::HashSet::new();
                for h in hunks.iter().filter(|h| !h.is_resolved()) {
                    let all_eol = h.iter().all(|c| c.last().is_none_or(|b| *b == b'\n'));
                    let terms: Vec<Vec<u8>> = h
                        .iter()
                        .map(|c| {
                            let mut v = c.to_vec();
                            if !all_eol {
                                v.extend_from_slice(eol);
                            }
                            v
                        })
                        .collect();
                    let nrem = terms.len() / 2;
                    for r in 0..nrem {
                        let left = &terms[2 * r + 1];
                        let mut js = vec![r + 1];
                        if style == ConflictMarkerStyle::Diff {
                            js.push(r);
                        }
                        for j in js {
                            let right = &terms[2 * j];
                            if seen.insert((left.clone(), right.clone())) {
                                diffs.push(diff_term(left, right));
                            }
                        }
                    }
                }
            }
            // ---- parse probe
            let (probe, probe_sides, probe_len) = {
                let p = if rng.chance(1, 4) { synthetic(&mut rng, len) } else { mutate(&out, &mut rng, len) };
                let s = match rng.below(6) {
                    0 => sides + 1,
                    1 => sides.saturating_sub(1).max(1),
                    2 => 2,
                    _ => sides,
                };
                let l = match rng.below(6) {
                    0 => len + 1,
                    1 => len.saturating_sub(1),
                    2 => 7,
                    _ => len,
                };
                (p, s, l)
            };
            let probe_parsed = jjv::catch(|| parse_conflict(&probe, probe_sides, probe_len));
            let probe_panicked = probe_parsed.is_none();
            if probe_panicked {
                ctx.panicked();
            }
            let probe_parsed = probe_parsed.flatten();

            let merged_term = match &merged {
                MergeResult::Resolved(c) => format!("(inl {})", coq::bytes(c)),
                MergeResult::Conflict(hs) => format!("(inr {})", hunks_term(hs)),
            };
            let term = coq::app(
                "C05.mk_case",
                &[
                    coq::list(files.iter(), |f| coq::bytes(f)),
                    coq::b(word),
                    merged_term,
                    coq::n(style_n),
                    coq::opt(len_opt, |l| coq::n(l as u64)),
                    coq::list(labels_eff.iter(), |l| coq::bytes(l.as_bytes())),
                    format!("[{}]", diffs.join("; ")),
                    coq::bytes(&out),
                    coq::n(chosen as u64),
                    coq::opt(parsed.as_ref(), |hs| hunks_term(hs)),
                    coq::bytes(&probe),
                    coq::n(probe_sides as u64),
                    coq::n(probe_len as u64),
                    coq::opt(probe_parsed.as_ref(), |hs| hunks_term(hs)),
                    coq::b(panicked || probe_panicked),
                ],
            );
            let is_conflict = matches!(merged, MergeResult::Conflict(_));
            if let MergeResult::Conflict(hs) = &merged {
                let nconf = hs.iter().filter(|h| !h.is_resolved()).count();
                if nconf >= 2 {
                    ctx.count("pool:two-or-more-conflict-hunks");
                }
                if hs.iter().any(|h| h.is_resolved()) {
                    ctx.count("pool:has-resolved-hunk");
                }
                if cr_label && parsed.as_ref() != Some(hs) {
                    ctx.count("observation:label-ending-in-cr-breaks-roundtrip");
                }
            }
            let shape = format!(
                "style={} {}",
                ["diff", "diff-experimental", "snapshot", "git"][style_n as usize],
                if is_conflict { "conflict" } else { "resolved" }
            );
            ctx.count(len_mode);
            ctx.count(&format!("sides:{sides}"));
            ctx.count(if word { "level:word" } else { "level:line" });
            if !labels_eff.is_empty() {
                ctx.count("pool:labelled");
            }
            if detect_crlf(&files) {
                ctx.count("pool:crlf-eol-detected");
            }
            if probe_parsed.is_some() {
                ctx.count("pool:probe-parses");
            }
            pools.sort();
            pools.dedup();
            for p in pools {
                ctx.count(p);
            }
            ctx.emit(i, term, is_conflict, &shape);
        }
    });
}
