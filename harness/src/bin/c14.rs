//! C14: real publishers / reconcilers (Transaction::write + publish, RepoLoader::load_at_head)
//! on ONE repo directory, driven step by step along model schedules through the
//! `jj_lib::verif::point` hooks (op_heads.read/add/remove, lock.acquire/release).
use std::collections::HashMap;
use std::path::Path;
use std::path::PathBuf;
use std::sync::Arc;
use std::sync::Mutex;
use std::sync::atomic::AtomicUsize;
use std::sync::atomic::Ordering;
use std::time::Duration;

use jj_lib::object_id::ObjectId as _;
use jj_lib::op_store::OpStore;
use jj_lib::op_store::OperationId;
use jj_lib::repo::ReadonlyRepo;
use jj_lib::repo::Repo as _;
use jj_lib::repo::RepoLoader;
use jjv::Rng;
use jjv::coq;
use pollster::FutureExt as _;
use testutils::CommitBuilderExt as _;
use testutils::TestRepo;

#[path = "../sched_s.rs"]
mod sched_s;
use sched_s::Shared;
use sched_s::Status;

const WATCHDOG: Duration = Duration::from_secs(600);

#[derive(Clone, Copy, Debug, PartialEq)]
enum Cmd {
    Commit,
    Load,
}

struct Plan {
    lw: bool,
    /// ops created before the run by sequential commits: (base index into `pre` or usize::MAX = initial head)
    pre: Vec<usize>,
    /// heads are reconciled once before the run
    pre_load: bool,
    /// per process: index of the op it starts from (into the op numbering after setup), program
    procs: Vec<(usize, Vec<Cmd>)>,
    sched: Vec<usize>,
    kind: &'static str,
}

struct Ids {
    ids: Vec<OperationId>,
    index: HashMap<OperationId, usize>,
    parents: Vec<Vec<usize>>,
}

impl Ids {
    fn ensure(&mut self, op_store: &Arc<dyn OpStore>, id: &OperationId) -> usize {
        if let Some(i) = self.index.get(id) {
            return *i;
        }
        let op = op_store.read_operation(id).block_on().expect("read op");
        let mut ps: Vec<usize> = op.parents.iter().map(|p| self.ensure(op_store, p)).collect();
        ps.sort();
        ps.dedup();
        let i = self.ids.len();
        self.ids.push(id.clone());
        self.index.insert(id.clone(), i);
        self.parents.push(ps);
        i
    }
}

fn list_heads(dir: &Path) -> Vec<OperationId> {
    let mut v = vec![];
    for e in std::fs::read_dir(dir).unwrap() {
        let name = e.unwrap().file_name();
        if let Some(id) = OperationId::try_from_hex(name.to_str().unwrap()) {
            v.push(id);
        }
    }
    v
}

fn nat_list(xs: &[usize]) -> String {
    coq::list(xs.iter(), |x| format!("{x}"))
}

fn commit_on(repo: &Arc<ReadonlyRepo>, desc: &str) -> jj_lib::transaction::UnpublishedOperation {
    let mut tx = repo.start_transaction();
    let tree = repo.store().empty_merged_tree();
    let root = repo.store().root_commit_id().clone();
    tx.repo_mut().new_commit(vec![root], tree).set_description(desc).write_unwrap();
    tx.write(desc).block_on().expect("tx.write")
}

/// Runs one case; returns (coq term, shape, nontrivial).
fn run_case(plan: &Plan) -> (String, String, bool) {
    let t0 = std::time::Instant::now();
    let settings = testutils::user_settings();
    let test_repo = TestRepo::init_with_backend_and_settings(testutils::TestRepoBackend::Simple, &settings);
    let env = &test_repo.env;
    let repo_path: PathBuf = test_repo.repo_path().to_path_buf();
    let heads_dir = repo_path.join("op_heads").join("heads");
    let op_store = test_repo.repo.op_store().clone();
    let mut ids = Ids { ids: vec![], index: HashMap::new(), parents: vec![] };

    // ---- setup (main thread, not an actor: points pass through)
    let head0 = test_repo.repo.clone();
    let mut pre_repos: Vec<Arc<ReadonlyRepo>> = vec![];
    for (k, base) in plan.pre.iter().enumerate() {
        let base_repo = if *base == usize::MAX { head0.clone() } else { pre_repos[*base].clone() };
        let r = commit_on(&base_repo, &format!("pre{k}")).publish().block_on().expect("publish");
        pre_repos.push(r);
    }
    if plan.pre_load {
        env.load_repo_at_head(&settings, &repo_path);
    }
    let mut hs = list_heads(&heads_dir);
    hs.sort();
    for h in &hs {
        ids.ensure(&op_store, h);
    }
    // deterministic numbering of the initial ops: re-number by (depth-first from sorted heads) is
    // hash dependent; canonicalise by creation order instead: root, init op, pre ops in order.
    {
        let mut canon = Ids { ids: vec![], index: HashMap::new(), parents: vec![] };
        canon.ensure(&op_store, head0.op_id());
        for r in &pre_repos {
            canon.ensure(&op_store, r.op_id());
        }
        for h in &hs {
            canon.ensure(&op_store, h);
        }
        ids = canon;
    }
    let t_setup = t0.elapsed();
    let ninit = ids.ids.len();
    let mut init_heads: Vec<usize> = hs.iter().map(|h| ids.index[h]).collect();
    init_heads.sort();

    let nprocs = plan.procs.len();
    let shared = Shared::new(nprocs, |kind, detail| match kind {
        "cmd" | "op_heads.read" | "op_heads.add" | "op_heads.remove" => true,
        "lock.acquire" | "lock.release" => detail.contains("/op_heads/heads/lock"),
        _ => false,
    });
    // every process loads the repo at its starting op before the run
    let start_ops: Vec<usize> = plan.procs.iter().map(|(s, _)| (*s).min(ninit - 1)).collect();

    let mut steps: Vec<String> = vec![];
    let mut final_pcs: Vec<usize> = vec![];
    let mut trouble: Option<String> = None;
    let mut max_heads = init_heads.len();
    let mut n_merge = 0usize;
    let ids_m = Mutex::new(ids);

    std::thread::scope(|scope| {
        for (i, (_, prog)) in plan.procs.iter().enumerate() {
            let shared = shared.clone();
            let settings = settings.clone();
            let repo_path = repo_path.clone();
            let start_id = ids_m.lock().unwrap().ids[start_ops[i]].clone();
            let prog = prog.clone();
            scope.spawn(move || {
                let factories = env.default_backend_factories();
                let loader = RepoLoader::init_from_file_system(&settings, &repo_path, &factories).unwrap();
                let op = loader.load_operation(&start_id).block_on().unwrap();
                let mut repo = loader.load_at(&op).block_on().unwrap();
                shared.run_actor(i, || {
                    for (k, cmd) in prog.iter().enumerate() {
                        sched_s::point("cmd", "");
                        match cmd {
                            Cmd::Commit => {
                                let unpub = commit_on(&repo, &format!("p{i}c{k}"));
                                sched_s::note(format!("wrote {}", unpub.operation().id().hex()));
                                match unpub.publish().block_on() {
                                    Ok(r) => repo = r,
                                    Err(_) => {
                                        sched_s::note("failed".to_string());
                                        return;
                                    }
                                }
                            }
                            Cmd::Load => match repo.loader().load_at_head().block_on() {
                                Ok(r) => repo = r,
                                Err(_) => {
                                    sched_s::note("failed".to_string());
                                    return;
                                }
                            },
                        }
                        sched_s::note(format!("cur {}", repo.op_id().hex()));
                    }
                });
            });
        }

        // ---- the scheduler
        let mut ids = ids_m.lock().unwrap();
        let mut failed = vec![false; nprocs];
        let mut lock_holder: Option<usize> = None;
        if let Err(e) = shared.wait_quiet(WATCHDOG) {
            trouble = Some(e);
        }
        for &pid in &plan.sched {
            if trouble.is_some() {
                break;
            }
            let st = shared.status(pid);
            let mut before = list_heads(&heads_dir).iter().map(|h| ids.ensure(&op_store, h)).collect::<Vec<_>>();
            before.sort();
            let mut pick = 0usize;
            let mut label = "C14.LNone".to_string();
            let mut cur: Option<usize> = None;
            let mut moved = false;
            match &st {
                Status::Done { .. } | Status::Running => {}
                Status::Parked { kind, detail } => {
                    let blocked = kind == "lock.acquire" && plan.lw && lock_holder.is_some();
                    if !blocked {
                        moved = true;
                        let ret = if kind == "lock.acquire" && !plan.lw { 1 } else { 0 };
                        if let Err(e) = shared.release(pid, ret, WATCHDOG) {
                            trouble = Some(e);
                            break;
                        }
                        let notes = shared.take_notes(pid);
                        for n in &notes {
                            if let Some(hex) = n.strip_prefix("cur ") {
                                cur = Some(ids.ensure(&op_store, &OperationId::try_from_hex(hex).unwrap()));
                            } else if n == "failed" {
                                failed[pid] = true;
                            }
                        }
                        label = match kind.as_str() {
                            "cmd" => {
                                if let Some(hex) = notes.iter().find_map(|n| n.strip_prefix("wrote ")) {
                                    let n = ids.ensure(&op_store, &OperationId::try_from_hex(hex).unwrap());
                                    format!("(C14.LWrite {n} {})", nat_list(&ids.parents[n]))
                                } else {
                                    "C14.LBegin".to_string()
                                }
                            }
                            "op_heads.read" => {
                                let known = ids.ids.len();
                                let mut merge = "None".to_string();
                                if let Status::Parked { kind: k2, detail: d2 } = shared.status(pid)
                                    && k2 == "op_heads.add"
                                {
                                    let m = ids.ensure(&op_store, &OperationId::try_from_hex(&d2).unwrap());
                                    if m >= known {
                                        merge = format!("(Some ({m}, {}))", nat_list(&ids.parents[m]));
                                        n_merge += 1;
                                    }
                                }
                                format!("(C14.LRead {} {merge})", nat_list(&before))
                            }
                            "lock.acquire" => {
                                if plan.lw {
                                    lock_holder = Some(pid);
                                }
                                "C14.LLock".to_string()
                            }
                            "lock.release" => {
                                if lock_holder == Some(pid) {
                                    lock_holder = None;
                                }
                                "C14.LUnlock".to_string()
                            }
                            "op_heads.add" => {
                                let n = ids.ensure(&op_store, &OperationId::try_from_hex(detail).unwrap());
                                format!("(C14.LAdd {n})")
                            }
                            "op_heads.remove" => {
                                let n = ids.ensure(&op_store, &OperationId::try_from_hex(detail).unwrap());
                                pick = n;
                                format!("(C14.LRemove {n})")
                            }
                            other => format!("(unknown_point_{})", other.replace('.', "_")),
                        };
                    }
                }
            }
            let _ = moved;
            let mut after = list_heads(&heads_dir).iter().map(|h| ids.ensure(&op_store, h)).collect::<Vec<_>>();
            after.sort();
            max_heads = max_heads.max(after.len());
            steps.push(format!(
                "(C14.mk_obs (C14.mk_ev {pid} {pick} None) {label} {} {})",
                nat_list(&after),
                coq::opt(cur, |c| format!("{c}"))
            ));
        }
        for pid in 0..nprocs {
            final_pcs.push(match shared.status(pid) {
                Status::Done { panicked } => {
                    if failed[pid] || panicked {
                        7
                    } else {
                        0
                    }
                }
                Status::Running => 99,
                Status::Parked { kind, .. } => match kind.as_str() {
                    "cmd" => 1,
                    "op_heads.read" => 2,
                    "lock.acquire" => 3,
                    "op_heads.add" => 4,
                    "op_heads.remove" => 5,
                    "lock.release" => 6,
                    _ => 98,
                },
            });
        }
        shared.kill_all();
    });

    let t_run = t0.elapsed();
    // ---- everybody is dead; a fresh process loads the repo
    let mut ids = ids_m.into_inner().unwrap();
    let factories = env.default_backend_factories();
    let final_repo = jjv::catch(|| {
        RepoLoader::init_from_file_system(&settings, &repo_path, &factories)
            .unwrap()
            .load_at_head()
            .block_on()
            .ok()
    })
    .flatten();
    let (final_ok, final_cur) = match &final_repo {
        Some(r) => (trouble.is_none(), ids.ensure(&op_store, r.op_id())),
        None => (false, 0),
    };
    let mut final_heads: Vec<usize> =
        list_heads(&heads_dir).iter().map(|h| ids.ensure(&op_store, h)).collect();
    final_heads.sort();

    let progs = coq::list(plan.procs.iter().enumerate(), |(i, (_, prog))| {
        format!(
            "({}, {})",
            start_ops[i],
            coq::list(prog.iter(), |c| match c {
                Cmd::Commit => "C14.CCommit".to_string(),
                Cmd::Load => "C14.CLoad".to_string(),
            })
        )
    });
    let term = format!(
        "(C14.mk_case {} {} {} {} {} [{}] {} {} {} {})%nat",
        coq::b(plan.lw),
        ninit,
        coq::list(ids.parents.iter(), |ps| nat_list(ps)),
        nat_list(&init_heads),
        progs,
        steps.join("; "),
        nat_list(&final_pcs),
        coq::b(final_ok),
        final_cur,
        nat_list(&final_heads),
    );
    if std::env::var_os("C14_TIMING").is_some() {
        eprintln!("setup {:?} run {:?} total {:?} steps {}", t_setup, t_run, t0.elapsed(), steps.len());
    }
    let crashed = final_pcs.iter().filter(|c| **c != 0 && **c != 7).count();
    let shape = format!(
        "{} lw={} maxheads={} merge={} crashed={}{}",
        plan.kind,
        plan.lw,
        max_heads.min(3),
        n_merge > 0,
        crashed > 0,
        if trouble.is_some() { " WATCHDOG" } else { "" }
    );
    (term, shape, max_heads >= 2 || crashed > 0)
}

/// All interleavings of `a` steps of process 0 and `b` steps of process 1.
fn interleavings(a: usize, b: usize) -> Vec<Vec<usize>> {
    fn go(a: usize, b: usize, cur: &mut Vec<usize>, out: &mut Vec<Vec<usize>>) {
        if a == 0 && b == 0 {
            out.push(cur.clone());
            return;
        }
        if a > 0 {
            cur.push(0);
            go(a - 1, b, cur, out);
            cur.pop();
        }
        if b > 0 {
            cur.push(1);
            go(a, b - 1, cur, out);
            cur.pop();
        }
    }
    let mut out = vec![];
    go(a, b, &mut vec![], &mut out);
    out
}

fn random_plan(rng: &mut Rng) -> Plan {
    let lw = rng.chance(1, 2);
    // initial divergence
    let mut pre = vec![];
    let npre = *rng.pick(&[0usize, 0, 1, 2, 2, 3]);
    for k in 0..npre {
        pre.push(if k == 0 || rng.chance(1, 2) { usize::MAX } else { rng.usize(k) });
    }
    let pre_load = npre >= 2 && rng.chance(1, 4);
    let nprocs = rng.range(2, 3) as usize;
    let progs: &[&[Cmd]] = &[
        &[Cmd::Commit],
        &[Cmd::Load],
        &[Cmd::Load, Cmd::Commit],
        &[Cmd::Commit, Cmd::Load],
        &[Cmd::Commit, Cmd::Commit],
        &[Cmd::Load, Cmd::Load],
        &[Cmd::Load, Cmd::Commit, Cmd::Load],
    ];
    let mut procs = vec![];
    let mut budget = 0usize;
    for _ in 0..nprocs {
        let prog = rng.pick(progs).to_vec();
        budget += prog.iter().map(|c| if *c == Cmd::Commit { 5 } else { 8 }).sum::<usize>();
        // start from the newest op, or from a stale one
        let start = if rng.chance(2, 3) { usize::MAX - 1 } else { rng.usize(2 + npre) };
        procs.push((start, prog));
    }
    // schedule: random pids; sometimes cut short (crashes), sometimes one process starved
    let len = match rng.below(4) {
        0 => rng.usize(budget + 1),
        1 => budget / 2 + rng.usize(budget / 2 + 1),
        _ => budget + rng.usize(6),
    };
    let starved = if rng.chance(1, 5) { Some(rng.usize(nprocs)) } else { None };
    let bursty = rng.chance(1, 3);
    let mut sched = vec![];
    let mut last = rng.usize(nprocs);
    for _ in 0..len {
        let mut p = if bursty && rng.chance(2, 3) { last } else { rng.usize(nprocs) };
        if Some(p) == starved && sched.len() > 3 {
            p = (p + 1) % nprocs;
        }
        last = p;
        sched.push(p);
    }
    Plan { lw, pre, pre_load, procs, sched, kind: "random" }
}

fn main() {
    // nothing may live under /tmp: testutils creates its directories under TMPDIR
    let args: Vec<String> = std::env::args().collect();
    if let Some(p) = args.iter().position(|a| a == "--out") {
        let tmp = PathBuf::from(&args[p + 1]).join("tmp");
        let _ = std::fs::remove_dir_all(&tmp);
        std::fs::create_dir_all(&tmp).unwrap();
        let tmp = std::fs::canonicalize(&tmp).unwrap();
        // SAFETY: no other thread exists yet
        unsafe { std::env::set_var("TMPDIR", &tmp) };
    }
    sched_s::install();
    jjv::run("C14", "C14", |ctx| {
        // exhaustive block: two publishers from the same op, all 252 interleavings of their
        // 5 steps each (write, lock, add, remove, unlock), with and without a working lock;
        // then two publishers + one reconciler over an already divergent directory: a fixed
        // family of structured schedules; then seeded random plans.
        let il = interleavings(5, 5);
        let n_ex = il.len() * 2;
        // thorough tier only: one publisher (5 steps) against one reconciler (8 steps: begin,
        // read, lock, read+merge, add, remove, remove, unlock) over a directory that already
        // holds two divergent heads: all 1287 interleavings x both lock modes
        let il2 = if ctx.tier == "thorough" { interleavings(5, 8) } else { vec![] };
        let n_ex2 = il2.len() * 2;
        let indices = ctx.indices();
        let plans: Vec<(usize, Plan)> = indices
            .iter()
            .map(|&i| {
                let mut rng = ctx.rng(i);
                let plan = if i < n_ex && ctx.tier != "replay" {
                    Plan {
                        lw: i % 2 == 0,
                        pre: vec![],
                        pre_load: false,
                        procs: vec![(usize::MAX - 1, vec![Cmd::Commit]), (usize::MAX - 1, vec![Cmd::Commit])],
                        sched: il[i / 2].clone(),
                        kind: "exhaustive2",
                    }
                } else if i < n_ex + n_ex2 {
                    let j = i - n_ex;
                    Plan {
                        lw: j % 2 == 0,
                        pre: vec![usize::MAX, usize::MAX],
                        pre_load: false,
                        procs: vec![(usize::MAX - 1, vec![Cmd::Commit]), (usize::MAX - 1, vec![Cmd::Load])],
                        sched: il2[j / 2].clone(),
                        kind: "exhaustive-pub-vs-reconciler",
                    }
                } else {
                    random_plan(&mut rng)
                };
                (i, plan)
            })
            .collect();
        let results: Mutex<Vec<Option<(String, String, bool)>>> = Mutex::new(vec![None; plans.len()]);
        let next = AtomicUsize::new(0);
        let workers = std::thread::available_parallelism().map(|n| n.get()).unwrap_or(4).min(12);
        std::thread::scope(|s| {
            for _ in 0..workers {
                s.spawn(|| {
                    loop {
                        let k = next.fetch_add(1, Ordering::SeqCst);
                        if k >= plans.len() {
                            break;
                        }
                        let r = jjv::catch(|| run_case(&plans[k].1)).unwrap_or_else(|| {
                            (
                                "(C14.mk_case true 0 [] [] [] [] [] false 0 [])%nat".to_string(),
                                "HARNESS-PANIC".to_string(),
                                false,
                            )
                        });
                        results.lock().unwrap()[k] = Some(r);
                    }
                });
            }
        });
        let results = results.into_inner().unwrap();
        for ((i, _), r) in plans.iter().zip(results) {
            let (term, shape, nontrivial) = r.unwrap();
            ctx.emit(*i, term, nontrivial, &shape);
        }
    });
}
