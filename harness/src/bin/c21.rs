//! C21: several real `TableStore` instances on ONE directory, driven step by step through the
//! `jj_lib::verif::point` hooks (table.read_heads/add_head/remove_head, lock.acquire/release);
//! every segment file met is decoded from its bytes and compared with the model's structure.
use std::collections::HashMap;
use std::path::Path;
use std::path::PathBuf;
use std::sync::Arc;
use std::sync::Mutex;
use std::sync::atomic::AtomicUsize;
use std::sync::atomic::Ordering;
use std::time::Duration;

use jj_lib::stacked_table::ReadonlyTable;
use jj_lib::stacked_table::TableSegment as _;
use jj_lib::stacked_table::TableStore;
use jjv::Rng;
use jjv::coq;

#[path = "../sched_s.rs"]
mod sched_s;
use sched_s::Shared;
use sched_s::Status;

const WATCHDOG: Duration = Duration::from_secs(600);

type Ents = Vec<(u8, Vec<u8>)>;

#[derive(Clone, Debug)]
enum Cmd {
    Read,
    Write(Ents),
    Stale(Ents),
}

#[derive(Clone, Copy, Debug)]
enum Sch {
    Step(usize),
    /// schedule the process until its current command has ended (at most 40 steps)
    Burst(usize),
}

struct Plan {
    lw: bool,
    nkeys: u8,
    procs: Vec<Vec<Cmd>>,
    sched: Vec<Sch>,
    kind: &'static str,
}

/// Values only matter up to equality: an injective code 1.. for the pool of values used.
const VALUE_POOL: &[&[u8]] = &[&[], &[7], &[8], &[7, 7], &[0], &[1], &[2], &[3], &[4], &[5], &[6]];

fn val_n(v: &[u8]) -> u64 {
    VALUE_POOL.iter().position(|p| *p == v).expect("value outside the pool") as u64 + 1
}

/// Digits in base 64 (each < 64), least significant first, closed by a sentinel digit 1.
fn pack(digits: &[u64]) -> String {
    // big number in decimal: use u128 chunks via simple bignum (vector of u32 limbs base 1e9)
    let mut limbs: Vec<u64> = vec![0]; // base 1_000_000_000
    let mut all: Vec<u64> = digits.to_vec();
    all.push(1);
    for d in all.iter().rev() {
        assert!(*d < 64, "digit out of range");
        let mut carry = *d;
        for l in limbs.iter_mut() {
            let v = *l * 64 + carry;
            *l = v % 1_000_000_000;
            carry = v / 1_000_000_000;
        }
        if carry > 0 {
            limbs.push(carry);
        }
    }
    let mut s = format!("{}", limbs.last().unwrap());
    for l in limbs.iter().rev().skip(1) {
        s.push_str(&format!("{l:09}"));
    }
    s
}

fn ents_term(es: &Ents) -> String {
    coq::list(es.iter(), |(k, v)| format!("({k}, {})", val_n(v)))
}

/// Dictionary of tables met in the case: index -> structure (local entries per segment,
/// newest first), decoded from the segment files' bytes. Index 0 = no table.
struct Tabs {
    dir: PathBuf,
    index: HashMap<String, usize>,
    tables: Vec<Vec<Vec<(u64, u64)>>>,
    raw: Vec<(usize, Vec<u8>)>,
}

impl Tabs {
    fn decode(&mut self, name: &str) -> usize {
        if name.is_empty() {
            return 0;
        }
        if let Some(i) = self.index.get(name) {
            return *i;
        }
        let data = std::fs::read(self.dir.join(name)).expect("segment file");
        let u32_at = |p: usize| u32::from_le_bytes(data[p..p + 4].try_into().unwrap()) as usize;
        let plen = u32_at(0);
        let parent = String::from_utf8(data[4..4 + plen].to_vec()).unwrap();
        let mut pos = 4 + plen;
        let n = u32_at(pos);
        pos += 4;
        let key_size = 1;
        let index_end = pos + n * (key_size + 4);
        let values = &data[index_end..];
        let mut local = vec![];
        for i in 0..n {
            let e = pos + i * (key_size + 4);
            let key = data[e] as u64;
            let off = u32_at(e + key_size);
            let end = if i + 1 < n { u32_at(e + (key_size + 4) + key_size) } else { values.len() };
            local.push((key, val_n(&values[off..end])));
        }
        let pi = self.decode(&parent);
        let mut t = vec![local];
        t.extend(self.tables[pi].iter().cloned());
        let i = self.tables.len();
        self.tables.push(t);
        self.index.insert(name.to_string(), i);
        self.raw.push((i, data.clone()));
        i
    }
}

fn list_heads(dir: &Path) -> Vec<String> {
    let mut v = vec![];
    for e in std::fs::read_dir(dir.join("heads")).unwrap() {
        v.push(e.unwrap().file_name().to_str().unwrap().to_string());
    }
    v
}

fn lookups_of(t: &Arc<ReadonlyTable>, nkeys: u8) -> Vec<Option<u64>> {
    (0..nkeys).map(|k| t.get_value(&[k]).map(val_n)).collect()
}

fn lk_term(lk: &[Option<u64>]) -> String {
    coq::list(lk.iter(), |x| format!("{}", x.unwrap_or(0)))
}

fn parse_lk(s: &str) -> Vec<Option<u64>> {
    s.split(',').filter(|x| !x.is_empty()).map(|x| if x == "-" { None } else { Some(x.parse().unwrap()) }).collect()
}

fn run_case(plan: &Plan, root: &Path, case_no: usize) -> (String, String, bool) {
    let dir = root.join(format!("t{case_no}"));
    let _ = std::fs::remove_dir_all(&dir);
    std::fs::create_dir_all(&dir).unwrap();
    let dir = std::fs::canonicalize(&dir).unwrap();
    drop(TableStore::init(dir.clone(), 1));
    let mut tabs = Tabs { dir: dir.clone(), index: HashMap::new(), tables: vec![vec![]], raw: vec![] };

    let nprocs = plan.procs.len();
    let dir_s = dir.to_string_lossy().to_string();
    let lock_prefix = format!("{dir_s}/lock");
    let shared = Shared::new(nprocs, move |kind, detail| match kind {
        "cmd" | "table.read_heads" | "table.add_head" | "table.remove_head" => true,
        "lock.acquire" | "lock.release" => detail.starts_with(&lock_prefix),
        _ => false,
    });
    let mut init_heads: Vec<usize> = list_heads(&dir).iter().map(|n| tabs.decode(n)).collect();
    init_heads.sort();

    let mut steps: Vec<String> = vec![];
    let mut final_pcs: Vec<usize> = vec![];
    let mut trouble: Option<String> = None;
    let mut max_heads = init_heads.len();
    let mut n_reconcile = 0usize;
    let mut overlapped = false;
    let mut emptied = false;
    let nkeys = plan.nkeys;

    std::thread::scope(|scope| {
        for (i, prog) in plan.procs.iter().enumerate() {
            let shared = shared.clone();
            let dir = dir.clone();
            let prog = prog.clone();
            scope.spawn(move || {
                let store = TableStore::load(dir, 1);
                let mut cur: Option<Arc<ReadonlyTable>> = None;
                shared.run_actor(i, || {
                    for cmd in &prog {
                        sched_s::point("cmd", "");
                        let res = match cmd {
                            Cmd::Read => store.get_head().ok(),
                            Cmd::Write(es) => (|| {
                                let (head, lock) = store.get_head_locked().ok()?;
                                let mut m = head.start_mutation();
                                for (k, v) in es {
                                    m.add_entry(vec![*k], v.clone());
                                }
                                let t = store.save_table(m).ok()?;
                                drop(lock);
                                Some(t)
                            })(),
                            Cmd::Stale(es) => (|| {
                                let mut m = cur.as_ref()?.start_mutation();
                                for (k, v) in es {
                                    m.add_entry(vec![*k], v.clone());
                                }
                                store.save_table(m).ok()
                            })(),
                        };
                        match res {
                            Some(t) => {
                                let lk = lookups_of(&t, nkeys);
                                let lk_s: Vec<String> =
                                    lk.iter().map(|x| x.map_or("-".to_string(), |v| v.to_string())).collect();
                                sched_s::note(format!("done {} {}", t.name(), lk_s.join(",")));
                                cur = Some(t);
                            }
                            None => {
                                sched_s::note("failed".to_string());
                                return;
                            }
                        }
                    }
                });
            });
        }

        // ---- the scheduler
        let mut failed = vec![false; nprocs];
        let mut inside = vec![false; nprocs];
        let mut lock_holder: Option<usize> = None;
        if let Err(e) = shared.wait_quiet(WATCHDOG) {
            trouble = Some(e);
        }
        // expand bursts dynamically
        let mut sch = plan.sched.iter();
        let mut burst_left = 0usize;
        let mut burst_pid = 0usize;
        loop {
            if trouble.is_some() {
                break;
            }
            let pid = if burst_left > 0 {
                burst_left -= 1;
                burst_pid
            } else {
                match sch.next() {
                    None => break,
                    Some(Sch::Step(p)) => *p,
                    Some(Sch::Burst(p)) => {
                        burst_pid = *p;
                        burst_left = 40;
                        continue;
                    }
                }
            };
            let st = shared.status(pid);
            let before: Vec<usize> = list_heads(&dir).iter().map(|n| tabs.decode(n)).collect();
            let mut label: (u64, Vec<usize>) = (0, vec![]);
            let mut done: Option<(usize, Vec<Option<u64>>)> = None;
            match &st {
                Status::Done { .. } | Status::Running => {
                    burst_left = 0;
                }
                Status::Parked { kind, detail } => {
                    let blocked = kind == "lock.acquire" && plan.lw && lock_holder.is_some();
                    if blocked {
                        burst_left = 0;
                    } else {
                        let ret = if kind == "lock.acquire" && !plan.lw { 1 } else { 0 };
                        if kind == "table.add_head" || kind == "table.remove_head" {
                            if inside.iter().enumerate().any(|(q, b)| *b && q != pid) {
                                overlapped = true;
                            }
                            inside[pid] = true;
                        }
                        if let Err(e) = shared.release(pid, ret, WATCHDOG) {
                            trouble = Some(e);
                            break;
                        }
                        for n in shared.take_notes(pid) {
                            if let Some(rest) = n.strip_prefix("done ") {
                                let (name, lk) = rest.split_once(' ').unwrap_or((rest, ""));
                                done = Some((tabs.decode(name), parse_lk(lk)));
                                inside[pid] = false;
                                burst_left = 0;
                            } else if n == "failed" {
                                failed[pid] = true;
                                inside[pid] = false;
                                burst_left = 0;
                            }
                        }
                        label = match kind.as_str() {
                            "cmd" => (1, vec![]),
                            "table.read_heads" => {
                                if before.len() > 1 && lock_holder == Some(pid) || (before.len() > 1 && !plan.lw) {
                                    n_reconcile += 1;
                                }
                                (2, before.clone())
                            }
                            "lock.acquire" => {
                                if plan.lw {
                                    lock_holder = Some(pid);
                                }
                                (3, vec![])
                            }
                            "lock.release" => {
                                if lock_holder == Some(pid) {
                                    lock_holder = None;
                                }
                                (6, vec![])
                            }
                            "table.add_head" => (4, vec![tabs.decode(detail)]),
                            "table.remove_head" => (5, vec![tabs.decode(detail)]),
                            _ => (63, vec![]),
                        };
                    }
                }
            }
            let mut after: Vec<usize> = list_heads(&dir).iter().map(|n| tabs.decode(n)).collect();
            after.sort();
            max_heads = max_heads.max(after.len());
            if after.is_empty() && !before.is_empty() {
                emptied = true;
            }
            let mut d: Vec<u64> = vec![pid as u64, label.0, label.1.len() as u64];
            d.extend(label.1.iter().map(|x| *x as u64));
            d.push(after.len() as u64);
            d.extend(after.iter().map(|x| *x as u64));
            match &done {
                None => d.push(0),
                Some((i, lk)) => {
                    d.push(1);
                    d.push(*i as u64);
                    d.push(lk.len() as u64);
                    d.extend(lk.iter().map(|x| x.unwrap_or(0)));
                }
            }
            steps.push(pack(&d));
        }
        for pid in 0..nprocs {
            final_pcs.push(match shared.status(pid) {
                Status::Done { panicked } => {
                    if failed[pid] || panicked {
                        7
                    } else {
                        0
                    }
                }
                Status::Running => 99,
                Status::Parked { kind, .. } => match kind.as_str() {
                    "cmd" => 1,
                    "table.read_heads" => 2,
                    "lock.acquire" => 3,
                    "table.add_head" => 4,
                    "table.remove_head" => 5,
                    "lock.release" => 6,
                    _ => 98,
                },
            });
        }
        shared.kill_all();
    });

    // ---- everybody is dead; a fresh instance loads the table
    let final_order: Vec<usize> = list_heads(&dir).iter().map(|n| tabs.decode(n)).collect();
    let fresh = TableStore::load(dir.clone(), 1);
    let (final_id, final_lk) = match jjv::catch(|| fresh.get_head().ok()).flatten() {
        Some(t) => (tabs.decode(t.name()), lookups_of(&t, nkeys)),
        None => (0, vec![]),
    };
    let mut final_heads: Vec<usize> = list_heads(&dir).iter().map(|n| tabs.decode(n)).collect();
    final_heads.sort();

    let progs = coq::list(plan.procs.iter(), |prog| {
        format!(
            "(0, {})",
            coq::list(prog.iter(), |c| match c {
                Cmd::Read => "C21.CRead".to_string(),
                Cmd::Write(es) => format!("(C21.CWrite {})", ents_term(es)),
                Cmd::Stale(es) => format!("(C21.CStale {})", ents_term(es)),
            })
        )
    });
    let tabs_term = coq::list(tabs.tables.iter(), |t| {
        coq::list(t.iter(), |seg| coq::list(seg.iter(), |(k, v)| format!("({k}, {v})")))
    });
    let term = format!(
        "(C21.mk_case {} {} {} {} {} [{}] {} {} {} ({}, {}) {})",
        coq::b(plan.lw),
        nkeys,
        tabs_term,
        nat_list_nat(&init_heads),
        progs,
        steps.join("; "),
        nat_list_nat(&final_pcs),
        nat_list_nat(&final_order),
        nat_list_nat(&final_heads),
        final_id,
        lk_term(&final_lk),
        // the three largest segment files of the case, byte for byte
        {
            let mut raw = tabs.raw.clone();
            raw.sort_by_key(|(i, d)| (std::cmp::Reverse(d.len()), *i));
            raw.truncate(3);
            raw.sort_by_key(|(i, _)| *i);
            coq::list(raw.iter(), |(i, d)| format!("({i}, {})", coq::bytes(d)))
        },
    );
    let _ = std::fs::remove_dir_all(&dir);
    let crashed = final_pcs.iter().filter(|c| **c != 0 && **c != 7).count();
    let shape = format!(
        "{} lw={} reconcile={} overlap={}{}{}{}",
        plan.kind,
        plan.lw,
        n_reconcile > 0,
        overlapped,
        if crashed > 0 && max_heads >= 3 { " crashed+3heads" } else { "" },
        if emptied { " EMPTIED" } else { "" },
        if trouble.is_some() { " WATCHDOG" } else { "" }
    );
    (term, shape, max_heads >= 2 || n_reconcile > 0)
}

fn nat_list_nat(xs: &[usize]) -> String {
    coq::list(xs.iter(), |x| format!("{x}"))
}

fn rand_ents(rng: &mut Rng, nkeys: u8, big: bool) -> Ents {
    let n = if big { rng.range(3, 5) } else { 1 + rng.geometric(2) } as usize;
    let mut es: Ents = vec![];
    for _ in 0..n {
        let k = rng.below(nkeys as u64) as u8;
        let v: Vec<u8> = VALUE_POOL[rng.usize(7)].to_vec();
        es.push((k, v));
    }
    es
}

fn random_plan(rng: &mut Rng) -> Plan {
    let lw = rng.chance(1, 2);
    let nkeys = rng.range(3, 6) as u8;
    let nprocs = rng.range(1, 3) as usize;
    let kind_sel = rng.below(12);
    if kind_sel >= 10 {
        // a stale writer paused between add_head and remove_head while another instance
        // reconciles, random history and entries (the F6 shape with random content)
        let nkeys = rng.range(2, 4) as u8;
        let first = rand_ents(rng, nkeys, false);
        let mut second = rand_ents(rng, nkeys, false);
        if rng.chance(1, 2) {
            // same keys, other values: the merged table can coincide with the parent
            second = first.iter().map(|(k, _)| (*k, VALUE_POOL[rng.usize(7)].to_vec())).collect();
        }
        let mut p0 = vec![Cmd::Read, Cmd::Stale(first)];
        if rng.chance(1, 3) {
            p0.push(Cmd::Write(rand_ents(rng, nkeys, false)));
        }
        let mut sched = vec![Sch::Burst(0); p0.len()];
        sched.extend([Sch::Burst(1), Sch::Step(1), Sch::Step(1), Sch::Burst(2), Sch::Burst(1), Sch::Burst(2)]);
        return Plan {
            lw: rng.chance(1, 2),
            nkeys,
            procs: vec![p0, vec![Cmd::Read, Cmd::Stale(second)], vec![Cmd::Read, Cmd::Read]],
            sched,
            kind: "overlap-random",
        };
    }
    // 0-3: serial sections (bursts only); 4-5: serial, all writers locked; 6-9: step interleavings
    let (kind, serial, allow_stale): (&'static str, bool, bool) = match kind_sel {
        0..=3 => ("serial", true, true),
        4..=5 => ("serial-locked", true, false),
        6..=7 => ("steps-locked", false, false),
        _ => ("steps", false, true),
    };
    let mut procs = vec![];
    for _ in 0..nprocs {
        let len = rng.range(2, 4) as usize;
        let mut prog = vec![Cmd::Read];
        for _ in 1..len {
            let big = rng.chance(1, 5);
            prog.push(match rng.below(6) {
                0 => Cmd::Read,
                1 | 2 => Cmd::Write(rand_ents(rng, nkeys, big)),
                _ => {
                    if allow_stale {
                        Cmd::Stale(rand_ents(rng, nkeys, big))
                    } else {
                        Cmd::Write(rand_ents(rng, nkeys, big))
                    }
                }
            });
        }
        procs.push(prog);
    }
    let total_cmds: usize = procs.iter().map(|p| p.len()).sum();
    let mut sched = vec![];
    if serial {
        let n = total_cmds + rng.usize(3);
        for _ in 0..n {
            sched.push(Sch::Burst(rng.usize(nprocs)));
        }
    } else {
        let budget = total_cmds * 7;
        let len = match rng.below(4) {
            0 => budget / 2 + rng.usize(budget / 2 + 1),
            _ => budget + rng.usize(8),
        };
        let bursty = rng.chance(1, 2);
        let mut last = rng.usize(nprocs);
        for _ in 0..len {
            let p = if bursty && rng.chance(2, 3) { last } else { rng.usize(nprocs) };
            last = p;
            sched.push(if rng.chance(1, 8) { Sch::Burst(p) } else { Sch::Step(p) });
        }
    }
    Plan { lw, nkeys, procs, sched, kind }
}

/// The F4 scenario (DESIGN §7): writer 1 saves {k1}, stale writer 2 saves {k1,k2} from the
/// same empty head, a third instance reconciles.
fn f4_plan() -> Plan {
    let k1 = (0u8, vec![7u8]);
    let k2 = (1u8, vec![8u8]);
    Plan {
        lw: true,
        nkeys: 3,
        procs: vec![
            vec![Cmd::Read, Cmd::Stale(vec![k1.clone()])],
            vec![Cmd::Read, Cmd::Stale(vec![k1, k2])],
            vec![Cmd::Read],
        ],
        sched: vec![Sch::Burst(0), Sch::Burst(1), Sch::Burst(0), Sch::Burst(1), Sch::Burst(2), Sch::Burst(2)],
        kind: "F4",
    }
}

/// A writer paused between add_head and remove_head while a reconciler runs (overlap).
fn overlap_plan(variant: usize) -> Plan {
    let v1 = vec![(variant % 3) as u8 + 1];
    let v2 = vec![(variant / 3 % 3) as u8 + 4];
    Plan {
        lw: variant % 2 == 0,
        nkeys: 2,
        procs: vec![
            vec![Cmd::Read, Cmd::Stale(vec![(0, v1)])],
            vec![Cmd::Read, Cmd::Stale(vec![(0, v2)])],
            vec![Cmd::Read],
        ],
        // P0: load empty, save p. P1: load p, begin save t: add t, (paused). P2 reconciles. P1 resumes.
        sched: vec![
            Sch::Burst(0),
            Sch::Burst(0),
            Sch::Burst(1),
            Sch::Step(1),
            Sch::Step(1),
            Sch::Burst(2),
            Sch::Burst(1),
        ],
        kind: "overlap",
    }
}

/// One writer saves k twice in a row (three entries, then one: no squash, so both values
/// sit in its own chain), an unrelated stale writer diverges, a third instance reconciles.
/// The later value must win whatever order read_dir yields.
fn seq_then_diverge_plan(variant: usize) -> Plan {
    let v = |i: usize| VALUE_POOL[(variant + i) % 7].to_vec();
    let k = (variant % 3) as u8;
    let first: Ents = (0u8..3).map(|i| (i, v(i as usize))).collect();
    let second: Ents = vec![(k, v(5))];
    Plan {
        lw: variant % 2 == 0,
        nkeys: 5,
        procs: vec![
            vec![Cmd::Read, Cmd::Write(first), Cmd::Write(second)],
            vec![Cmd::Read, Cmd::Stale(vec![(3 + (variant % 2) as u8, v(3))])],
            vec![Cmd::Read, Cmd::Read],
        ],
        // P1 loads the empty table first, P0 does its two sequential saves, P1 saves (stale), P2 reconciles
        sched: vec![
            Sch::Burst(0),
            Sch::Burst(1),
            Sch::Burst(0),
            Sch::Burst(0),
            Sch::Burst(1),
            Sch::Burst(2),
            Sch::Burst(2),
        ],
        kind: "seq-then-diverge",
    }
}

/// Known finding squash-rerecords-inherited-value: A = {k0->v1}; writer 1 saves k0->v2 on top
/// of A; stale writer 2, also from A, saves only k1->w, but its save squashes with A and so
/// re-records k0->v1 in its own segment; a fourth instance reconciles: k0 reads back v1 iff
/// read_dir lists writer 1's head first.
fn rerecord_plan(variant: usize) -> Plan {
    let v = |i: usize| VALUE_POOL[(variant * 2 + i) % 7].to_vec();
    Plan {
        lw: true,
        nkeys: 2,
        procs: vec![
            vec![Cmd::Read, Cmd::Stale(vec![(0, v(0))])],
            vec![Cmd::Read, Cmd::Stale(vec![(0, v(1))])],
            vec![Cmd::Read, Cmd::Stale(vec![(1, v(2))])],
            vec![Cmd::Read],
        ],
        sched: vec![
            Sch::Burst(0),
            Sch::Burst(0),
            Sch::Burst(1),
            Sch::Burst(2),
            Sch::Burst(1),
            Sch::Burst(2),
            Sch::Burst(3),
            Sch::Burst(3),
        ],
        kind: "rerecord",
    }
}

fn main() {
    sched_s::install();
    jjv::run("C21", "C21", |ctx| {
        let root = ctx.scratch.clone();
        let indices = ctx.indices();
        let plans: Vec<(usize, Plan)> = indices
            .iter()
            .map(|&i| {
                let mut rng = ctx.rng(i);
                let plan = if i == 0 {
                    f4_plan()
                } else if i <= 18 {
                    overlap_plan(i - 1)
                } else if i <= 30 {
                    seq_then_diverge_plan(i - 19)
                } else if i <= 38 {
                    rerecord_plan(i - 31)
                } else {
                    random_plan(&mut rng)
                };
                (i, plan)
            })
            .collect();
        let results: Mutex<Vec<Option<(String, String, bool)>>> = Mutex::new(vec![None; plans.len()]);
        let next = AtomicUsize::new(0);
        let workers = std::thread::available_parallelism().map(|n| n.get()).unwrap_or(4).min(12);
        std::thread::scope(|s| {
            for _ in 0..workers {
                s.spawn(|| {
                    loop {
                        let k = next.fetch_add(1, Ordering::SeqCst);
                        if k >= plans.len() {
                            break;
                        }
                        let r = jjv::catch(|| run_case(&plans[k].1, &root, plans[k].0)).unwrap_or_else(|| {
                            (
                                "(C21.mk_case true 0 [] [] [] [] [] [] [] (0, []) [])".to_string(),
                                "HARNESS-PANIC".to_string(),
                                false,
                            )
                        });
                        results.lock().unwrap()[k] = Some(r);
                    }
                });
            }
        });
        let results = results.into_inner().unwrap();
        for ((i, _), r) in plans.iter().zip(results) {
            let (term, shape, nontrivial) = r.unwrap();
            ctx.emit(*i, term, nontrivial, &shape);
        }
    });
}
