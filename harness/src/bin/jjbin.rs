//! The real `jj` command line, built from /repo's working tree with the verification
//! hooks enabled (same CliRunner as /repo/cli/src/main.rs). Harness binaries that need to
//! drive the CLI run `/verif/harness/target/debug/jjbin` (see `jjv::jj_bin_path`).
use jj_cli::cli_util::CliRunner;

fn main() -> std::process::ExitCode {
    CliRunner::init().version("0.0.0-verif").run().into()
}
