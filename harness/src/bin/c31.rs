//! C31: fileset expressions. A random expression tree is printed as fileset text, parsed by
//! the real `jj_lib::fileset::parse` from a random working directory, the resolved
//! `FilesetExpression` and `to_matcher().matches(path)` at a set of paths are recorded.
//! Glob verdicts (globset/regex: code jj does not own) are recorded from single-pattern
//! real matchers.
use std::path::PathBuf;

use jj_lib::fileset;
use jj_lib::fileset::FilePattern;
use jj_lib::fileset::FilesetAliasesMap;
use jj_lib::fileset::FilesetDiagnostics;
use jj_lib::fileset::FilesetExpression;
use jj_lib::fileset::FilesetParseContext;
use jj_lib::matchers::GlobsMatcher;
use jj_lib::matchers::Matcher as _;
use jj_lib::matchers::Visit;
use jj_lib::repo_path::RepoPath;
use jj_lib::repo_path::RepoPathBuf;
use jj_lib::repo_path::RepoPathUiConverter;
use jjv::Rng;
use jjv::coq;

/// (text names, Coq constructor, cwd-relative?, glob?, icase?)
const KINDS: &[(&[&str], &str, bool, bool, bool)] = &[
    (&["cwd"], "C31.KCwd", true, false, false),
    (&["cwd-file", "file"], "C31.KCwdFile", true, false, false),
    (&["cwd-glob", "glob"], "C31.KCwdGlob", true, true, false),
    (&["cwd-glob-i", "glob-i"], "C31.KCwdGlobI", true, true, true),
    (&["cwd-prefix-glob", "prefix-glob", ""], "C31.KCwdPrefixGlob", true, true, false),
    (&["cwd-prefix-glob-i", "prefix-glob-i"], "C31.KCwdPrefixGlobI", true, true, true),
    (&["root"], "C31.KRoot", false, false, false),
    (&["root-file"], "C31.KRootFile", false, false, false),
    (&["root-glob"], "C31.KRootGlob", false, true, false),
    (&["root-glob-i"], "C31.KRootGlobI", false, true, true),
    (&["root-prefix-glob"], "C31.KRootPrefixGlob", false, true, false),
    (&["root-prefix-glob-i"], "C31.KRootPrefixGlobI", false, true, true),
];

const NAMES: &[&str] = &["a", "b", "c", "ab", "A", "B", "a.c"];
const LITERALS: &[&str] = &[
    "", ".", "a", "b", "a/b", "a/b/c", "./a", "a/", "a//b", "../a", "..", "../..", "../b/c",
    "a/../b", "c", "A", "ab", "a.c", "/w/a", "/w", "/w/a/b", "/x", "/", "a/./b", "./",
];
const GLOB_PARTS: &[&str] = &[
    "*", "?", "a*", "*b", "**", "*/b", "*/c", "{a,b}", "{a,b}/c", "[ab]", "**/c", "*/*", "A*", "*B",
    "*.c", "?b", "a?", "\\*", "*//b", "*/./c", "*/", "**/",
];
const BAD_GLOB_PARTS: &[&str] = &["[", "{a", "*/[", "*/../b", "*/.."];
const GLOB_DIRS: &[&str] = &["", "a/", "a/b/", "./", "../", "b/", "A/", "/w/a/", "a//", "a/../"];

#[derive(Clone, Debug)]
enum A {
    None,
    All,
    Pat(usize, String),
    Neg(Box<A>),
    Inter(Box<A>, Box<A>),
    Diff(Box<A>, Box<A>),
    Union(Vec<A>),
}

const SAFE_LITERALS: &[&str] = &[
    "", ".", "a", "b", "a/b", "a/b/c", "./a", "a/", "a//b", "c", "A", "ab", "a.c", "a/./b", "./", "b/c",
    "a/a.c",
];
const SAFE_GLOB_DIRS: &[&str] = &["", "", "a/", "a/b/", "./", "b/", "A/", "a//"];

/// Inputs that resolve inside the workspace for cwd-relative kinds from the given cwd.
fn cwd_safe(rng: &mut Rng, cwd: &str, dir: bool) -> String {
    let inside: &[&str] = if dir {
        &["/w/", "/w/a/", "/w/a/b/", "/w/b/"]
    } else {
        &["/w", "/w/a", "/w/a/b", "/w/b", "/w/a/a.c", "/w/c"]
    };
    match cwd {
        "/" => {
            if rng.chance(1, 2) {
                rng.pick(inside).to_string()
            } else {
                rng.pick(inside)[1..].to_string()
            }
        }
        "/x" => {
            if rng.chance(1, 2) {
                rng.pick(inside).to_string()
            } else {
                format!("..{}", rng.pick(inside))
            }
        }
        _ => {
            if rng.chance(1, 6) {
                rng.pick(inside).to_string()
            } else if rng.chance(1, 8) && cwd != "/w" {
                if dir { "../".to_string() } else { "..".to_string() }
            } else if dir {
                rng.pick(SAFE_GLOB_DIRS).to_string()
            } else {
                rng.pick(SAFE_LITERALS).to_string()
            }
        }
    }
}

fn gen_leaf(rng: &mut Rng, cwd: &str) -> A {
    match rng.below(14) {
        0 => A::None,
        1 => A::All,
        _ => {
            let k = rng.usize(KINDS.len());
            let (_, _, cwd_rel, is_glob, _) = KINDS[k];
            let risky = rng.chance(1, 12);
            let input = if is_glob && rng.chance(4, 5) {
                let part = if rng.chance(1, 20) {
                    rng.pick(BAD_GLOB_PARTS)
                } else {
                    rng.pick(GLOB_PARTS)
                };
                let dir = if risky {
                    rng.pick(GLOB_DIRS).to_string()
                } else if cwd_rel {
                    cwd_safe(rng, cwd, true)
                } else {
                    rng.pick(SAFE_GLOB_DIRS).to_string()
                };
                format!("{dir}{part}")
            } else if risky {
                rng.pick(LITERALS).to_string()
            } else if cwd_rel {
                cwd_safe(rng, cwd, false)
            } else {
                rng.pick(SAFE_LITERALS).to_string()
            };
            A::Pat(k, input)
        }
    }
}

fn gen_ast(rng: &mut Rng, depth: usize, cwd: &str) -> A {
    if depth == 0 || rng.chance(1, 4) {
        return gen_leaf(rng, cwd);
    }
    match rng.below(5) {
        0 => A::Neg(Box::new(gen_ast(rng, depth - 1, cwd))),
        1 => A::Inter(
            Box::new(gen_ast(rng, depth - 1, cwd)),
            Box::new(gen_ast(rng, depth - 1, cwd)),
        ),
        2 => A::Diff(
            Box::new(gen_ast(rng, depth - 1, cwd)),
            Box::new(gen_ast(rng, depth - 1, cwd)),
        ),
        _ => {
            let k = 2 + rng.usize(3);
            let mut v: Vec<A> = (0..k).map(|_| gen_ast(rng, depth - 1, cwd)).collect();
            // the parser flattens a union in first position ("(x|y)|z" is "x|y|z")
            if matches!(v[0], A::Union(_)) {
                v[0] = gen_leaf(rng, cwd);
            }
            A::Union(v)
        }
    }
}

fn print(a: &A, rng: &mut Rng) -> String {
    match a {
        A::None => "none()".into(),
        A::All => "all()".into(),
        A::Pat(k, input) => {
            let names = KINDS[*k].0;
            let name = *rng.pick(names);
            if name.is_empty() {
                format!("'{input}'")
            } else {
                format!("{name}:'{input}'")
            }
        }
        A::Neg(x) => format!("~({})", print(x, rng)),
        A::Inter(x, y) => format!("({}) & ({})", print(x, rng), print(y, rng)),
        A::Diff(x, y) => format!("({}) ~ ({})", print(x, rng), print(y, rng)),
        A::Union(v) => v
            .iter()
            .map(|x| format!("({})", print(x, rng)))
            .collect::<Vec<_>>()
            .join(" | "),
    }
}

fn coq_ast(a: &A) -> String {
    match a {
        A::None => "C31.ANone".into(),
        A::All => "C31.AAll".into(),
        A::Pat(k, input) => coq::app(
            "C31.APattern",
            &[KINDS[*k].1.to_string(), coq::bytes(input.as_bytes())],
        ),
        A::Neg(x) => coq::app("C31.ANegate", &[coq_ast(x)]),
        A::Inter(x, y) => coq::app("C31.AIntersection", &[coq_ast(x), coq_ast(y)]),
        A::Diff(x, y) => coq::app("C31.ADifference", &[coq_ast(x), coq_ast(y)]),
        A::Union(v) => coq::app("C31.AUnionAll", &[coq::list(v.iter(), coq_ast)]),
    }
}

fn has_op(a: &A) -> bool {
    !matches!(a, A::None | A::All | A::Pat(..))
}

/// (prefix_mode, icase, glob text, single-pattern matcher)
struct GlobInfo {
    prefix_mode: bool,
    icase: bool,
    text: String,
    single: GlobsMatcher,
}

fn coq_pattern(p: &FilePattern, icase: bool, globs: &mut Vec<GlobInfo>) -> String {
    match p {
        FilePattern::FilePath(path) => coq::app(
            "C31.FilePath",
            &[coq::bytes(path.as_internal_file_string().as_bytes())],
        ),
        FilePattern::PrefixPath(path) => coq::app(
            "C31.PrefixPath",
            &[coq::bytes(path.as_internal_file_string().as_bytes())],
        ),
        FilePattern::FileGlob { dir, pattern } | FilePattern::PrefixGlob { dir, pattern } => {
            let prefix_mode = matches!(p, FilePattern::PrefixGlob { .. });
            let text = pattern.glob().to_string();
            if !globs
                .iter()
                .any(|g| g.prefix_mode == prefix_mode && g.icase == icase && g.text == text)
            {
                let mut b = GlobsMatcher::builder().prefix_paths(prefix_mode);
                b.add(RepoPath::root(), pattern);
                globs.push(GlobInfo {
                    prefix_mode,
                    icase,
                    text: text.clone(),
                    single: b.build(),
                });
            }
            coq::app(
                if prefix_mode { "C31.PrefixGlob" } else { "C31.FileGlob" },
                &[
                    coq::bytes(dir.as_internal_file_string().as_bytes()),
                    coq::b(icase),
                    coq::bytes(text.as_bytes()),
                ],
            )
        }
    }
}

/// The resolved expression as a Coq term. Whether a glob is case-insensitive is not
/// observable on `globset::Glob`, so it is taken from the pattern kind of the corresponding
/// leaf of the generated tree (the two trees are walked in parallel).
fn coq_expr(a: Option<&A>, e: &FilesetExpression, globs: &mut Vec<GlobInfo>) -> String {
    match e {
        FilesetExpression::None => "C31.ENone".into(),
        FilesetExpression::All => "C31.EAll".into(),
        FilesetExpression::Pattern(p) => {
            let icase = match a {
                Some(A::Pat(k, _)) => KINDS[*k].4,
                _ => false,
            };
            coq::app("C31.EPattern", &[coq_pattern(p, icase, globs)])
        }
        FilesetExpression::UnionAll(v) => {
            let subs: Vec<Option<&A>> = match a {
                Some(A::Union(w)) if w.len() == v.len() => w.iter().map(Some).collect(),
                _ => vec![None; v.len()],
            };
            let items: Vec<String> = v
                .iter()
                .zip(subs)
                .map(|(x, ax)| coq_expr(ax, x, globs))
                .collect();
            coq::app("C31.EUnionAll", &[coq::list(items.iter(), |t| t.clone())])
        }
        FilesetExpression::Intersection(x, y) => {
            let (ax, ay) = match a {
                Some(A::Inter(ax, ay)) => (Some(&**ax), Some(&**ay)),
                _ => (None, None),
            };
            coq::app("C31.EIntersection", &[coq_expr(ax, x, globs), coq_expr(ay, y, globs)])
        }
        FilesetExpression::Difference(x, y) => {
            let (ax, ay) = match a {
                Some(A::Diff(ax, ay)) => (Some(&**ax), Some(&**ay)),
                Some(A::Neg(ay)) => (None, Some(&**ay)),
                _ => (None, None),
            };
            coq::app("C31.EDifference", &[coq_expr(ax, x, globs), coq_expr(ay, y, globs)])
        }
    }
}

fn rp(p: &[&str]) -> RepoPathBuf {
    RepoPathBuf::from_internal_string(p.join("/")).unwrap()
}

fn coq_rpath(p: &[&str]) -> String {
    coq::list(p.iter(), |c| coq::bytes(c.as_bytes()))
}

fn main() {
    jjv::run("C31", "C31", |ctx| {
        // bad glob texts: verified against the real compiler where it can be asked directly
        let mut bad: Vec<(bool, String)> = vec![];
        for part in BAD_GLOB_PARTS {
            if part.contains("..") {
                continue; // rejected as a path component, not as a glob
            }
            for icase in [false, true] {
                let r = if icase {
                    FilePattern::root_file_glob_i(part)
                } else {
                    FilePattern::root_file_glob(part)
                };
                assert!(r.is_err(), "glob {part} expected to be rejected");
                bad.push((icase, part.to_string()));
                // with a literal directory in front, the case-insensitive split keeps it
                bad.push((true, format!("a/{part}")));
                bad.push((true, format!("a/b/{part}")));
                bad.push((true, format!("b/{part}")));
                bad.push((true, format!("A/{part}")));
            }
        }
        bad.sort();
        bad.dedup();
        for i in ctx.indices() {
            let mut rng = ctx.rng(i);
            let base = "/w";
            let cwd = *rng.pick(&["/w", "/w", "/w/a", "/w/a/b", "/", "/x", "/w/b"]);
            let depth = if rng.chance(1, 6) { 0 } else { 1 + rng.usize(3) };
            let ast = gen_ast(&mut rng, depth, cwd);
            let text = print(&ast, &mut rng);
            let converter = RepoPathUiConverter::Fs {
                cwd: PathBuf::from(cwd),
                base: PathBuf::from(base),
            };
            let aliases = FilesetAliasesMap::new();
            let context = FilesetParseContext {
                aliases_map: &aliases,
                path_converter: &converter,
            };
            let mut panicked = false;
            let parsed = jjv::catch(|| {
                let mut diagnostics = FilesetDiagnostics::new();
                fileset::parse(&mut diagnostics, &text, &context).ok()
            });
            let parsed = match parsed {
                Some(p) => p,
                None => {
                    panicked = true;
                    None
                }
            };
            // query paths
            let mut queries: Vec<Vec<&str>> = vec![vec![]];
            for _ in 0..(3 + rng.usize(3)) {
                let k = 1 + rng.usize(3);
                queries.push((0..k).map(|_| *rng.pick(NAMES)).collect());
            }
            const LIKELY: &[&[&str]] = &[
                &["a"], &["a", "b"], &["a", "b", "c"], &["b"], &["b", "c"], &["c"], &["a", "a.c"],
                &["a", "b", "a.c"], &["A", "b"], &["a", "B"], &["a", "c"], &["ab"], &["a.c"],
            ];
            for q in LIKELY {
                if rng.chance(3, 5) {
                    queries.push(q.to_vec());
                }
            }
            queries.sort();
            queries.dedup();
            let mut globs: Vec<GlobInfo> = vec![];
            let mut match_terms = vec![];
            let mut n_match = 0;
            let resolved_term = match &parsed {
                None => "None".to_string(),
                Some(e) => {
                    let t = coq_expr(Some(&ast), e, &mut globs);
                    match jjv::catch(|| e.to_matcher()) {
                        Some(m) => {
                            for q in &queries {
                                match jjv::catch(|| m.matches(&rp(q))) {
                                    Some(b) => {
                                        n_match += b as usize;
                                        match_terms.push(coq::pair(
                                            coq::bytes(q.join("/").as_bytes()),
                                            coq::b(b),
                                        ));
                                    }
                                    None => panicked = true,
                                }
                            }
                        }
                        None => panicked = true,
                    }
                    format!("(Some {t})")
                }
            };
            // glob oracle on every contiguous sub-range of every query path
            let mut tails: Vec<Vec<&str>> = vec![vec![]];
            for q in &queries {
                for a in 0..q.len() {
                    for b in (a + 1)..=q.len() {
                        tails.push(q[a..b].to_vec());
                    }
                }
            }
            tails.sort();
            tails.dedup();
            let mut glob_terms = vec![];
            for g in &globs {
                for t in &tails {
                    let verdict = if g.prefix_mode {
                        g.single.visit(&rp(t)) == Visit::AllRecursively
                    } else {
                        !t.is_empty() && g.single.matches(&rp(t))
                    };
                    if verdict {
                        glob_terms.push(format!(
                            "({}, ({}, {}), {})",
                            coq::b(g.prefix_mode),
                            coq::b(g.icase),
                            coq::bytes(g.text.as_bytes()),
                            coq_rpath(t)
                        ));
                    }
                }
            }
            if panicked {
                ctx.panicked();
            }
            let term = coq::app(
                "C31.mk_case",
                &[
                    coq::bytes(cwd.as_bytes()),
                    coq::bytes(base.as_bytes()),
                    coq_ast(&ast),
                    coq::list(
                        bad.iter().filter(|_| text.contains('[') || text.contains("{a'")),
                        |(ic, t)| coq::pair(coq::b(*ic), coq::bytes(t.as_bytes())),
                    ),
                    resolved_term,
                    coq::list(glob_terms.iter(), |t| t.clone()),
                    coq::list(match_terms.iter(), |t| t.clone()),
                    coq::b(panicked),
                ],
            );
            let shape = format!(
                "cwd={} depth={} {} globs={}",
                match cwd {
                    "/w" => "base",
                    "/" | "/x" => "outside",
                    _ => "below",
                },
                if depth == 0 { "0" } else { "1-3" },
                if parsed.is_some() { "ok" } else { "error" },
                globs.len().min(2)
            );
            let nontrivial = parsed.is_some()
                && has_op(&ast)
                && n_match > 0
                && n_match < match_terms.len();
            ctx.emit(i, term, nontrivial, &shape);
        }
    });
}
