//! C23: real snapshots of a real directory after random edits, compared path by path.
//!
//! A "history" is one TreeState over one directory: an initial checkout (files, exec bits,
//! symlinks, sometimes a submodule entry and sparse patterns), then several rounds of random
//! disk edits each followed by a snapshot. Every round is one case: inputs = the disk listing,
//! the file states and the flattened tree BEFORE the snapshot, sparse / auto-track patterns,
//! max new file size, the ignore decisions of the real GitIgnoreFile chain for every disk path;
//! outputs = the flattened tree and the file-state keys AFTER the snapshot.
use std::collections::BTreeMap;
use std::collections::BTreeSet;
use std::collections::HashMap;
use std::fs;
use std::os::unix::fs::PermissionsExt as _;
use std::path::Path;
use std::path::PathBuf;
use std::sync::Arc;
use std::time::Duration;
use std::time::SystemTime;

use jj_lib::backend::CommitId;
use jj_lib::backend::TreeValue;
use jj_lib::gitignore::GitIgnoreFile;
use jj_lib::local_working_copy::EolConversionMode;
use jj_lib::local_working_copy::ExecChangeSetting;
use jj_lib::local_working_copy::FileType;
use jj_lib::local_working_copy::TreeState;
use jj_lib::local_working_copy::TreeStateSettings;
use jj_lib::matchers::EverythingMatcher;
use jj_lib::matchers::Matcher;
use jj_lib::matchers::NothingMatcher;
use jj_lib::matchers::PrefixMatcher;
use jj_lib::merged_tree::MergedTree;
use jj_lib::repo::Repo as _;
use jj_lib::repo_path::RepoPathBuf;
use jj_lib::store::Store;
use jj_lib::working_copy::SnapshotOptions;
use jjv::Rng;
use jjv::coq;
use pollster::FutureExt as _;
use testutils::TestRepo;
use testutils::TestTreeBuilder;

fn settings() -> TreeStateSettings {
    TreeStateSettings {
        conflict_marker_style: jj_lib::conflicts::ConflictMarkerStyle::Diff,
        eol_conversion_mode: EolConversionMode::None,
        exec_change_setting: ExecChangeSetting::Respect,
        fsmonitor_settings: jj_lib::fsmonitor::FsmonitorSettings::None,
    }
}

/// Content / symlink-target interning: bytes -> small number (order of first appearance).
#[derive(Default)]
struct Intern(HashMap<Vec<u8>, u64>);
impl Intern {
    fn id(&mut self, b: &[u8]) -> u64 {
        let n = self.0.len() as u64 + 1;
        *self.0.entry(b.to_vec()).or_insert(n)
    }
}

const DIRS: &[&str] = &["a", "b", "d"];
const FILES: &[&str] = &["f", "g", "x.o", "keep.o", "big"];
const IGNORES: &[&str] = &[
    "*.o\n", "*.o\n!keep.o\n", "b/\n", "/f\n", "d\n", "a/b/\n", "g\n", "*\n!*/\n!f\n", "b\n!b/f\n",
    "/a/\n", "",
];

/// Permission modes for files the edits create or chmod. jj's rule (ExecBit::new_from_disk):
/// executable iff ANY of the three x bits is set — the pool has modes whose only x bits are
/// group/other (0654, 0645, 0611, 0655, 0676, 0667) and owner-only ones (0744, 0700).
const MODES: &[u32] = &[
    0o644, 0o755, 0o744, 0o654, 0o645, 0o611, 0o700, 0o600, 0o655, 0o666, 0o676, 0o667, 0o711, 0o640,
];

/// Mostly plain 0644, otherwise any mode of the pool.
fn new_file_mode(rng: &mut Rng) -> u32 {
    if rng.chance(2, 3) { 0o644 } else { *rng.pick(MODES) }
}

fn rel_path(rng: &mut Rng, depth_max: u64) -> Vec<&'static str> {
    let mut v = vec![];
    for _ in 0..rng.below(depth_max + 1) {
        v.push(*rng.pick(DIRS));
    }
    v
}

fn join(root: &Path, comps: &[&str]) -> PathBuf {
    let mut p = root.to_path_buf();
    for c in comps {
        p.push(c);
    }
    p
}

fn remove_any(p: &Path) {
    if let Ok(md) = p.symlink_metadata() {
        if md.is_dir() {
            let _ = fs::remove_dir_all(p);
        } else {
            let _ = fs::remove_file(p);
        }
    }
}

/// Makes `p`'s parent chain real directories (replacing files/symlinks in the way).
fn make_parents(root: &Path, comps: &[&str]) {
    let mut p = root.to_path_buf();
    for c in &comps[..comps.len().saturating_sub(1)] {
        p.push(c);
        match p.symlink_metadata() {
            Ok(md) if md.is_dir() => {}
            Ok(_) => {
                let _ = fs::remove_file(&p);
                fs::create_dir(&p).unwrap();
            }
            Err(_) => fs::create_dir(&p).unwrap(),
        }
    }
}

struct Hist {
    wc: PathBuf,
    clock: u64,
    touched: BTreeSet<String>,
}

impl Hist {
    fn touch(&mut self, comps: &[&str]) {
        self.touched.insert(comps.join("/"));
    }
    fn bump_mtime(&mut self, p: &Path) {
        // a strictly newer mtime for every modification, far from the real clock
        self.clock += 1;
        let t = SystemTime::now() + Duration::from_secs(3600 + self.clock * 10);
        if let Ok(f) = fs::File::options().write(true).open(p) {
            let _ = f.set_modified(t);
        }
    }
    /// `mode` is set explicitly after creation (independent of the umask).
    fn write_file(&mut self, comps: &[&str], content: &[u8], mode: u32) {
        make_parents(&self.wc.clone(), comps);
        let p = join(&self.wc, comps);
        remove_any(&p);
        fs::write(&p, content).unwrap();
        fs::set_permissions(&p, fs::Permissions::from_mode(mode)).unwrap();
        self.bump_mtime(&p);
        self.touch(comps);
    }
    fn write_symlink(&mut self, comps: &[&str], target: &str) {
        make_parents(&self.wc.clone(), comps);
        let p = join(&self.wc, comps);
        remove_any(&p);
        std::os::unix::fs::symlink(target, &p).unwrap();
        self.touch(comps);
    }
}

fn existing_paths(root: &Path) -> (Vec<Vec<String>>, Vec<Vec<String>>) {
    // (non-directories, directories), relative components, sorted
    fn go(dir: &Path, rel: &mut Vec<String>, files: &mut Vec<Vec<String>>, dirs: &mut Vec<Vec<String>>) {
        let mut names: Vec<_> = fs::read_dir(dir).unwrap().map(|e| e.unwrap().file_name().into_string().unwrap()).collect();
        names.sort();
        for n in names {
            if rel.is_empty() && n == ".jj" {
                continue; // the workspace's own state directory is not edited
            }
            let p = dir.join(&n);
            rel.push(n);
            if p.symlink_metadata().unwrap().is_dir() {
                dirs.push(rel.clone());
                go(&p, rel, files, dirs);
            } else {
                files.push(rel.clone());
            }
            rel.pop();
        }
    }
    let (mut files, mut dirs) = (vec![], vec![]);
    go(root, &mut vec![], &mut files, &mut dirs);
    (files, dirs)
}

fn random_edit(h: &mut Hist, rng: &mut Rng) -> &'static str {
    let (files, dirs) = existing_paths(&h.wc);
    let as_refs = |v: &Vec<String>| -> Vec<&'static str> {
        v.iter().map(|s| -> &'static str { Box::leak(s.clone().into_boxed_str()) }).collect()
    };
    match rng.below(19) {
        0 | 1 | 2 => {
            // new or overwritten file somewhere
            let mut comps = rel_path(rng, 2);
            let name = *rng.pick(FILES);
            comps.push(name);
            // "big": 20, 21 or 30 bytes (max_new_file_size is 20 in a quarter of the histories)
            let content = if name == "big" {
                format!("c{:02}{}", rng.below(4), "x".repeat(*rng.pick(&[17usize, 18, 27])))
            } else {
                format!("c{:02}", rng.below(6))
            };
            { let mode = new_file_mode(rng); h.write_file(&comps, content.as_bytes(), mode); }
            "write"
        }
        3 | 4 => {
            // same-size modification of an existing regular file
            let regular: Vec<Vec<String>> = files.iter().filter(|f| join(&h.wc, &as_refs(f)).symlink_metadata().unwrap().is_file()).cloned().collect();
            if regular.is_empty() {
                return "noop";
            }
            let f = as_refs(rng.pick(&regular));
            let p = join(&h.wc, &f);
            let old = fs::read(&p).unwrap();
            if old.len() < 3 || f.last() == Some(&".gitignore") {
                return "noop";
            }
            let mut new = old.clone();
            new[1] = b'0' + ((old[1].wrapping_sub(b'0') % 6 + 1 + rng.below(3) as u8) % 6);
            new[2] = b'0' + rng.below(10) as u8;
            // replaced in place: keep the mode, or draw a new one
            let old_mode = p.metadata().unwrap().permissions().mode() & 0o777;
            let mode = if rng.chance(3, 4) { old_mode } else { *rng.pick(MODES) };
            h.write_file(&f, &new, mode);
            "modify same size"
        }
        5 | 17 | 18 => {
            let regular: Vec<Vec<String>> = files.iter().filter(|f| join(&h.wc, &as_refs(f)).symlink_metadata().unwrap().is_file()).cloned().collect();
            if regular.is_empty() {
                return "noop";
            }
            let f = as_refs(rng.pick(&regular));
            let p = join(&h.wc, &f);
            // mode-only change of an existing file (content and mtime untouched)
            let old_mode = p.metadata().unwrap().permissions().mode() & 0o777;
            let mut mode = *rng.pick(MODES);
            if mode == old_mode {
                mode = if old_mode & 0o111 != 0 { 0o644 } else { 0o654 };
            }
            fs::set_permissions(&p, fs::Permissions::from_mode(mode)).unwrap();
            h.touch(&f);
            "chmod"
        }
        6 => {
            let mut comps = rel_path(rng, 2);
            comps.push(*rng.pick(&["f", "g", "l"]));
            h.write_symlink(&comps, &format!("t{:02}", rng.below(4)));
            "symlink"
        }
        7 | 8 => {
            if files.is_empty() {
                return "noop";
            }
            let f = as_refs(rng.pick(&files));
            remove_any(&join(&h.wc, &f));
            h.touch(&f);
            "delete file"
        }
        9 => {
            if dirs.is_empty() {
                return "noop";
            }
            let d = as_refs(rng.pick(&dirs));
            remove_any(&join(&h.wc, &d));
            if rng.chance(1, 2) {
                // directory -> file
                { let mode = new_file_mode(rng); h.write_file(&d, format!("c{:02}", rng.below(6)).as_bytes(), mode); }
                "dir -> file"
            } else {
                "delete dir"
            }
        }
        10 => {
            // file -> directory with a file inside
            if files.is_empty() {
                return "noop";
            }
            let mut f = as_refs(rng.pick(&files));
            if f.last() == Some(&".gitignore") {
                return "noop";
            }
            remove_any(&join(&h.wc, &f));
            h.touch(&f);
            f.push(*rng.pick(FILES));
            { let mode = new_file_mode(rng); h.write_file(&f, format!("c{:02}", rng.below(6)).as_bytes(), mode); }
            "file -> dir"
        }
        11 | 12 => {
            let mut comps = rel_path(rng, 2);
            comps.push(".gitignore");
            let text = *rng.pick(IGNORES);
            h.write_file(&comps, text.as_bytes(), 0o644);
            "gitignore"
        }
        13 => {
            // nested repo marker (directory or plain file named .git / .jj), or its removal
            let mut comps = rel_path(rng, 2);
            if comps.is_empty() {
                comps.push(*rng.pick(DIRS));
            }
            comps.push(*rng.pick(&[".git", ".jj"]));
            let p = join(&h.wc, &comps);
            if p.symlink_metadata().is_ok() {
                remove_any(&p);
                "remove nested repo marker"
            } else {
                make_parents(&h.wc.clone(), &comps);
                if rng.chance(1, 2) {
                    fs::create_dir(&p).unwrap();
                    fs::write(p.join("HEAD"), b"x").unwrap();
                } else {
                    fs::write(&p, b"gitdir: elsewhere").unwrap();
                }
                "nested repo marker"
            }
        }
        14 => {
            // special file (unix socket) possibly over an existing file
            let mut comps = rel_path(rng, 1);
            comps.push(*rng.pick(&["f", "s"]));
            make_parents(&h.wc.clone(), &comps);
            let p = join(&h.wc, &comps);
            remove_any(&p);
            if std::os::unix::net::UnixListener::bind(&p).is_ok() {
                h.touch(&comps);
                "special file"
            } else {
                "noop"
            }
        }
        15 if rng.chance(1, 2) => {
            // something at the (possible) submodule path
            if rng.chance(1, 2) {
                remove_any(&join(&h.wc, &["sm"]));
                h.touch(&["sm"]);
                h.write_file(&["sm", "f"], b"c01", 0o644);
            } else {
                h.write_file(&["sm"], b"c02", 0o644);
            }
            "at submodule path"
        }
        _ => {
            // new empty directory
            let mut comps = rel_path(rng, 1);
            comps.push(*rng.pick(DIRS));
            make_parents(&h.wc.clone(), &comps);
            let p = join(&h.wc, &comps);
            if p.symlink_metadata().is_err() {
                fs::create_dir(&p).unwrap();
            }
            "mkdir"
        }
    }
}

/// Does the tree (outside .jj) hold a regular file that is executable through its group/other
/// bits only? (Such a file distinguishes jj's any-x-bit rule from an owner-bit test.)
fn has_go_only_exec(dir: &Path, top: bool) -> bool {
    for e in fs::read_dir(dir).unwrap() {
        let e = e.unwrap();
        if top && e.file_name() == ".jj" {
            continue;
        }
        let md = e.path().symlink_metadata().unwrap();
        if md.is_dir() {
            if has_go_only_exec(&e.path(), false) {
                return true;
            }
        } else if md.is_file() {
            let m = md.permissions().mode();
            if m & 0o100 == 0 && m & 0o011 != 0 {
                return true;
            }
        }
    }
    false
}

fn qpath(comps: &[String]) -> String {
    format!("(P \"{}\")", comps.join("/"))
}

/// Disk listing as a Coq `dnode`, plus the ignore decisions of the real chain.
fn list_disk(
    dir: &Path,
    rel: &mut Vec<String>,
    chain: &Arc<GitIgnoreFile>,
    intern: &mut Intern,
    ign_file: &mut Vec<String>,
    ign_dir: &mut Vec<String>,
) -> String {
    let repo_dir = RepoPathBuf::from_internal_string(rel.join("/")).unwrap();
    let chain = chain
        .chain_with_file(&repo_dir, dir.join(".gitignore"))
        .unwrap();
    let mut names: Vec<_> = fs::read_dir(dir)
        .unwrap()
        .map(|e| e.unwrap().file_name().into_string().unwrap())
        .collect();
    names.sort();
    let mut entries = vec![];
    for n in names {
        let p = dir.join(&n);
        let md = p.symlink_metadata().unwrap();
        rel.push(n.clone());
        let repo_path = RepoPathBuf::from_internal_string(rel.join("/")).unwrap();
        let node = if md.is_dir() {
            if chain.matches_dir(&repo_path) {
                ign_dir.push(qpath(rel));
            }
            list_disk(&p, rel, &chain, intern, ign_file, ign_dir)
        } else {
            if chain.matches_file(&repo_path) {
                ign_file.push(qpath(rel));
            }
            if md.file_type().is_symlink() {
                let target = fs::read_link(&p).unwrap();
                let t = intern.id(target.to_str().unwrap().as_bytes());
                format!("(DSymlink {t} {})", md.len())
            } else if md.is_file() {
                let c = intern.id(&fs::read(&p).unwrap());
                let exec = md.permissions().mode() & 0o111 != 0;
                format!("(DFile {c} {} {})", coq::b(exec), md.len())
            } else {
                "DSpecial".to_string()
            }
        };
        rel.pop();
        entries.push(format!("E \"{n}\" {node}"));
    }
    format!("(DDir [{}])", entries.join("; "))
}

fn flatten_tree(store: &Arc<Store>, tree: &MergedTree, intern: &mut Intern) -> Vec<(String, String)> {
    let mut out = vec![];
    for (path, value) in tree.entries() {
        let value = value.unwrap();
        let v = match value.into_resolved() {
            Ok(Some(TreeValue::File { id, executable, .. })) => {
                let bytes = testutils::read_file(store, &path, &id);
                format!("(TFile {} {})", intern.id(&bytes), coq::b(executable))
            }
            Ok(Some(TreeValue::Symlink(id))) => {
                let t = store.read_symlink(&path, &id).block_on().unwrap();
                format!("(TSymlink {})", intern.id(t.as_bytes()))
            }
            Ok(Some(TreeValue::GitSubmodule(_))) => "TSubmodule".to_string(),
            other => panic!("unexpected tree value {other:?}"),
        };
        out.push((format!("(P \"{}\")", path.as_internal_file_string()), v));
    }
    out
}

fn prefix_list(pats: &[&str]) -> Vec<RepoPathBuf> {
    pats.iter()
        .map(|p| RepoPathBuf::from_internal_string(*p).unwrap())
        .collect()
}

fn main() {
    jjv::run("C23", "C23", |ctx| {
        unsafe { std::env::set_var("TMPDIR", &ctx.scratch) };
        if std::env::var_os("VERIF_DEBUG").is_some() {
            std::panic::set_hook(Box::new(|info| eprintln!("panic: {info}\n{}", std::backtrace::Backtrace::force_capture())));
        }
        let test_repo = TestRepo::init();
        let store = test_repo.repo.store().clone();
        const ROUNDS: usize = 4;
        // case index i = history * ROUNDS + round; a replayed index re-runs its whole history
        let indices = ctx.indices();
        let histories: BTreeSet<usize> = indices.iter().map(|i| i / ROUNDS).collect();
        let wanted: BTreeSet<usize> = indices.iter().copied().collect();
        for hidx in histories {
            let mut rng = ctx.rng(hidx);
            let dir = ctx.scratch.join(format!("h{hidx}"));
            let wc = dir.join("wc");
            let state = wc.join(".jj").join("working_copy"); // as in a real workspace
            fs::create_dir_all(&wc).unwrap();
            fs::create_dir_all(&state).unwrap();
            let mut intern = Intern::default();
            let mut ts = TreeState::init(store.clone(), wc.clone(), state.clone(), &settings()).unwrap();
            let mut h = Hist { wc: wc.clone(), clock: 0, touched: BTreeSet::new() };

            // initial checkout
            let mut tb = TestTreeBuilder::new(store.clone());
            let mut used: BTreeMap<String, ()> = BTreeMap::new();
            if hidx == 0 {
                // corpus history (index 0): tracked files below a directory that round 0 will
                // ignore; see the scripted edits of round 0 below
                for (p, c) in [("b/d/f", "c01"), ("b/d/a/g", "c02"), ("b/g", "c03"), ("f", "c04")] {
                    tb.file(&RepoPathBuf::from_internal_string(p).unwrap(), c);
                }
            }
            for _ in 0..(if hidx == 0 { 0 } else { rng.below(7) }) {
                let mut comps = rel_path(&mut rng, 2);
                comps.push(*rng.pick(FILES));
                let s = comps.join("/");
                // keep the initial tree prefix-free
                if used.keys().any(|k| k.starts_with(&format!("{s}/")) || s.starts_with(&format!("{k}/")) || *k == s) {
                    continue;
                }
                used.insert(s.clone(), ());
                let path = RepoPathBuf::from_internal_string(s).unwrap();
                match rng.below(8) {
                    0 => tb.symlink(&path, &format!("t{:02}", rng.below(4))),
                    _ => {
                        tb.file(&path, format!("c{:02}", rng.below(6))).executable(rng.chance(1, 6));
                    }
                }
            }
            if hidx != 0 && rng.chance(1, 8) {
                // a submodule entry, only at the top level (jj does not support submodules; a
                // regular file above a submodule path trips a debug assertion in snapshot())
                let path = RepoPathBuf::from_internal_string("sm").unwrap();
                tb.submodule(&path, CommitId::from_hex("1111111111111111111111111111111111111111"));
            }
            let tree0 = tb.write_merged_tree();
            if ts.check_out(&tree0).is_err() {
                ctx.count("initial checkout failed");
                continue;
            }
            let sparse: &[&str] = match if hidx == 0 { 9 } else { rng.below(10) } {
                0 => &["a"],
                1 => &["a", "b/d"],
                2 => &["a/f", "b"],
                _ => &[""],
            };
            if !(sparse.len() == 1 && sparse[0].is_empty()) && ts.set_sparse_patterns(prefix_list(sparse)).is_err() {
                ctx.count("set_sparse_patterns failed");
                continue;
            }
            let auto: &[&str] = match if hidx == 0 { 9 } else { rng.below(10) } {
                0 => &["a"],
                1 => &[],
                _ => &[""],
            };
            let max_size: u64 = if rng.chance(1, 4) { 20 } else { u64::MAX };

            for round in 0..ROUNDS {
                let i = hidx * ROUNDS + round;
                h.touched.clear();
                let mut kinds = vec![];
                if i == 0 {
                    // corpus case (was a defect, fixed in /repo: "a tracked file below a directory
                    // replaced by a file is deleted, not an error"): b/ becomes ignored, its
                    // subdirectory b/d is replaced by a regular file; b/d/f and b/d/a/g must be
                    // recorded as deleted, b/g stays, the new file b/d is ignored (untracked).
                    h.write_file(&[".gitignore"], b"b/\n", 0o644);
                    remove_any(&join(&h.wc, &["b", "d"]));
                    h.write_file(&["b", "d"], b"c05", 0o644);
                    kinds.push("corpus: dir -> file below ignored dir");
                } else if hidx == 0 {
                    // corpus cases (indices 1..3): the executable flag follows ANY x bit. `f` is
                    // tracked and visited by the directory scan, `b/g` is tracked below the
                    // ignored directory b/ (visit_tracked_files). Contents and mtimes stay.
                    let (mode_f, mode_g) = match round {
                        1 => (0o654, 0o755), // f: 0644 -> g+x only: executable; b/g: executable
                        2 => (0o611, 0o655), // f: go+x only; b/g: u-x but go+x: still executable
                        _ => (0o600, 0o644), // both: no x bit left: not executable
                    };
                    for (comps, mode) in [(&["f"][..], mode_f), (&["b", "g"][..], mode_g)] {
                        let p = join(&h.wc, comps);
                        fs::set_permissions(&p, fs::Permissions::from_mode(mode)).unwrap();
                        h.touch(comps);
                    }
                    kinds.push("corpus: chmod group/other x bits");
                } else {
                    for _ in 0..rng.range(1, 5) {
                        kinds.push(random_edit(&mut h, &mut rng));
                    }
                }
                // inputs
                let mut ign_file = vec![];
                let mut ign_dir = vec![];
                let disk = list_disk(&wc, &mut vec![], &GitIgnoreFile::empty(), &mut intern, &mut ign_file, &mut ign_dir);
                let tracked: Vec<String> = ts
                    .file_states()
                    .iter()
                    .map(|(p, s)| {
                        let ps = p.as_internal_file_string().to_string();
                        let sub = s.file_type == FileType::GitSubmodule;
                        let clean = !h.touched.contains(&ps);
                        format!("((P \"{ps}\"), mk_tstate {} {})", coq::b(sub), coq::b(clean))
                    })
                    .collect();
                let old = flatten_tree(&store, ts.current_tree(), &mut intern);
                // the real snapshot
                let auto_matcher: Box<dyn Matcher> = match auto {
                    [""] => Box::new(EverythingMatcher),
                    [] => Box::new(NothingMatcher),
                    pats => Box::new(PrefixMatcher::new(prefix_list(pats))),
                };
                let opts = SnapshotOptions {
                    base_ignores: GitIgnoreFile::empty(),
                    progress: None,
                    start_tracking_matcher: auto_matcher.as_ref(),
                    force_tracking_matcher: &NothingMatcher,
                    max_new_file_size: max_size,
                };
                let res = jjv::catch(|| ts.snapshot(&opts).block_on().map(|_| ()).map_err(|e| format!("{e:?}")));
                let (new_tree, new_tracked, failed) = match res {
                    Some(Ok(())) => {
                        let t = flatten_tree(&store, ts.current_tree(), &mut intern);
                        let k: Vec<String> = ts.file_states().paths().map(|p| format!("(P \"{}\")", p.as_internal_file_string())).collect();
                        (t, k, false)
                    }
                    Some(Err(e)) => {
                        ctx.note(format!("case {i}: snapshot error: {}", &e[..e.len().min(300)]));
                        (vec![], vec![], true)
                    }
                    None => {
                        ctx.panicked();
                        (vec![], vec![], true)
                    }
                };
                if wanted.contains(&i) {
                    let cfg = format!(
                        "(mk_cfg {} {} {} {} {} {} {})",
                        coq::list(sparse.iter(), |p| format!("(P \"{p}\")")),
                        coq::list(auto.iter(), |p| format!("(P \"{p}\")")),
                        max_size,
                        coq::list(ign_file.iter(), |p| p.clone()),
                        coq::list(ign_dir.iter(), |p| p.clone()),
                        coq::list(tracked.iter(), |p| p.clone()),
                        coq::list(old.iter(), |(p, v)| format!("({p}, {v})")),
                    );
                    let term = coq::app(
                        "C23.mk_case",
                        &[
                            cfg,
                            disk,
                            coq::list(new_tree.iter(), |(p, v)| format!("({p}, {v})")),
                            coq::list(new_tracked.iter(), |p| p.clone()),
                            coq::b(failed),
                        ],
                    );
                    if has_go_only_exec(&wc, true) {
                        ctx.count("disk has a file executable via group/other bits only");
                    }
                    kinds.sort();
                    kinds.dedup();
                    for k in &kinds {
                        ctx.count(&format!("edit: {k}"));
                    }
                    let changed = new_tree != old;
                    let shape = format!(
                        "sparse={} auto={} max={} {}",
                        if sparse.len() == 1 && sparse[0].is_empty() { "all" } else { "some" },
                        match auto { [""] => "all", [] => "none", _ => "some" },
                        if max_size == u64::MAX { "inf" } else { "20" },
                        if failed { "FAILED" } else if changed { "tree changed" } else { "tree same" },
                    );
                    ctx.emit(i, term, changed, &shape);
                }
                if failed {
                    break;
                }
            }
            let _ = fs::remove_dir_all(&dir);
        }
    });
}
