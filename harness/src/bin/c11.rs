//! C11: random DAGs with bookmarks and workspaces, then one transaction that records random
//! rewrites / abandons / divergent rewrites (including rewrites whose replacement is itself
//! rewritten or sits on a rewritten parent) and calls rebase_descendants_with_options with random
//! options and immutable sets. Case 0 is the F5 witness.
#[path = "../viewdrv.rs"]
mod viewdrv;

use jjv::coq;
use viewdrv::Driver;
use viewdrv::Op;
use viewdrv::Opts;
use viewdrv::Outcome;

fn descendants(parents: &[Vec<usize>], x: usize) -> Vec<bool> {
    let mut d = vec![false; parents.len()];
    d[x] = true;
    for i in x + 1..parents.len() {
        if parents[i].iter().any(|p| d[*p]) {
            d[i] = true;
        }
    }
    d
}

fn ancestors(parents: &[Vec<usize>], x: usize) -> Vec<usize> {
    let mut m = vec![false; parents.len()];
    m[x] = true;
    for i in (0..=x).rev() {
        if m[i] {
            for p in &parents[i] {
                m[*p] = true;
            }
        }
    }
    (0..parents.len()).filter(|i| m[*i]).collect()
}

fn default_opts() -> Opts {
    Opts { imm: vec![], empty: 0, delete_abandoned: false, simplify: false, oracle: vec![] }
}

fn new(ps: &[usize], desc: u64) -> Op {
    Op::New { ps: ps.to_vec(), desc, empty: false }
}

/// Hand-written cases, always run first. Commit numbering: creation order, root = 0.
fn corpus() -> Vec<Vec<Op>> {
    let rw = |old: usize, desc: u64| Op::Rewrite { old, ps: None, desc };
    vec![
        // 0: F5. A<-F<-M<-X; rewrite A->A', rewrite F->F' (still on old A), abandon M.
        vec![
            new(&[0], 1), new(&[1], 2), new(&[2], 3), new(&[3], 4), Op::Commit,
            rw(1, 5), rw(2, 6), Op::Abandon(3), Op::Rebase(default_opts()), Op::Commit,
        ],
        // 1: plain rewrite with a chain and a side branch of descendants
        vec![
            new(&[0], 1), new(&[1], 2), new(&[2], 3), new(&[1], 4), Op::Commit,
            rw(1, 5), Op::Rebase(default_opts()), Op::Commit,
        ],
        // 2: abandoned merge commit with a bookmark, a workspace and a child
        vec![
            new(&[0], 1), new(&[0], 2), new(&[1, 2], 3), new(&[3], 4),
            Op::SetBookmark { name: 1, target: vec![Some(3)] }, Op::Edit { ws: 1, c: 3 }, Op::Commit,
            Op::Abandon(3), Op::Rebase(default_opts()), Op::Commit,
        ],
        // 3: divergent rewrite with a bookmark, a workspace and a child (left in place)
        vec![
            new(&[0], 1), new(&[1], 2),
            Op::SetBookmark { name: 1, target: vec![Some(1)] }, Op::Edit { ws: 1, c: 1 }, Op::Commit,
            rw(1, 3), rw(1, 4), Op::Divergent(1, vec![3, 4]), Op::Rebase(default_opts()), Op::Commit,
        ],
        // 4: rewrite chain A->A'->A'' with descendants, bookmark deleted with the abandoned commit
        vec![
            new(&[0], 1), new(&[1], 2), new(&[2], 3),
            Op::SetBookmark { name: 2, target: vec![Some(2)] }, Op::Commit,
            rw(1, 4), rw(4, 5), Op::Abandon(2),
            Op::Rebase(Opts { delete_abandoned: true, ..default_opts() }), Op::Commit,
        ],
        // 5: immutable child keeps its place, its mutable sibling is rebased
        vec![
            new(&[0], 1), new(&[1], 2), new(&[2], 3), new(&[1], 4), Op::Commit,
            rw(1, 5), Op::Rebase(Opts { imm: vec![0, 1, 2], ..default_opts() }), Op::Commit,
        ],
        // 6: empty descendants under AbandonAllEmpty
        vec![
            new(&[0], 1), Op::New { ps: vec![1], desc: 2, empty: true }, new(&[2], 3), Op::Commit,
            rw(1, 4), Op::Rebase(Opts { empty: 2, ..default_opts() }), Op::Commit,
        ],
        // 7: F5 variant through two abandoned commits
        vec![
            new(&[0], 1), new(&[1], 2), new(&[2], 3), new(&[3], 4), new(&[4], 5), Op::Commit,
            rw(1, 6), rw(2, 7), Op::Abandon(3), Op::Abandon(4), Op::Rebase(default_opts()), Op::Commit,
        ],
    ]
}

fn main() {
    jjv::run("C11", "C11", |ctx| {
        unsafe { std::env::set_var("TMPDIR", &ctx.scratch) };
        if std::env::var("VERIF_DEBUG").is_ok() {
            std::panic::set_hook(Box::new(|info| eprintln!("panic: {info}")));
        }
        let corpus = corpus();
        for i in ctx.indices() {
            let mut rng = ctx.rng(i);
            let mut d = Driver::new();
            let mut outcome = Outcome::Ok;
            let mut kinds: Vec<&'static str> = vec![];
            let mut chain = false; // a replacement was itself rewritten / sits on a rewritten parent
            if i < corpus.len() {
                for op in &corpus[i] {
                    outcome = d.apply(op.clone());
                    if outcome != Outcome::Ok {
                        break;
                    }
                }
                kinds.push("corpus");
            } else {
                outcome = random_case(&mut rng, &mut d, &mut kinds, &mut chain);
            }
            if outcome == Outcome::Panic {
                ctx.panicked();
            }
            let graph = d.graph();
            let term = coq::app(
                "C11.mk_case",
                &[
                    viewdrv::ops_term(&d.ops),
                    coq::n(match outcome {
                        Outcome::Ok => 0,
                        Outcome::Err => 1,
                        Outcome::Panic => 2,
                    }),
                    coq::list(d.views.iter(), |v| v.term()),
                    coq::list(graph.iter(), |c| c.term()),
                ],
            );
            if d.untracked > 0 {
                ctx.note(format!("case {i}: {} commits appeared that the driver did not see created", d.untracked));
            }
            kinds.sort();
            kinds.dedup();
            let shape = format!(
                "out={:?} rebased={} abandoned={} chain={} div={} ab={}",
                outcome,
                d.rebased.min(3),
                d.abandoned_in_rebase.min(1),
                chain,
                kinds.contains(&"divergent"),
                kinds.contains(&"abandon"),
            );
            let nontrivial = outcome == Outcome::Ok && (d.rebased + d.abandoned_in_rebase) >= 1;
            ctx.emit(i, term, nontrivial, &shape);
        }
    });
}

fn sync_parents(d: &Driver, parents: &mut Vec<Vec<usize>>) {
    while parents.len() < d.n() {
        let c = &d.commits[parents.len()];
        let ps: Vec<usize> = c
            .parent_ids()
            .iter()
            .map(|p| d.commits.iter().position(|x| x.id() == p).unwrap())
            .collect();
        parents.push(ps);
    }
}

fn random_case(
    rng: &mut jjv::Rng,
    d: &mut Driver,
    kinds: &mut Vec<&'static str>,
    chain: &mut bool,
) -> Outcome {
    let mut parents: Vec<Vec<usize>> = vec![vec![]];
    let mut desc = 0u64;
    macro_rules! run {
        ($op:expr) => {{
            let o = d.apply($op);
            if o != Outcome::Ok {
                return o;
            }
            sync_parents(d, &mut parents);
        }};
    }
    // ---- history
    let n_commits = 2 + rng.usize(9);
    for _ in 0..n_commits {
        let n = d.n();
        let pick = |rng: &mut jjv::Rng| -> usize {
            if rng.chance(2, 3) { n - 1 - rng.usize(n.min(3)) } else { rng.usize(n) }
        };
        let mut ps = vec![pick(rng)];
        if n > 2 && rng.chance(1, 5) {
            let q = pick(rng);
            if !ps.contains(&q) {
                ps.push(q);
            }
        }
        desc += 1;
        let dsc = if rng.chance(1, 6) { 0 } else { desc };
        run!(Op::New { ps, desc: dsc, empty: rng.chance(1, 4) });
    }
    let n = d.n();
    for name in 1..=3u64 {
        if rng.chance(1, 2) {
            let target = if rng.chance(5, 6) {
                vec![Some(1 + rng.usize(n - 1))]
            } else {
                let a = 1 + rng.usize(n - 1);
                let c = 1 + rng.usize(n - 1);
                if a == c { vec![Some(a)] } else { vec![Some(a), Some(rng.usize(n)), Some(c)] }
            };
            run!(Op::SetBookmark { name, target });
        }
    }
    for ws in 1..=2u64 {
        if rng.chance(1, 2) {
            let c = 1 + rng.usize(n - 1);
            if rng.chance(2, 3) {
                run!(Op::Edit { ws, c });
            } else {
                run!(Op::CheckOut { ws, c });
            }
        }
    }
    if d.has_rewrites() {
        run!(Op::Rebase(default_opts()));
    }
    run!(Op::Commit);

    // ---- the rewriting transaction
    let n0 = d.n();
    let mut keys: Vec<usize> = vec![];
    let n_records = 1 + rng.usize(4);
    for _ in 0..n_records {
        let n = d.n();
        let view = d.current_view();
        let mut vis = vec![false; n];
        for h in &view.heads {
            for a in ancestors(&parents, *h) {
                vis[a] = true;
            }
        }
        let visible: Vec<usize> = (1..n).filter(|x| vis[*x]).collect();
        if visible.is_empty() {
            break;
        }
        // candidates related to existing keys: children / parents of keys, replacements made in this tx
        let near: Vec<usize> = visible
            .iter()
            .copied()
            .filter(|x| {
                !keys.contains(x)
                    && (parents[*x].iter().any(|p| keys.contains(p))
                        || keys.iter().any(|k| parents[*k].contains(x))
                        || *x >= n0)
            })
            .collect();
        let old = if !near.is_empty() && rng.chance(1, 2) { *rng.pick(&near) } else { *rng.pick(&visible) };
        if old >= n0 || parents[old].iter().any(|p| keys.contains(p)) {
            *chain = true;
        }
        // new parents must not descend from any commit of the same change
        let ch = d.commits[old].change_id().clone();
        let mut bad = vec![false; n];
        for x in 0..n {
            if d.commits[x].change_id() == &ch {
                for (j, b) in descendants(&parents, x).iter().enumerate() {
                    bad[j] |= *b;
                }
            }
        }
        let cands: Vec<usize> = (0..n).filter(|x| !bad[*x] && vis[*x]).collect();
        let r = rng.below(100);
        desc += 1;
        if r < 45 {
            let ps = if rng.chance(2, 3) || cands.is_empty() {
                None
            } else {
                let mut ps = vec![*rng.pick(&cands)];
                if rng.chance(1, 5) {
                    let q = *rng.pick(&cands);
                    if !ps.contains(&q) {
                        ps.push(q);
                    }
                }
                Some(ps)
            };
            kinds.push("rewrite");
            run!(Op::Rewrite { old, ps, desc });
        } else if r < 78 {
            kinds.push("abandon");
            run!(Op::Abandon(old));
        } else if r < 82 && !cands.is_empty() {
            kinds.push("abandon");
            run!(Op::AbandonWith(old, vec![*rng.pick(&cands)]));
        } else if r < 92 {
            kinds.push("divergent");
            run!(Op::Rewrite { old, ps: None, desc });
            desc += 1;
            run!(Op::Rewrite { old, ps: None, desc });
            let k = d.n();
            run!(Op::Divergent(old, vec![k - 2, k - 1]));
        } else if r < 96 && !cands.is_empty() {
            kinds.push("setrewritten");
            run!(Op::SetRewritten(old, *rng.pick(&cands)));
        } else {
            // something new on top of a commit that is being rewritten
            kinds.push("newchild");
            run!(Op::New { ps: vec![old], desc, empty: rng.chance(1, 3) });
            continue;
        }
        keys.push(old);
    }
    // references moved onto rewritten commits inside the same transaction
    if !keys.is_empty() && rng.chance(1, 5) {
        run!(Op::SetBookmark { name: 3, target: vec![Some(*rng.pick(&keys))] });
    }
    let n = d.n();
    let imm = if rng.chance(1, 4) { ancestors(&parents, rng.usize(n)) } else { vec![] };
    let o = if rng.chance(1, 2) {
        Opts { imm, ..default_opts() }
    } else {
        Opts {
            imm,
            empty: rng.below(3) as u8,
            delete_abandoned: rng.chance(1, 2),
            simplify: rng.chance(1, 2),
            oracle: vec![],
        }
    };
    let o1 = d.apply(Op::Rebase(o));
    if o1 != Outcome::Ok {
        return o1;
    }
    d.apply(Op::Commit)
}
