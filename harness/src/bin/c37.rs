//! C37: jj_lib::bisect::Bisector on DAG ranges of real repos; every monotone bad set on small
//! hand-picked DAGs (exhaustive supplement), random monotone bad sets with 1-3 culprits,
//! skip sets, linear ranges, non-convex ranges, and a few inconsistent outcomes.
#[path = "../dagrepo.rs"]
mod dagrepo;

use std::collections::HashMap;
use std::sync::Arc;

use dagrepo::Shape;
use jj_lib::backend::CommitId;
use jj_lib::bisect::BisectionResult;
use jj_lib::bisect::Bisector;
use jj_lib::bisect::Evaluation;
use jj_lib::bisect::NextStep;
use jj_lib::commit::Commit;
use jj_lib::repo::ReadonlyRepo;
use jj_lib::repo::Repo;
use jj_lib::revset::ResolvedRevsetExpression;
use jjv::Rng;
use pollster::FutureExt as _;
use testutils::TestRepo;

/// Small shapes for the exhaustive supplement (node numbers; [] = child of the root commit).
fn small_shapes() -> Vec<Vec<Vec<usize>>> {
    vec![
        // the F3 diamond: A, B, C, D = merge(B, C)
        vec![vec![], vec![0], vec![0], vec![1, 2]],
        // chain of 5
        vec![vec![], vec![0], vec![1], vec![2], vec![3]],
        // chain of 6
        vec![vec![], vec![0], vec![1], vec![2], vec![3], vec![4]],
        // fork: two heads
        vec![vec![], vec![0], vec![0], vec![1], vec![2]],
        // diamond with tail and top
        vec![vec![], vec![0], vec![1], vec![1], vec![2, 3], vec![4]],
        // double diamond
        vec![vec![], vec![0], vec![0], vec![1, 2], vec![3], vec![3], vec![4, 5]],
        // criss-cross
        vec![vec![], vec![0], vec![0], vec![1, 2], vec![2, 1], vec![3, 4]],
        // octopus
        vec![vec![], vec![0], vec![0], vec![0], vec![1, 2, 3]],
        // two roots merged
        vec![vec![], vec![], vec![0, 1], vec![2]],
        // long side branch
        vec![vec![], vec![0], vec![1], vec![2], vec![0], vec![3, 4]],
        // single commit
        vec![vec![]],
        // three independent branches merged pairwise
        vec![vec![], vec![0], vec![0], vec![0], vec![1, 2], vec![2, 3], vec![4, 5]],
    ]
}

fn descendants_in(g: &[Vec<usize>], range: &[usize], roots: &[usize]) -> Vec<usize> {
    // upward closure of `roots` inside `range` (ancestry through the whole graph)
    range
        .iter()
        .copied()
        .filter(|&x| {
            let anc = dagrepo::ancestors_of(g, x);
            roots.iter().any(|r| anc.contains(r))
        })
        .collect()
}

fn heads_of(g: &[Vec<usize>], set: &[usize]) -> Vec<usize> {
    set.iter()
        .copied()
        .filter(|&x| !set.iter().any(|&y| y != x && dagrepo::ancestors_of(g, y).contains(&x)))
        .collect()
}

fn minimal_of(g: &[Vec<usize>], set: &[usize]) -> Vec<usize> {
    set.iter()
        .copied()
        .filter(|&x| !set.iter().any(|&y| y != x && dagrepo::ancestors_of(g, x).contains(&y)))
        .collect()
}

struct RunOut {
    term: String,
    culprits: usize,
    skips: usize,
    evals: usize,
    monotone: bool,
}

fn run_bisect(
    repo: &Arc<ReadonlyRepo>,
    range_expr: &Arc<ResolvedRevsetExpression>,
    pos: &HashMap<CommitId, usize>,
    g: &[Vec<usize>],
    range: &[usize],
    bad: &[usize],
    skip: &[usize],
    monotone: bool,
) -> RunOut {
    let mut bisector = Bisector::new(repo.as_ref(), range_expr.clone()).block_on().unwrap();
    let mut trace: Vec<usize> = vec![];
    let result = loop {
        match bisector.next_step().block_on().unwrap() {
            NextStep::Evaluate(commit) => {
                let p = pos[commit.id()];
                trace.push(p);
                assert!(trace.len() <= 4 * g.len() + 8, "bisection does not terminate");
                let e = if skip.contains(&p) {
                    Evaluation::Skip
                } else if bad.contains(&p) {
                    Evaluation::Bad
                } else {
                    Evaluation::Good
                };
                bisector.mark(commit.id().clone(), e);
            }
            NextStep::Done(r) => break r,
        }
    };
    let ps = |cs: &[Commit]| -> Vec<usize> { cs.iter().map(|c| pos[c.id()]).collect() };
    let res = match &result {
        BisectionResult::Found(b) => format!("(Found {})", dagrepo::coq_nats(&ps(b))),
        BisectionResult::FoundDespiteSkips { bad_commits, possibly_bad } => {
            // possibly_bad lists a commit once per path: canonical form = descending set
            let mut p = ps(possibly_bad);
            p.sort_unstable_by(|a, b| b.cmp(a));
            p.dedup();
            format!(
                "(FoundDespiteSkips {} {})",
                dagrepo::coq_nats(&ps(bad_commits)),
                dagrepo::coq_nats(&p)
            )
        }
        BisectionResult::Indeterminate => "Indeterminate".to_string(),
        BisectionResult::Abort => panic!("abort"),
    };
    let bad_in: Vec<usize> = range.iter().copied().filter(|x| bad.contains(x)).collect();
    RunOut {
        term: format!(
            "(mk_run {} {} {} {})",
            dagrepo::coq_nats(bad),
            dagrepo::coq_nats(skip),
            dagrepo::coq_nats(&trace),
            res
        ),
        culprits: minimal_of(g, &bad_in).len(),
        skips: skip.len(),
        evals: trace.len(),
        monotone,
    }
}

fn main() {
    jjv::run("C37", "C37", |ctx| {
        dagrepo::use_scratch(&ctx.scratch);
        let settings = dagrepo::settings();
        let smalls = small_shapes();
        let smalls = &smalls;
        let results = dagrepo::par_cases(&*ctx, |ctx, i| -> dagrepo::CaseOut {
            let mut rng = ctx.rng(i);
            let thorough = ctx.tier == "thorough";
            // 2 exhaustive cases per small shape: range = all but the root commit / with it
            let exhaustive = i < 2 * smalls.len();
            let (shape, kind): (Shape, u64) = if exhaustive {
                (Shape { parents: smalls[i / 2].clone() }, 100 + (i % 2) as u64)
            } else {
                let kind = rng.below(10);
                let n = rng.range(3, if thorough { 40 } else { 22 }) as usize;
                let style = if kind == 0 { 9 } else { rng.below(4) };
                let shape = if style == 9 {
                    // linear history
                    Shape { parents: (0..n).map(|k| if k == 0 { vec![] } else { vec![k - 1] }).collect() }
                } else {
                    dagrepo::random_shape(&mut rng, n, style)
                };
                (shape, kind)
            };
            let n = shape.parents.len();
            let res = jjv::catch(|| {
                let test_repo = TestRepo::init_with_settings(&settings);
                let repo0 = test_repo.repo.clone();
                let mut tx = repo0.start_transaction();
                let mut commits: Vec<Commit> = vec![];
                for k in 0..n {
                    let cid = dagrepo::change_id_for(&mut rng);
                    let c = dagrepo::write_node(tx.repo_mut(), &shape, k, &commits, cid, "c37");
                    commits.push(c);
                }
                let repo = tx.commit("c37").block_on().unwrap();
                let known: Vec<CommitId> = std::iter::once(repo.store().root_commit_id().clone())
                    .chain(commits.iter().map(|c| c.id().clone()))
                    .collect();
                let order = dagrepo::index_order(&repo, &known);
                let (g, pos) = dagrepo::graph_of(repo.as_ref(), &order);
                let total = g.len();
                let ids_of = |xs: &[usize]| -> Vec<CommitId> { xs.iter().map(|&x| order[x].clone()).collect() };
                // the input range, as positions (computed here from the graph) and as a revset
                let (range, expr, rkind): (Vec<usize>, Arc<ResolvedRevsetExpression>, &str) = match kind {
                    100 => {
                        let r: Vec<usize> = (1..total).collect();
                        (r.clone(), ResolvedRevsetExpression::commits(ids_of(&r)), "all-but-root")
                    }
                    101 | 0 | 1 => {
                        // ::heads for 1-2 random heads (incl. the root commit)
                        let hs: Vec<usize> = if kind == 101 {
                            heads_of(&g, &(0..total).collect::<Vec<_>>())
                        } else {
                            (0..1 + rng.usize(2)).map(|_| total - 1 - rng.usize(1 + total / 2)).collect()
                        };
                        let mut r: Vec<usize> = vec![];
                        for &h in &hs {
                            for a in dagrepo::ancestors_of(&g, h) {
                                if !r.contains(&a) {
                                    r.push(a);
                                }
                            }
                        }
                        (r, ResolvedRevsetExpression::commits(ids_of(&hs)).ancestors(), "ancestors")
                    }
                    2..=5 => {
                        // c::h (convex, single root): plenty of single-culprit ranges; prefer a
                        // late head and an early root so that the range is large
                        let h = total - 1 - rng.usize(1 + total / 4);
                        let ah = dagrepo::ancestors_of(&g, h);
                        let c = ah[rng.usize(1 + ah.len() / 3)];
                        let r: Vec<usize> = dagrepo::ancestors_of(&g, h)
                            .into_iter()
                            .filter(|&x| dagrepo::ancestors_of(&g, x).contains(&c))
                            .collect();
                        let e = ResolvedRevsetExpression::commits(ids_of(&[c]))
                            .dag_range_to(&ResolvedRevsetExpression::commits(ids_of(&[h])));
                        (r, e, "dag-range")
                    }
                    6 | 7 => {
                        // a..b (b late, a early)
                        let a = rng.usize(1 + total / 3);
                        let b = total - 1 - rng.usize(1 + total / 3);
                        let aa = dagrepo::ancestors_of(&g, a);
                        let r: Vec<usize> = dagrepo::ancestors_of(&g, b)
                            .into_iter()
                            .filter(|x| !aa.contains(x))
                            .collect();
                        let e = ResolvedRevsetExpression::commits(ids_of(&[a]))
                            .range(&ResolvedRevsetExpression::commits(ids_of(&[b])));
                        (r, e, "range")
                    }
                    _ => {
                        // arbitrary (non-convex) subset
                        let r: Vec<usize> = (0..total).filter(|_| rng.chance(1, 2)).collect();
                        (r.clone(), ResolvedRevsetExpression::commits(ids_of(&r)), "subset")
                    }
                };
                let range_heads = heads_of(&g, &range);
                let mut runs: Vec<RunOut> = vec![];
                if exhaustive {
                    // every monotone bad set (upward closed in the range, containing its heads)
                    let m = range.len();
                    for mask in 0u32..(1u32 << m) {
                        let bad: Vec<usize> =
                            (0..m).filter(|b| mask >> b & 1 == 1).map(|b| range[b]).collect();
                        if bad.is_empty() && !range.is_empty() {
                            continue;
                        }
                        let closed = descendants_in(&g, &range, &bad);
                        if closed.len() != bad.len() || !range_heads.iter().all(|h| bad.contains(h)) {
                            continue;
                        }
                        runs.push(run_bisect(&repo, &expr, &pos, &g, &range, &bad, &[], true));
                    }
                } else {
                    let nruns = 3 + rng.usize(3);
                    for _ in 0..nruns {
                        if range.is_empty() {
                            runs.push(run_bisect(&repo, &expr, &pos, &g, &range, &[], &[], true));
                            break;
                        }
                        let roll = rng.below(20);
                        if roll == 0 {
                            // inconsistent outcome: correspondence only
                            let bad: Vec<usize> = range.iter().copied().filter(|_| rng.chance(1, 2)).collect();
                            let skip: Vec<usize> = range.iter().copied().filter(|_| rng.chance(1, 8)).collect();
                            runs.push(run_bisect(&repo, &expr, &pos, &g, &range, &bad, &skip, false));
                            continue;
                        }
                        let k = match rng.below(10) { 0..=5 => 1, 6..=8 => 2, _ => 3 };
                        let culprits: Vec<usize> = (0..k).map(|_| *rng.pick(&range)).collect();
                        let mut bad = descendants_in(&g, &range, &culprits);
                        for &h in &range_heads {
                            if !bad.contains(&h) {
                                bad.push(h);
                            }
                        }
                        let skip: Vec<usize> = if rng.chance(1, 3) {
                            let cand: Vec<usize> =
                                range.iter().copied().filter(|x| !range_heads.contains(x)).collect();
                            if cand.is_empty() {
                                vec![]
                            } else {
                                (0..1 + rng.usize(4)).map(|_| *rng.pick(&cand)).collect()
                            }
                        } else {
                            vec![]
                        };
                        runs.push(run_bisect(&repo, &expr, &pos, &g, &range, &bad, &skip, true));
                    }
                }
                (g, range, rkind, runs)
            });
            match res {
                Some((g, range, rkind, runs)) => {
                    let multi = runs.iter().any(|r| r.culprits >= 2 && r.monotone);
                    let skips = runs.iter().any(|r| r.skips > 0);
                    let evals: usize = runs.iter().map(|r| r.evals).sum();
                    let garbage = runs.iter().any(|r| !r.monotone);
                    // the range is a chain: consecutive range elements are parent and only child
                    let mut rs = range.clone();
                    rs.sort_unstable();
                    let linear = rs.len() >= 3 && rs.windows(2).all(|w| g[w[1]] == vec![w[0]]);
                    let term = format!(
                        "(mk_case {} {} [{}] false)%nat",
                        dagrepo::coq_graph(&g),
                        dagrepo::coq_nats(&range),
                        runs.iter().map(|r| r.term.clone()).collect::<Vec<_>>().join("; ")
                    );
                    let shape_s = format!(
                        "{}{} {} {}{}",
                        if exhaustive { "exhaustive " } else { "" },
                        rkind,
                        match range.len() { 0 => "empty", 1..=5 => "small", _ => "large" },
                        if linear { "chain " } else { "" },
                        if multi { "multi-culprit" } else { "" },
                    );
                    let mut counts: Vec<&'static str> = vec![];
                    for r in &runs {
                        counts.push(if !r.monotone {
                            "run: inconsistent outcome"
                        } else if r.skips > 0 {
                            "run: with skips"
                        } else if r.culprits >= 2 {
                            "run: multi-culprit, no skips"
                        } else {
                            "run: single culprit, no skips"
                        });
                    }
                    let _ = (skips, garbage);
                    dagrepo::CaseOut {
                        term,
                        nontrivial: range.len() >= 3 && evals >= 2,
                        // run classes ride along after a tab and are counted by the main thread
                        shape: format!("{}\t{}", shape_s.trim(), counts.join("\t")),
                        panicked: false,
                    }
                }
                None => dagrepo::CaseOut {
                    term: "(mk_case [] [] [] true)".to_string(),
                    nontrivial: false,
                    shape: "panic".to_string(),
                    panicked: true,
                },
            }
        });
        for (i, r) in results {
            if r.panicked {
                ctx.panicked();
            }
            let mut parts = r.shape.split('\t');
            let shape = parts.next().unwrap().to_string();
            for c in parts {
                ctx.count(c);
            }
            ctx.emit(i, r.term, r.nontrivial, &shape);
        }
    });
}
