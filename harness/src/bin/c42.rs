//! C42: immutable commits are never rewritten. Random sessions of the real CLI (jjbin built
//! from /repo's working tree): a small history, a random `immutable_heads()` configuration,
//! random mutating commands with random targets (mutable and immutable); before and after
//! every command the visible graph with the `immutable` flags (CLI), the view (operation
//! store) and the predecessors recorded by the new operations are observed. One Coq case per
//! session: the model must accept the whole trace, and the proved checker judges the
//! observations.
#[path = "../cmdsess.rs"]
mod cmdsess;

use std::collections::BTreeMap;
use std::collections::BTreeSet;
use std::collections::HashMap;
use std::path::Path;
use std::path::PathBuf;

use cmdsess::Sess;
use jj_lib::object_id::ObjectId as _;
use jj_lib::repo::RepoLoader;
use jjv::Rng;
use pollster::FutureExt as _;

const LOG_T: &str = r#"commit_id ++ " p=" ++ parents.map(|c| c.commit_id()).join(",") ++ " " ++ immutable ++ " " ++ empty ++ " " ++ if(description, "d", "n") ++ "\n""#;

#[derive(Clone, Debug)]
enum HExpr {
    None,
    Commit(usize),
    Bookmark(u64),
    Bookmarks,
    Tags,
    Union(Box<HExpr>, Box<HExpr>),
}

/// --insert-after / --insert-before location.
#[derive(Clone, Debug)]
enum Loc {
    After(usize),
    Before(usize),
    Both(usize, usize),
}

#[derive(Clone, Debug)]
enum Cmd {
    NewLoc(Loc),
    RebaseLoc(usize, Loc),
    DupLoc(usize, Loc),
    Describe(Vec<usize>),
    Abandon(Vec<usize>),
    RebaseS(Vec<usize>, usize),
    RebaseR(Vec<usize>, usize),
    RebaseB(usize, usize),
    Squash(usize, usize),
    Edit(usize),
    New(Vec<usize>, bool),
    NewBefore(usize, bool),
    Commit,
    BookmarkSet(u64, usize),
    TagSet(u64, usize),
    Restore(usize, usize),
    Metaedit(Vec<usize>),
    Snapshot,
    WorkspaceAdd,
    Observe,
}

#[derive(Clone, Default)]
struct View {
    heads: Vec<usize>,
    bms: Vec<(u64, usize)>,
    tags: Vec<(u64, usize)>,
    wcs: Vec<(u64, usize)>,
}

#[derive(Default)]
struct World {
    hex: Vec<String>,
    num: HashMap<String, usize>,
    graph: Vec<Vec<usize>>,
    disc: BTreeSet<usize>,
    vis: Vec<usize>,
    imm: BTreeSet<usize>,
    view: View,
}

struct Delta {
    new: Vec<Vec<usize>>,
    newdisc: Vec<usize>,
}

fn nat_list(xs: &[usize]) -> String {
    let v: Vec<String> = xs.iter().map(|x| x.to_string()).collect();
    format!("[{}]", v.join("; "))
}
fn pair_list(xs: &[(u64, usize)]) -> String {
    let v: Vec<String> = xs.iter().map(|(a, b)| format!("({a}%N, {b})")).collect();
    format!("[{}]", v.join("; "))
}
fn view_term(v: &View) -> String {
    format!(
        "(mk_view {} {} {} {})",
        nat_list(&v.heads),
        pair_list(&v.bms),
        pair_list(&v.tags),
        pair_list(&v.wcs)
    )
}
fn graph_term(g: &[Vec<usize>]) -> String {
    let v: Vec<String> = g.iter().map(|ps| nat_list(ps)).collect();
    format!("[{}]", v.join("; "))
}
fn hexpr_term(e: &HExpr) -> String {
    match e {
        HExpr::None => "HNone".into(),
        HExpr::Commit(c) => format!("(HCommit {c})"),
        HExpr::Bookmark(b) => format!("(HBookmark {b}%N)"),
        HExpr::Bookmarks => "HBookmarks".into(),
        HExpr::Tags => "HTags".into(),
        HExpr::Union(a, b) => format!("(HUnion {} {})", hexpr_term(a), hexpr_term(b)),
    }
}
fn loc_term(l: &Loc) -> String {
    match l {
        Loc::After(x) => format!("(LAfter {x})"),
        Loc::Before(y) => format!("(LBefore {y})"),
        Loc::Both(x, y) => format!("(LBoth {x} {y})"),
    }
}
fn cmd_term(c: &Cmd) -> String {
    match c {
        Cmd::NewLoc(l) => format!("(CNewLoc {})", loc_term(l)),
        Cmd::RebaseLoc(z, l) => format!("(CRebaseLoc {z} {})", loc_term(l)),
        Cmd::DupLoc(z, l) => format!("(CDupLoc {z} {})", loc_term(l)),
        Cmd::Describe(ts) => format!("(CDescribe {})", nat_list(ts)),
        Cmd::Abandon(ts) => format!("(CAbandon {})", nat_list(ts)),
        Cmd::RebaseS(ss, d) => format!("(CRebaseS {} {d})", nat_list(ss)),
        Cmd::RebaseR(ts, d) => format!("(CRebaseR {} {d})", nat_list(ts)),
        Cmd::RebaseB(b, d) => format!("(CRebaseB {b} {d})"),
        Cmd::Squash(f, i) => format!("(CSquash {f} {i})"),
        Cmd::Edit(c) => format!("(CEdit {c})"),
        Cmd::New(ps, _) => format!("(CNew {})", nat_list(ps)),
        Cmd::NewBefore(x, _) => format!("(CNewBefore {x})"),
        Cmd::Commit => "CCommit".into(),
        Cmd::BookmarkSet(b, c) => format!("(CBookmarkSet {b}%N {c})"),
        Cmd::TagSet(t, c) => format!("(CTagSet {t}%N {c})"),
        Cmd::Restore(f, i) => format!("(CRestore {f} {i})"),
        Cmd::Metaedit(ts) => format!("(CMetaedit {})", nat_list(ts)),
        Cmd::Snapshot => "CSnapshot".into(),
        Cmd::WorkspaceAdd => "CWorkspaceAdd".into(),
        Cmd::Observe => "CObserve".into(),
    }
}
fn cmd_kind(c: &Cmd) -> &'static str {
    match c {
        Cmd::NewLoc(Loc::Both(..)) => "new-A-B",
        Cmd::NewLoc(_) => "new-A",
        Cmd::RebaseLoc(..) => "rebase-r-A/B",
        Cmd::DupLoc(..) => "duplicate-A/B",
        Cmd::Describe(_) => "describe",
        Cmd::Abandon(_) => "abandon",
        Cmd::RebaseS(..) => "rebase-s",
        Cmd::RebaseR(..) => "rebase-r",
        Cmd::RebaseB(..) => "rebase-b",
        Cmd::Squash(..) => "squash",
        Cmd::Edit(_) => "edit",
        Cmd::New(..) => "new",
        Cmd::NewBefore(..) => "new-before",
        Cmd::Commit => "commit",
        Cmd::BookmarkSet(..) => "bookmark",
        Cmd::TagSet(..) => "tag",
        Cmd::Restore(..) => "restore",
        Cmd::Metaedit(_) => "metaedit",
        Cmd::Snapshot => "snapshot",
        Cmd::WorkspaceAdd => "ws-add",
        Cmd::Observe => "config",
    }
}

fn bm_name(b: u64) -> String {
    format!("b{b}")
}
fn tag_name(t: u64) -> String {
    format!("t{t}")
}
fn ws_name_num(name: &str) -> u64 {
    if name == "default" { 0 } else { 1 }
}

fn hexpr_text(e: &HExpr, w: &World) -> String {
    match e {
        HExpr::None => "none()".into(),
        HExpr::Commit(c) => w.hex[*c].clone(),
        HExpr::Bookmark(b) => format!("bookmarks(exact:\"{}\")", bm_name(*b)),
        HExpr::Bookmarks => "bookmarks()".into(),
        HExpr::Tags => "tags()".into(),
        HExpr::Union(a, b) => format!("({} | {})", hexpr_text(a, w), hexpr_text(b, w)),
    }
}

impl World {
    fn is_anc(&self, a: usize, d: usize) -> bool {
        if a == d {
            return true;
        }
        if a > d {
            return false;
        }
        self.graph[d].iter().any(|&p| self.is_anc(a, p))
    }
    fn wc(&self, ws: u64) -> Option<usize> {
        self.view.wcs.iter().find(|(n, _)| *n == ws).map(|(_, c)| *c)
    }
    fn children_visible(&self, c: usize) -> bool {
        self.vis.iter().any(|&x| self.graph[x].contains(&c))
    }
}

/// CLI observation of the visible graph (parents first). None = the command failed.
fn observe_log(sess: &mut Sess, ws1: &Path) -> Option<Vec<(String, Vec<String>, bool, bool)>> {
    let out = sess.jjs(ws1, &["log", "--no-graph", "--ignore-working-copy", "-r", "all()", "-T", LOG_T]);
    if out.rc != 0 {
        return None;
    }
    let mut v = vec![];
    for line in out.stdout.lines() {
        let f: Vec<&str> = line.split(' ').collect();
        if f.len() != 5 {
            return None;
        }
        let ps: Vec<String> = f[1]
            .strip_prefix("p=")?
            .split(',')
            .filter(|s| !s.is_empty())
            .map(|s| s.to_string())
            .collect();
        v.push((f[0].to_string(), ps, f[2] == "true", f[3] == "true" && f[4] == "n"));
    }
    v.reverse();
    Some(v)
}

fn read_view(loader: &RepoLoader, head: &str, w: &World) -> Result<View, String> {
    let op = cmdsess::load_op(loader, head);
    let view = op.view().block_on().map_err(|_| "view-load".to_string())?;
    let mut v = View::default();
    for h in view.heads() {
        v.heads.push(*w.num.get(&h.hex()).ok_or("view-head-not-observed")?);
    }
    v.heads.sort();
    for (name, target) in view.local_bookmarks() {
        // a conflicted bookmark (e.g. after abandoning a merge commit) counts with every added
        // target, as `bookmarks()` and maybe_abandon_wc_commit see it
        let b: u64 = name.as_str().strip_prefix('b').and_then(|x| x.parse().ok()).ok_or("view-bookmark-name")?;
        for id in target.added_ids() {
            v.bms.push((b, *w.num.get(&id.hex()).ok_or("view-bookmark-target-not-observed")?));
        }
    }
    v.bms.sort();
    for (name, target) in view.local_tags() {
        let t: u64 = name.as_str().strip_prefix('t').and_then(|x| x.parse().ok()).ok_or("view-tag-name")?;
        for id in target.added_ids() {
            v.tags.push((t, *w.num.get(&id.hex()).ok_or("view-tag-target-not-observed")?));
        }
    }
    v.tags.sort();
    for (name, id) in view.wc_commit_ids() {
        v.wcs.push((ws_name_num(name.as_str()), *w.num.get(&id.hex()).ok_or("view-wc-not-observed")?));
    }
    v.wcs.sort();
    Ok(v)
}

/// Folds a CLI observation into the world; returns the commits first seen now.
fn absorb(w: &mut World, obs: &[(String, Vec<String>, bool, bool)]) -> Option<Delta> {
    let mut d = Delta { new: vec![], newdisc: vec![] };
    w.vis.clear();
    w.imm.clear();
    for (id, ps, imm, disc) in obs {
        let n = match w.num.get(id) {
            Some(n) => *n,
            None => {
                let n = w.hex.len();
                let mut pn = vec![];
                for p in ps {
                    pn.push(*w.num.get(p)?);
                }
                w.hex.push(id.clone());
                w.num.insert(id.clone(), n);
                w.graph.push(pn.clone());
                d.new.push(pn);
                if *disc {
                    w.disc.insert(n);
                    d.newdisc.push(n);
                }
                n
            }
        };
        w.vis.push(n);
        if *imm {
            w.imm.insert(n);
        }
    }
    w.vis.sort();
    Some(d)
}

struct SessionResult {
    term: String,
    nontrivial: bool,
    shapes: Vec<String>,
    invocations: u64,
}

fn pick_target(rng: &mut Rng, w: &World, prefer_mutable: bool) -> usize {
    let muts: Vec<usize> = w.vis.iter().copied().filter(|c| !w.imm.contains(c)).collect();
    if prefer_mutable && !muts.is_empty() {
        *rng.pick(&muts)
    } else {
        *rng.pick(&w.vis)
    }
}

fn random_hexpr(rng: &mut Rng, w: &World, depth: u32) -> HExpr {
    match rng.below(if depth == 0 { 21 } else { 17 }) {
        0 | 1 => HExpr::Tags,
        2..=7 => HExpr::Bookmark(rng.range(1, 3)),
        8 | 9 => HExpr::Bookmarks,
        10..=15 => {
            let c: Vec<usize> = w.vis.iter().copied().filter(|c| *c != 0).collect();
            if c.is_empty() { HExpr::None } else { HExpr::Commit(*rng.pick(&c)) }
        }
        16 => HExpr::None,
        _ => HExpr::Union(
            Box::new(random_hexpr(rng, w, depth + 1)),
            Box::new(random_hexpr(rng, w, depth + 1)),
        ),
    }
}

fn random_cmd(rng: &mut Rng, w: &World, ws: u64, have_ws2: bool, step: usize) -> Cmd {
    let pm = rng.chance(2, 5);
    let t = pick_target(rng, w, pm);
    let non_desc = |rng: &mut Rng, s: usize| -> usize {
        let c: Vec<usize> = w.vis.iter().copied().filter(|&x| !w.is_anc(s, x)).collect();
        if c.is_empty() || rng.chance(1, 8) { *rng.pick(&w.vis) } else { *rng.pick(&c) }
    };
    if ws == 1 {
        // second workspace: never changes the tree of the first workspace's @
        return match rng.below(5) {
            0 => Cmd::BookmarkSet(rng.range(1, 3), *rng.pick(&w.vis)),
            1 => Cmd::TagSet(1, *rng.pick(&w.vis)),
            2 => Cmd::Describe(vec![t]),
            3 => Cmd::New(vec![*rng.pick(&w.vis)], rng.chance(1, 2)),
            _ => Cmd::Commit,
        };
    }
    match rng.below(31) {
        0 | 1 | 2 => {
            let mut ts = vec![t];
            if rng.chance(1, 4) {
                let u = pick_target(rng, w, pm);
                if u != t {
                    ts.push(u);
                }
            }
            Cmd::Describe(ts)
        }
        3 | 4 => {
            let mut ts = vec![t];
            if rng.chance(1, 4) {
                let u = pick_target(rng, w, pm);
                if u != t {
                    ts.push(u);
                }
            }
            Cmd::Abandon(ts)
        }
        5 | 6 => Cmd::RebaseS(vec![t], non_desc(rng, t)),
        7 => Cmd::RebaseR(vec![t], {
            let c: Vec<usize> = w.vis.iter().copied().filter(|&x| x != t).collect();
            if c.is_empty() { 0 } else { *rng.pick(&c) }
        }),
        8 => Cmd::RebaseB(t, *rng.pick(&w.vis)),
        9 | 10 => {
            let i = pick_target(rng, w, pm);
            Cmd::Squash(t, i)
        }
        11 | 12 => Cmd::Edit(t),
        13 => {
            let mut ps = vec![*rng.pick(&w.vis)];
            if rng.chance(1, 5) {
                let q = *rng.pick(&w.vis);
                if !w.is_anc(q, ps[0]) && !w.is_anc(ps[0], q) {
                    ps.push(q);
                }
            }
            Cmd::New(ps, rng.chance(1, 2))
        }
        14 => Cmd::NewBefore(t, rng.chance(1, 2)),
        26 | 27 | 28 | 29 | 30 => {
            // insertion with -A / -B / both: y is the (often immutable) commit that gets a new
            // parent; x is arbitrary (its child, unrelated, or anything)
            let imms: Vec<usize> = w.vis.iter().copied().filter(|c| *c != 0 && w.imm.contains(c)).collect();
            let y = if !imms.is_empty() && rng.chance(3, 5) { *rng.pick(&imms) } else { t };
            let x = {
                let ps: Vec<usize> = w.graph[y].clone();
                if !ps.is_empty() && rng.chance(1, 2) { *rng.pick(&ps) } else { *rng.pick(&w.vis) }
            };
            let l = match rng.below(5) {
                0 => Loc::After(x),
                1 => Loc::Before(y),
                _ => Loc::Both(x, y),
            };
            let z = pick_target(rng, w, true);
            match rng.below(4) {
                0 | 1 => match l {
                    Loc::Before(y) => Cmd::NewBefore(y, true),
                    l => Cmd::NewLoc(l),
                },
                2 => Cmd::RebaseLoc(z, l),
                _ => Cmd::DupLoc(z, l),
            }
        }
        15 => Cmd::Commit,
        16 | 17 => Cmd::BookmarkSet(rng.range(1, 3), *rng.pick(&w.vis)),
        18 => Cmd::TagSet(1, *rng.pick(&w.vis)),
        23 => Cmd::Restore(*rng.pick(&w.vis), t),
        24 => Cmd::Metaedit(vec![t]),
        19 | 20 => {
            if !have_ws2 && step >= 1 {
                Cmd::WorkspaceAdd
            } else {
                Cmd::Describe(vec![t])
            }
        }
        _ => Cmd::Snapshot,
    }
}

fn cmd_args(c: &Cmd, w: &World, msg: &str) -> Vec<String> {
    let h = |n: &usize| w.hex[*n].clone();
    let mut a: Vec<String> = vec![];
    let push = |a: &mut Vec<String>, s: &str| a.push(s.to_string());
    match c {
        Cmd::Describe(ts) => {
            push(&mut a, "describe");
            push(&mut a, "-m");
            push(&mut a, msg);
            for t in ts {
                a.push(h(t));
            }
        }
        Cmd::Abandon(ts) => {
            push(&mut a, "abandon");
            for t in ts {
                a.push(h(t));
            }
        }
        Cmd::RebaseS(ss, d) => {
            push(&mut a, "rebase");
            for s in ss {
                push(&mut a, "-s");
                a.push(h(s));
            }
            push(&mut a, "-o");
            a.push(h(d));
        }
        Cmd::RebaseR(ts, d) => {
            push(&mut a, "rebase");
            for t in ts {
                push(&mut a, "-r");
                a.push(h(t));
            }
            push(&mut a, "-o");
            a.push(h(d));
        }
        Cmd::RebaseB(b, d) => {
            for s in ["rebase", "-b"] {
                push(&mut a, s);
            }
            a.push(h(b));
            push(&mut a, "-o");
            a.push(h(d));
        }
        Cmd::Squash(f, i) => {
            for s in ["squash", "--from"] {
                push(&mut a, s);
            }
            a.push(h(f));
            push(&mut a, "--into");
            a.push(h(i));
            push(&mut a, "-m");
            push(&mut a, msg);
        }
        Cmd::Edit(c) => {
            push(&mut a, "edit");
            a.push(h(c));
        }
        Cmd::New(ps, described) => {
            push(&mut a, "new");
            for p in ps {
                a.push(h(p));
            }
            if *described {
                push(&mut a, "-m");
                push(&mut a, msg);
            }
        }
        Cmd::NewLoc(l) | Cmd::RebaseLoc(_, l) | Cmd::DupLoc(_, l) => {
            match c {
                Cmd::NewLoc(_) => {
                    for s in ["new", "-m", msg] {
                        push(&mut a, s);
                    }
                }
                Cmd::RebaseLoc(z, _) => {
                    for s in ["rebase", "-r"] {
                        push(&mut a, s);
                    }
                    a.push(h(z));
                }
                Cmd::DupLoc(z, _) => {
                    push(&mut a, "duplicate");
                    a.push(h(z));
                }
                _ => {}
            }
            match l {
                Loc::After(x) => {
                    push(&mut a, "-A");
                    a.push(h(x));
                }
                Loc::Before(y) => {
                    push(&mut a, "-B");
                    a.push(h(y));
                }
                Loc::Both(x, y) => {
                    push(&mut a, "-A");
                    a.push(h(x));
                    push(&mut a, "-B");
                    a.push(h(y));
                }
            }
        }
        Cmd::NewBefore(x, described) => {
            for s in ["new", "--insert-before"] {
                push(&mut a, s);
            }
            a.push(h(x));
            if *described {
                push(&mut a, "-m");
                push(&mut a, msg);
            }
        }
        Cmd::Commit => {
            for s in ["commit", "-m", msg] {
                push(&mut a, s);
            }
        }
        Cmd::BookmarkSet(b, c) => {
            for s in ["bookmark", "set", &bm_name(*b), "--allow-backwards", "-r"] {
                push(&mut a, s);
            }
            a.push(h(c));
        }
        Cmd::TagSet(t, c) => {
            for s in ["tag", "set", &tag_name(*t), "--allow-move", "-r"] {
                push(&mut a, s);
            }
            a.push(h(c));
        }
        Cmd::Restore(f, i) => {
            for s in ["restore", "--from"] {
                push(&mut a, s);
            }
            a.push(h(f));
            push(&mut a, "--into");
            a.push(h(i));
        }
        Cmd::Metaedit(ts) => {
            for s in ["metaedit", "--force-rewrite"] {
                push(&mut a, s);
            }
            for t in ts {
                a.push(h(t));
            }
        }
        Cmd::Snapshot => push(&mut a, "status"),
        Cmd::WorkspaceAdd => {
            for s in ["workspace", "add", "../w2"] {
                push(&mut a, s);
            }
        }
        Cmd::Observe => {}
    }
    a
}

fn failed_case(why: &str) -> SessionResult {
    // A session the harness could not drive: an empty repository that is not well formed,
    // so the case is reported as a correspondence break, never silently dropped.
    SessionResult {
        term: "(mk_case (mk_repo [[1]] (mk_view [] [] [] []) []) [] [])%nat".into(),
        nontrivial: false,
        shapes: vec![format!("harness-failure:{why}")],
        invocations: 0,
    }
}

fn session(index: usize, mut rng: Rng, scratch: &Path, tier: &str) -> SessionResult {
    let root = scratch.join(format!("s{index}"));
    let mut sess = Sess::new(&root, rng.next_u64() % 1_000_000);
    let root = sess.root.clone();
    let ws1: PathBuf = root.join("repo");
    let ws2: PathBuf = root.join("w2");
    let mut shapes: Vec<String> = vec![];
    // colocated (the CLI default) in a quarter of the sessions
    let colocated = rng.chance(1, 4);
    let init_args: &[&str] = if colocated { &["git", "init", "--colocate", "repo"] } else { &["git", "init", "--no-colocate", "repo"] };
    if sess.jjs(&root, init_args).rc != 0 {
        return failed_case("init");
    }
    shapes.push(if colocated { "repo:colocated".into() } else { "repo:not-colocated".into() });
    // ---- set-up: a small history made with `jj new`, one file per commit
    let k = rng.range(3, 6) as usize;
    let mut changes: Vec<String> = vec!["root()".into()];
    for n in 1..=k {
        let mut ps = vec![rng.pick(&changes).clone()];
        if n > 1 && rng.chance(3, 4) {
            ps = vec![changes[rng.range(changes.len().saturating_sub(2) as u64, changes.len() as u64 - 1) as usize].clone()];
        }
        if n > 2 && rng.chance(1, 6) {
            let q = rng.pick(&changes).clone();
            if q != ps[0] && q != "root()" && ps[0] != "root()" {
                ps.push(q);
            }
        }
        let mut args = vec!["new".to_string()];
        args.extend(ps.iter().cloned());
        let described = !rng.chance(1, 8);
        if described {
            args.push("-m".into());
            args.push(format!("c{n}"));
        }
        let out = sess.jj(&ws1, &args);
        if out.rc != 0 {
            return failed_case("setup-new");
        }
        // "Working copy  (@) now at: <change> <commit> ..."
        let change = out
            .stderr
            .lines()
            .find_map(|l| l.strip_prefix("Working copy  (@) now at: "))
            .and_then(|r| r.split(' ').next())
            .map(|s| s.to_string());
        let Some(change) = change else { return failed_case("setup-parse") };
        changes.push(change);
        // never leave a discardable commit behind: it would be abandoned by the next `jj new`
        if !described || !rng.chance(1, 6) {
            std::fs::write(ws1.join(format!("f{n}")), format!("content {n}\n")).unwrap();
        }
    }
    let nb = rng.range(1, 3);
    for b in 1..=nb {
        let target = rng.pick(&changes).clone();
        let o = sess.jjs(&ws1, &["bookmark", "set", &bm_name(b), "-r", &target]);
        if o.rc != 0 {
            return failed_case(&format!("setup-bookmark {}", o.stderr.replace('\n', " ").chars().take(120).collect::<String>()));
        }
    }
    if rng.chance(1, 3) {
        let target = rng.pick(&changes).clone();
        if sess.jjs(&ws1, &["tag", "set", "t1", "-r", &target]).rc != 0 {
            return failed_case("setup-tag");
        }
    }
    if rng.chance(1, 3) {
        // leave @ somewhere in the middle (it may then have children)
        let target = rng.pick(&changes[1..]).clone();
        let _ = sess.jjs(&ws1, &["edit", &target]);
    } else if sess.jjs(&ws1, &["status"]).rc != 0 {
        return failed_case("setup-status");
    }

    // ---- first observation (default configuration: tags() | root())
    let mut w = World::default();
    let loader = cmdsess::loader(&ws1);
    let Some(obs) = observe_log(&mut sess, &ws1) else { return failed_case("obs0") };
    let mut last_obs = obs.clone();
    if absorb(&mut w, &obs).is_none() || w.hex.first().map(|s| s.chars().all(|c| c == '0')) != Some(true) {
        return failed_case("absorb0");
    }
    let mut heads = cmdsess::op_heads(&ws1);
    if heads.len() != 1 {
        return failed_case("opheads0");
    }
    let v0 = match read_view(&loader, &heads[0], &w) {
        Ok(v) => v,
        Err(e) => return failed_case(&format!("{e}-0")),
    };
    w.view = v0;
    let init_term = format!(
        "(mk_repo {} {} {})",
        graph_term(&w.graph),
        view_term(&w.view),
        nat_list(&w.disc.iter().copied().collect::<Vec<_>>())
    );
    let mut known_ops: BTreeSet<String> = BTreeSet::new();
    for op in cmdsess::new_ops(&loader, &heads, &|_| false) {
        known_ops.insert(op.id().hex());
    }

    // ---- steps
    let mut cfg = HExpr::Tags;
    let mut cfg_is_default = true;
    let nsteps = if tier == "thorough" { rng.range(5, 10) } else { rng.range(4, 7) } as usize;
    let mut have_ws2 = false;
    let mut events: Vec<String> = vec![];
    let mut n_refused = 0;
    let mut n_ok_rewrite = 0;
    let mut n_snap_child = 0;
    let mut n_fixup = 0;
    let mut n_known = 0;
    // scripted pools: force an immutable @ (config edit) followed by a snapshot / commit / new
    let script = rng.below(10);
    let mut pending: Vec<Cmd> = vec![];
    let mut force_wc_cfg_at: Option<usize> = None;
    if script == 0 {
        force_wc_cfg_at = Some(rng.range(0, 2) as usize);
        pending = vec![Cmd::Snapshot];
    } else if script == 1 {
        force_wc_cfg_at = Some(rng.range(0, 2) as usize);
        pending = vec![match rng.below(3) {
            0 => Cmd::Commit,
            1 => Cmd::New(vec![0], true),
            _ => Cmd::Describe(vec![]), // placeholder: describe some other commit (fix-up branch)
        }];
    }
    let mut step = 0usize;
    let mut queue: Vec<Cmd> = vec![];
    while step < nsteps {
        let mut ws: u64 = if have_ws2 && rng.chance(1, 3) { 1 } else { 0 };
        let cmd = if let Some(c) = queue.pop() {
            ws = 0;
            c
        } else if index == 0 && step == 0 && events.is_empty() && w.vis.len() >= 3 {
            // fixed corpus session: commit 1 (and the root) immutable by configuration, then
            // `jj new -A <mutable> -B <immutable>`
            cfg = HExpr::Commit(1);
            let m = *w.vis.iter().rev().find(|&&c| c != 0 && c != 1).unwrap_or(&0);
            queue = vec![Cmd::NewLoc(Loc::Both(m, 1))];
            ws = 0;
            Cmd::Observe
        } else if force_wc_cfg_at == Some(step) {
            force_wc_cfg_at = None;
            queue = pending.clone();
            // make the current @ of the default workspace immutable by configuration
            match w.wc(0) {
                Some(c) if c != 0 => {
                    cfg = if rng.chance(1, 2) { HExpr::Commit(c) } else { HExpr::Union(Box::new(HExpr::Tags), Box::new(HExpr::Commit(c))) };
                    cfg_is_default = false;
                    Cmd::Observe
                }
                _ => random_cmd(&mut rng, &w, 0, have_ws2, step),
            }
        } else if step == 0 && !rng.chance(1, 4) || rng.chance(1, 16) {
            cfg = random_hexpr(&mut rng, &w, 0);
            cfg_is_default = false;
            Cmd::Observe
        } else {
            random_cmd(&mut rng, &w, ws, have_ws2, step)
        };
        let ws = if matches!(cmd, Cmd::WorkspaceAdd | Cmd::Observe) { 0 } else { ws };
        let cmd = match cmd {
            Cmd::Describe(ts) if ts.is_empty() => {
                let c: Vec<usize> = w.vis.iter().copied().filter(|c| !w.imm.contains(c) && Some(*c) != w.wc(0)).collect();
                if c.is_empty() { Cmd::Snapshot } else { Cmd::Describe(vec![*rng.pick(&c)]) }
            }
            c => c,
        };
        let ws_dir = if ws == 0 { &ws1 } else { &ws2 };
        // config in effect for this command (and for the observation after it)
        if matches!(cmd, Cmd::Observe) {
            sess.set_config(&format!(
                "[revset-aliases]\n\"immutable_heads()\" = '{}'\n",
                hexpr_text(&cfg, &w)
            ));
        }
        // the explicit override, on a tenth of the rewriting commands
        let override_flag = rng.chance(1, 10)
            && matches!(
                cmd,
                Cmd::Describe(_) | Cmd::Abandon(_) | Cmd::RebaseS(..) | Cmd::RebaseR(..) | Cmd::Squash(..)
                    | Cmd::Edit(_) | Cmd::NewBefore(..) | Cmd::Metaedit(_) | Cmd::Restore(..) | Cmd::Snapshot
                    | Cmd::NewLoc(_) | Cmd::RebaseLoc(..) | Cmd::DupLoc(..)
            );
        let mut imm_pre: Vec<usize> = w.imm.iter().copied().collect();
        let wc_pre = w.wc(ws);
        let (status, stderr) = match &cmd {
            Cmd::Observe => (0u64, String::new()),
            c => {
                if matches!(c, Cmd::Snapshot) {
                    std::fs::write(ws_dir.join(format!("e{}", rng.below(3))), format!("edit {index} {step}\n")).unwrap();
                }
                let mut args = cmd_args(c, &w, &format!("m{step}"));
                if override_flag {
                    args.insert(0, "--ignore-immutable".to_string());
                }
                let out = sess.jj(ws_dir, &args);
                if out.timed_out {
                    return failed_case("timeout");
                }
                let st = if out.rc == 0 {
                    0
                } else if out.stderr.contains("is immutable") {
                    1
                } else {
                    2
                };
                (st, out.stderr)
            }
        };
        // operations added
        heads = cmdsess::op_heads(&ws1);
        if heads.len() != 1 {
            return failed_case("opheads");
        }
        let fresh_ops = cmdsess::new_ops(&loader, &heads, &|h| known_ops.contains(h));
        let nops = fresh_ops.len();
        let mut rewritten: BTreeSet<usize> = BTreeSet::new();
        let mut unknown_preds = 0;
        for op in &fresh_ops {
            known_ops.insert(op.id().hex());
            if let Some(m) = &op.store_operation().commit_predecessors {
                for (_new, olds) in m {
                    for o in olds {
                        match w.num.get(&o.hex()) {
                            Some(n) => {
                                rewritten.insert(*n);
                            }
                            None => unknown_preds += 1,
                        }
                    }
                }
            }
        }
        if unknown_preds > 0 {
            shapes.push("note:predecessor-never-visible".into());
        }
        // observation after; the visible graph and its flags are a function of the head
        // operation and the configuration, so an unchanged head needs no new `jj log`
        let obs = if nops == 0 && !matches!(cmd, Cmd::Observe) {
            last_obs.clone()
        } else {
            let Some(obs) = observe_log(&mut sess, &ws1) else {
                return failed_case("obs");
            };
            obs
        };
        last_obs = obs.clone();
        let vis_before: BTreeSet<usize> = w.vis.iter().copied().collect();
        let Some(delta) = absorb(&mut w, &obs) else { return failed_case("absorb") };
        let v = match read_view(&loader, &heads[0], &w) {
            Ok(v) => v,
            Err(e) => return failed_case(&e),
        };
        let view_before = std::mem::replace(&mut w.view, v);
        let _ = view_before;
        let vis_after: BTreeSet<usize> = w.vis.iter().copied().collect();
        if matches!(cmd, Cmd::Observe) {
            // a configuration edit: the event records the flags shown under the new setting
            imm_pre = w.imm.iter().copied().collect();
        }
        // statistics
        let hidden: Vec<usize> = vis_before.difference(&vis_after).copied().collect();
        if status == 1 {
            n_refused += 1;
        }
        if status == 0 && (!rewritten.is_empty() || !hidden.is_empty()) {
            n_ok_rewrite += 1;
        }
        let wc_pre_imm = wc_pre.map(|c| imm_pre.contains(&c)).unwrap_or(false);
        if status == 0 && nops > 0 && wc_pre_imm {
            if matches!(cmd, Cmd::Snapshot) {
                n_snap_child += 1;
            }
            if stderr.contains("became immutable") {
                n_fixup += 1;
            }
        } else if stderr.contains("became immutable") {
            n_fixup += 1;
        }
        if let Some(c) = wc_pre {
            if wc_pre_imm && !override_flag && (rewritten.contains(&c) || hidden.contains(&c)) {
                n_known += 1;
            }
        }
        shapes.push(format!("cmd:{}", cmd_kind(&cmd)));
        shapes.push(format!(
            "status:{}",
            match status {
                0 => if nops > 0 { "ok" } else { "noop" },
                1 => "refused",
                _ => "error",
            }
        ));
        if status == 1 {
            shapes.push(format!("refused:{}", cmd_kind(&cmd)));
        }
        if override_flag {
            shapes.push(format!("override:{}", if status == 0 && imm_pre.iter().any(|c| rewritten.contains(c) || hidden.contains(c)) { "rewrote-immutable" } else { "no-effect" }));
        }
        events.push(format!(
            "(mk_event {ws}%N {} {} {} {status}%N {nops} {} {} {} {} {} {})",
            hexpr_term(&cfg),
            if override_flag { "true" } else { "false" },
            cmd_term(&cmd),
            graph_term(&delta.new),
            nat_list(&delta.newdisc),
            nat_list(&rewritten.iter().copied().collect::<Vec<_>>()),
            view_term(&w.view),
            nat_list(&imm_pre),
            nat_list(&w.vis),
        ));
        if matches!(cmd, Cmd::WorkspaceAdd) && status == 0 {
            have_ws2 = true;
        }
        if !matches!(cmd, Cmd::Observe) {
            step += 1;
        } else if rng.chance(1, 3) {
            step += 1;
        }
        let _ = w.children_visible(0);
    }
    let _ = cfg_is_default;
    let term = format!(
        "(mk_case {init_term} [{}] {})%nat",
        events.join("; "),
        nat_list(&w.vis)
    );
    if n_refused > 0 {
        shapes.push("session:has-refusal".into());
    }
    if n_snap_child > 0 {
        shapes.push("session:snapshot-on-immutable-wc".into());
    }
    if n_fixup > 0 {
        shapes.push("session:wc-became-immutable-fixup".into());
    }
    if n_known > 0 {
        shapes.push("session:known-class-witnessed".into());
    }
    let _ = std::fs::remove_dir_all(&root);
    SessionResult {
        term,
        nontrivial: n_refused > 0 && n_ok_rewrite > 0,
        shapes,
        invocations: sess.invocations,
    }
}

fn main() {
    jjv::run("C42", "C42", |ctx| {
        let idx = ctx.indices();
        let jobs: Vec<(usize, Rng)> = idx.iter().map(|&i| (i, ctx.rng(i))).collect();
        let scratch = ctx.scratch.clone();
        let tier = ctx.tier.clone();
        let nthreads = 12usize.min(jobs.len().max(1));
        let next = std::sync::atomic::AtomicUsize::new(0);
        let results: std::sync::Mutex<BTreeMap<usize, SessionResult>> = std::sync::Mutex::new(BTreeMap::new());
        std::thread::scope(|s| {
            for _ in 0..nthreads {
                s.spawn(|| loop {
                    let k = next.fetch_add(1, std::sync::atomic::Ordering::SeqCst);
                    if k >= jobs.len() {
                        break;
                    }
                    let (i, rng) = jobs[k].clone();
                    let r = jjv::catch(|| session(i, rng, &scratch, &tier))
                        .unwrap_or_else(|| failed_case("panic"));
                    results.lock().unwrap().insert(i, r);
                });
            }
        });
        let results = results.into_inner().unwrap();
        let mut inv = 0;
        for (i, r) in results {
            inv += r.invocations;
            for s in &r.shapes {
                ctx.count(s);
            }
            ctx.emit(i, r.term, r.nontrivial, "session");
        }
        ctx.note(format!("jj invocations: {inv}"));
    });
}
