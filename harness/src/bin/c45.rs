//! C45: real pushes with jj_lib::git::push_refs (classify_ref_push_action ->
//! GitPushRefTargets -> push_updates -> `git push --force-with-lease`) from a Git-backed jj
//! repo to a local bare remote, under random schedules of: somebody else updating the remote
//! (directly in the bare repository, or in a quarter of the cases by a second plain-git clone
//! running `git push -f`), jj-side bookmark edits, track/untrack, jj "fetch" and pushes.
//! In a third of the cases (and in the two fixed cases with index 0 and 1) the bare remote has
//! an executable hooks/update that refuses refs/heads/deny*, so pushes mix accepted refs,
//! lease-stale refs ("stale info") and refs the remote rejects ("remote rejected").
//! In about a quarter of the cases (and fixed case 2) one push_refs call carries bookmarks AND
//! tags (refs/tags/t<k>, remote-tag records name@origin, refs/jj/remote-tags/origin/ in the
//! backing repo), exactly one of them lease-stale; ref keys >= 100 are tags.
//! `jj git fetch` needs git >= 2.41 (installed: 2.39), so fetch = plain `git fetch --prune
//! origin` inside the backing repository followed by jj_lib::git::import_refs, which is the
//! same state change to the view. All states are observed around every fetch and push.
use std::collections::HashMap;
use std::path::Path;
use std::path::PathBuf;
use std::process::Command;
use std::sync::Arc;

use jj_lib::backend::CommitId;
use jj_lib::git;
use jj_lib::git::GitImportOptions;
use jj_lib::git::GitPushOptions;
use jj_lib::git::GitPushRefTargets;
use jj_lib::git::GitSidebandLineTerminator;
use jj_lib::git::GitSubprocessCallback;
use jj_lib::git::GitSubprocessOptions;
use jj_lib::git_backend::GitBackend;
use jj_lib::merge::Diff;
use jj_lib::merge::Merge;
use jj_lib::object_id::ObjectId as _;
use jj_lib::op_store::RefTarget;
use jj_lib::op_store::RemoteRef;
use jj_lib::op_store::RemoteRefState;
use jj_lib::ref_name::RefName;
use jj_lib::ref_name::RemoteName;
use jj_lib::ref_name::RemoteRefSymbol;
use jj_lib::refs::LocalAndRemoteRef;
use jj_lib::refs::RefPushAction;
use jj_lib::refs::classify_ref_push_action;
use jj_lib::repo::ReadonlyRepo;
use jj_lib::repo::Repo as _;
use jj_lib::signing::Signer;
use jj_lib::str_util::StringMatcher;
use jj_lib::view::View;
use jjv::Rng;
use jjv::coq;
use pollster::FutureExt as _;
use testutils::CommitBuilderExt as _;

const ROOT: u64 = 1;

struct NullCallback;
impl GitSubprocessCallback for NullCallback {
    fn needs_progress(&self) -> bool {
        false
    }
    fn progress(&mut self, _progress: &git::GitProgress) -> std::io::Result<()> {
        Ok(())
    }
    fn local_sideband(&mut self, _m: &[u8], _t: Option<GitSidebandLineTerminator>) -> std::io::Result<()> {
        Ok(())
    }
    fn remote_sideband(&mut self, _m: &[u8], _t: Option<GitSidebandLineTerminator>) -> std::io::Result<()> {
        Ok(())
    }
}

thread_local! {
    /// names the remote's update hook refuses in the current case (refs/heads/deny<n>)
    static DENIED: std::cell::RefCell<Vec<u64>> = const { std::cell::RefCell::new(Vec::new()) };
}
fn is_denied(n: u64) -> bool {
    DENIED.with(|d| d.borrow().contains(&n))
}
fn is_tag(n: u64) -> bool {
    n >= 100
}
fn bname(n: u64) -> String {
    if is_tag(n) {
        format!("t{}", n - 100)
    } else if is_denied(n) {
        format!("deny{n}")
    } else {
        format!("b{n}")
    }
}
fn tag_num(s: &str) -> Option<u64> {
    let n: u64 = s.strip_prefix('t')?.parse().ok()?;
    Some(100 + n)
}
fn name_num(s: &str) -> Option<u64> {
    if let Some(r) = s.strip_prefix("deny") {
        let n: u64 = r.parse().ok()?;
        return is_denied(n).then_some(n);
    }
    let n: u64 = s.strip_prefix('b')?.parse().ok()?;
    (!is_denied(n)).then_some(n)
}

/// Runs plain git with a watchdog; returns success.
fn run_git(dir: &Path, args: &[&str]) -> bool {
    let out = Command::new("timeout")
        .arg("60")
        .arg("git")
        .current_dir(dir)
        .args(args)
        .env("GIT_CONFIG_GLOBAL", "/dev/null")
        .env("GIT_CONFIG_SYSTEM", "/dev/null")
        .env("GIT_TERMINAL_PROMPT", "0")
        .output();
    matches!(out, Ok(o) if o.status.success())
}

#[derive(Clone, Default)]
struct Snap {
    local: Vec<(u64, Vec<u64>)>,
    remote_bm: Vec<(u64, Vec<u64>, bool)>,
    grefs: Vec<(u64, Vec<u64>)>,
    backing: Vec<(u64, u64)>,
    remote: Vec<(u64, u64)>,
}

struct World {
    backing_dir: PathBuf,
    source_dir: PathBuf,
    ids: Vec<Option<CommitId>>,
    num: HashMap<CommitId, u64>,
    flags_ok: bool,
    notes: Vec<String>,
}

impl World {
    fn bad(&mut self, why: impl Into<String>) {
        self.flags_ok = false;
        let why = why.into();
        if std::env::var_os("C45_DEBUG").is_some() {
            eprintln!("bad: {why}");
        }
        if self.notes.len() < 4 {
            self.notes.push(why);
        }
    }
    fn number(&mut self, id: &CommitId) -> u64 {
        match self.num.get(id) {
            Some(k) => *k,
            None => {
                self.bad(format!("unnumbered commit {}", id.hex()));
                9999
            }
        }
    }
    fn target_vec(&mut self, t: &RefTarget) -> Vec<u64> {
        let terms: Vec<Option<CommitId>> = t.as_merge().iter().cloned().collect();
        terms.iter().map(|o| o.as_ref().map_or(0, |id| self.number(id))).collect()
    }
    fn to_target(&self, v: &[u64]) -> RefTarget {
        let terms: Vec<Option<CommitId>> =
            v.iter().map(|k| if *k == 0 { None } else { self.ids[*k as usize].clone() }).collect();
        RefTarget::from_merge(Merge::from_vec(terms))
    }
    fn oid(&self, k: u64) -> gix::ObjectId {
        gix::ObjectId::from_bytes_or_panic(self.ids[k as usize].as_ref().unwrap().as_bytes())
    }
    fn git_refs_under(&mut self, dir: &Path, prefix: &str) -> Vec<(u64, u64)> {
        let tags = prefix.contains("tags/");
        let repo = testutils::git::open(dir);
        let mut found = vec![];
        {
            let platform = repo.references().unwrap();
            for r in platform.prefixed(prefix).unwrap() {
                let r = r.unwrap();
                let full = r.name().as_bstr().to_string();
                let id = r.target().try_id().map(|i| i.to_owned());
                found.push((full, id));
            }
        }
        let mut out = vec![];
        for (full, id) in found {
            let short = full.strip_prefix(prefix).unwrap_or("");
            if short == "HEAD" {
                continue;
            }
            let key = if tags { tag_num(short) } else { name_num(short) };
            match (key, id) {
                (Some(k), Some(oid)) => {
                    let c = self.number(&CommitId::from_bytes(oid.as_bytes()));
                    out.push((k, c));
                }
                _ => self.bad(format!("stray git ref {full}")),
            }
        }
        out.sort();
        out
    }
    fn snapshot(&mut self, view: &View) -> Snap {
        let mut s = Snap::default();
        let locals: Vec<(String, RefTarget)> =
            view.local_bookmarks().map(|(n, t)| (n.as_str().to_string(), t.clone())).collect();
        for (n, t) in locals {
            match name_num(&n) {
                Some(k) => {
                    let v = self.target_vec(&t);
                    s.local.push((k, v));
                }
                None => self.bad(format!("stray local bookmark {n}")),
            }
        }
        let remotes: Vec<(String, String, RemoteRef)> = view
            .all_remote_bookmarks()
            .map(|(sym, r)| (sym.name.as_str().to_string(), sym.remote.as_str().to_string(), r.clone()))
            .collect();
        for (n, remote, r) in remotes {
            if remote != "origin" {
                self.bad(format!("stray remote bookmark {n}@{remote}"));
                continue;
            }
            match name_num(&n) {
                Some(k) => {
                    let v = self.target_vec(&r.target);
                    s.remote_bm.push((k, v, r.state == RemoteRefState::Tracked));
                }
                None => self.bad(format!("stray remote bookmark {n}")),
            }
        }
        // tags: keys 100 + k
        let ltags: Vec<(String, RefTarget)> =
            view.local_tags().map(|(n, t)| (n.as_str().to_string(), t.clone())).collect();
        for (n, t) in ltags {
            match tag_num(&n) {
                Some(k) => {
                    let v = self.target_vec(&t);
                    s.local.push((k, v));
                }
                None => self.bad(format!("stray local tag {n}")),
            }
        }
        let rtags: Vec<(String, String, RemoteRef)> = view
            .all_remote_tags()
            .map(|(sym, r)| (sym.name.as_str().to_string(), sym.remote.as_str().to_string(), r.clone()))
            .collect();
        for (n, remote, r) in rtags {
            match (remote == "origin", tag_num(&n)) {
                (true, Some(k)) => {
                    let v = self.target_vec(&r.target);
                    s.remote_bm.push((k, v, r.state == RemoteRefState::Tracked));
                }
                _ => self.bad(format!("stray remote tag {n}@{remote}")),
            }
        }
        let grefs: Vec<(String, RefTarget)> =
            view.git_refs().iter().map(|(n, t)| (n.as_str().to_string(), t.clone())).collect();
        for (n, t) in grefs {
            match n.strip_prefix("refs/remotes/origin/").and_then(name_num) {
                Some(k) => {
                    let v = self.target_vec(&t);
                    s.grefs.push((k, v));
                }
                None => self.bad(format!("stray git_ref {n}")),
            }
        }
        let backing_dir = self.backing_dir.clone();
        let source_dir = self.source_dir.clone();
        s.backing = self.git_refs_under(&backing_dir, "refs/remotes/origin/");
        let bt = self.git_refs_under(&backing_dir, "refs/jj/remote-tags/origin/");
        s.backing.extend(bt);
        if !self.git_refs_under(&backing_dir, "refs/tags/").is_empty() {
            self.bad("backing repo has local tags");
        }
        if !self.git_refs_under(&backing_dir, "refs/heads/").is_empty() {
            self.bad("backing repo has local branches");
        }
        s.remote = self.git_refs_under(&source_dir, "refs/heads/");
        let rt = self.git_refs_under(&source_dir, "refs/tags/");
        s.remote.extend(rt);
        s.local.sort();
        s.remote_bm.sort();
        s.grefs.sort();
        s
    }
}

fn tgt_term(t: &[u64]) -> String {
    coq::list(t.iter(), |c| coq::n(*c))
}
fn rmap_term(m: &[(u64, Vec<u64>)]) -> String {
    coq::list(m.iter(), |(k, t)| coq::pair(coq::n(*k), tgt_term(t)))
}
fn gmap_term(m: &[(u64, u64)]) -> String {
    coq::list(m.iter(), |(k, c)| coq::pair(coq::n(*k), coq::n(*c)))
}
fn snap_term(s: &Snap) -> String {
    coq::app(
        "mk_psnap",
        &[
            rmap_term(&s.local),
            coq::list(s.remote_bm.iter(), |(k, t, tr)| {
                coq::pair(coq::n(*k), coq::pair(tgt_term(t), coq::b(*tr)))
            }),
            rmap_term(&s.grefs),
            gmap_term(&s.backing),
            gmap_term(&s.remote),
        ],
    )
}
fn gget(m: &[(u64, u64)], k: u64) -> u64 {
    m.iter().find(|(n, _)| *n == k).map_or(0, |(_, c)| *c)
}

fn main() {
    jjv::run("C45", "C45", |ctx| {
        unsafe { std::env::set_var("TMPDIR", &ctx.scratch) };
        for i in ctx.indices() {
            let mut rng = ctx.rng(i);
            let fixed = if i < 3 { Some(i as u8) } else { None };
            let res = std::panic::catch_unwind(std::panic::AssertUnwindSafe(|| one_case(&mut rng, fixed)));
            let (term, nontrivial, shape, feats, notes) = match res {
                Ok(r) => r,
                Err(e) => {
                    let msg = e
                        .downcast_ref::<String>()
                        .cloned()
                        .or_else(|| e.downcast_ref::<&str>().map(|s| s.to_string()))
                        .unwrap_or_default();
                    ctx.panicked();
                    (
                        "(mk_case [] [] false [] [] false)".to_string(),
                        false,
                        "harness-panic".to_string(),
                        vec![],
                        vec![format!("panic: {msg}")],
                    )
                }
            };
            for f in feats {
                ctx.count(&format!("feat:{f}"));
            }
            for n in notes {
                ctx.note(format!("case {i}: {n}"));
            }
            ctx.emit(i, term, nontrivial, &shape);
        }
    });
}

fn one_case(rng: &mut Rng, fixed: Option<u8>) -> (String, bool, String, Vec<&'static str>, Vec<String>) {
    let settings = testutils::user_settings();
    let temp_dir = testutils::new_temp_dir();
    let source_dir = temp_dir.path().join("source");
    let backing_dir = temp_dir.path().join("git");
    let other_dir = temp_dir.path().join("other");
    let jj_dir = temp_dir.path().join("jj");
    let source = testutils::git::init_bare(&source_dir);

    let mut n_names = rng.range(1, 3);
    let mut n_ext = rng.range(1, 3);
    let mut n_jj = rng.range(2, 4);
    let mut auto_track = rng.chance(2, 3);
    let mut real_other = rng.chance(1, 4);
    // a third of the cases: the remote has an update hook that refuses refs/heads/deny*
    let hook_mode = matches!(fixed, Some(0) | Some(1)) || (fixed.is_none() && rng.chance(1, 3));
    // a quarter of the other cases (and fixed case 2): bookmarks AND tags in the same pushes
    let tag_mode = fixed == Some(2) || (fixed.is_none() && !hook_mode && rng.chance(2, 5));
    let mut n_tags = if tag_mode { rng.range(1, 2) } else { 0 };
    let mut denied: Vec<u64> = vec![];
    if hook_mode {
        n_names = n_names.max(2);
        denied.push(n_names);
        if n_names >= 3 && rng.chance(1, 4) {
            denied.push(n_names - 1);
        }
    }
    match fixed {
        Some(0) => {
            (n_names, n_ext, n_jj, auto_track, real_other) = (3, 2, 3, true, false);
            denied = vec![3];
        }
        Some(1) => {
            (n_names, n_ext, n_jj, auto_track, real_other) = (2, 1, 2, false, false);
            denied = vec![2];
        }
        Some(_) => {
            (n_names, n_ext, n_jj, auto_track, real_other) = (2, 2, 3, true, false);
            n_tags = 2;
        }
        None => {}
    }
    if tag_mode {
        real_other = false;
    }
    denied.sort();
    DENIED.with(|d| *d.borrow_mut() = denied.clone());
    let mut names: Vec<u64> = (1..=n_names).collect();
    let bm_names: Vec<u64> = names.clone();
    let tag_names: Vec<u64> = (1..=n_tags).map(|k| 100 + k).collect();
    names.extend(tag_names.iter().copied());
    if !denied.is_empty() {
        use std::os::unix::fs::PermissionsExt as _;
        let hooks = source_dir.join("hooks");
        std::fs::create_dir_all(&hooks).unwrap();
        let hook = hooks.join("update");
        std::fs::write(&hook, "#!/bin/sh\ncase \"$1\" in refs/heads/deny*) echo denied by hook >&2; exit 1;; esac\nexit 0\n").unwrap();
        std::fs::set_permissions(&hook, std::fs::Permissions::from_mode(0o755)).unwrap();
    }

    let mut w = World {
        backing_dir: backing_dir.clone(),
        source_dir: source_dir.clone(),
        ids: vec![None, None],
        num: HashMap::new(),
        flags_ok: true,
        notes: vec![],
    };
    let mut graph: Vec<(u64, Vec<u64>)> = vec![];

    // ---- commits made by "somebody else": they exist in the remote's object store only
    let empty_tree = source.empty_tree().id().detach();
    let mut ext_commits: Vec<u64> = vec![];
    for _ in 0..n_ext {
        let k = w.ids.len() as u64;
        let mut parents: Vec<u64> = vec![];
        if !ext_commits.is_empty() && rng.chance(2, 3) {
            parents.push(*ext_commits.last().unwrap());
        }
        let ps: Vec<gix::ObjectId> = parents.iter().map(|p| w.oid(*p)).collect();
        let oid = testutils::git::write_commit(
            &source,
            &format!("refs/verif/c{k}"),
            empty_tree,
            &format!("external commit {k}"),
            &ps,
        );
        let id = CommitId::from_bytes(oid.as_bytes());
        w.ids.push(Some(id.clone()));
        w.num.insert(id, k);
        ext_commits.push(k);
        graph.push((k, if parents.is_empty() { vec![ROOT] } else { parents }));
    }

    // ---- the backing Git repository (a clone of the remote, set up without spawning
    // `git clone`: init + remote configuration) and the jj repo on top of it
    let append_config = |git_dir: &Path, text: &str| {
        use std::io::Write as _;
        let mut f = std::fs::OpenOptions::new().append(true).open(git_dir.join("config")).unwrap();
        f.write_all(text.as_bytes()).unwrap();
    };
    let remote_section = format!(
        "[remote \"origin\"]\n\turl = {}\n\tfetch = +refs/heads/*:refs/remotes/origin/*\n[gc]\n\tauto = 0\n[maintenance]\n\tauto = false\n",
        source_dir.display()
    );
    append_config(&source_dir, "[gc]\n\tauto = 0\n[receive]\n\tautogc = false\n[maintenance]\n\tauto = false\n");
    let _ = testutils::git::init(&backing_dir);
    append_config(&backing_dir.join(".git"), &remote_section);
    if real_other {
        let _ = testutils::git::init(&other_dir);
        append_config(&other_dir.join(".git"), &remote_section);
        // the second clone sees the external commits through an alternates file
        std::fs::write(
            other_dir.join(".git/objects/info/alternates"),
            format!("{}\n", source_dir.join("objects").display()),
        )
        .unwrap_or_else(|_| {
            std::fs::create_dir_all(other_dir.join(".git/objects/info")).unwrap();
            std::fs::write(
                other_dir.join(".git/objects/info/alternates"),
                format!("{}\n", source_dir.join("objects").display()),
            )
            .unwrap();
        });
    }
    std::fs::create_dir(&jj_dir).unwrap();
    let git_path = backing_dir.join(".git");
    let repo0: Arc<ReadonlyRepo> = ReadonlyRepo::init(
        &settings,
        &jj_dir,
        &|settings, store_path| Ok(Box::new(GitBackend::init_external(settings, store_path, &git_path)?)),
        Signer::from_settings(&settings).unwrap(),
        ReadonlyRepo::default_op_store_initializer(),
        ReadonlyRepo::default_op_heads_store_initializer(),
        ReadonlyRepo::default_index_store_initializer(),
        ReadonlyRepo::default_submodule_store_initializer(),
    )
    .block_on()
    .unwrap();
    let root_id = repo0.store().root_commit_id().clone();
    w.ids[1] = Some(root_id.clone());
    w.num.insert(root_id.clone(), ROOT);

    // ---- jj's own commits
    let mut repo = repo0.clone();
    let mut jj_commits: Vec<u64> = vec![];
    {
        let mut tx = repo.start_transaction();
        for _ in 0..n_jj {
            let k = w.ids.len() as u64;
            let mut parents: Vec<u64> = vec![];
            if !jj_commits.is_empty() && rng.chance(2, 3) {
                parents.push(*jj_commits.last().unwrap());
            }
            let ps: Vec<CommitId> = if parents.is_empty() {
                vec![root_id.clone()]
            } else {
                parents.iter().map(|p| w.ids[*p as usize].clone().unwrap()).collect()
            };
            let c = tx
                .repo_mut()
                .new_commit(ps, repo.store().empty_merged_tree())
                .set_description(format!("jj commit {k}"))
                .write_unwrap();
            w.ids.push(Some(c.id().clone()));
            w.num.insert(c.id().clone(), k);
            jj_commits.push(k);
            graph.push((k, if parents.is_empty() { vec![ROOT] } else { parents }));
        }
        repo = tx.commit("setup").block_on().unwrap();
    }
    let all_commits: Vec<u64> = (2..w.ids.len() as u64).collect();

    let mut auto_map = HashMap::new();
    if auto_track {
        auto_map.insert(RemoteName::new("origin").to_owned(), StringMatcher::all());
    }
    let import_options = GitImportOptions {
        abandon_unreachable_commits: rng.chance(1, 2),
        record_synthetic_predecessors: rng.chance(1, 2),
        remote_auto_track_bookmarks: auto_map,
    };
    let subprocess_options = GitSubprocessOptions::from_settings(&settings).unwrap();
    let origin = RemoteName::new("origin");

    // ---- the schedule
    // plan items: (op, forced name, forced value); ops: 0 external update, 1 jj set,
    // 2 track/untrack, 3 fetch, 4 push
    type Item = (u8, Option<u64>, Option<u64>);
    let len = if fixed.is_some() { 0 } else { rng.range(1, 4) };
    let mut plan: Vec<Item> = vec![];
    let mut script: &'static str = "script:none";
    let ok_names: Vec<u64> = names.iter().copied().filter(|n| !denied.contains(n)).collect();
    let use_tag_script = tag_mode;
    if use_tag_script {
        // tag pool: one push_refs call with bookmarks and tags, exactly one of them stale
        let a = jj_commits[0];
        let b2 = jj_commits[1];
        let e = ext_commits[0];
        let ext = |n: u64, c: u64| -> Item { (0, Some(n), Some(c)) };
        let jj = |n: u64, c: u64| -> Item { (1, Some(n), Some(c)) };
        let push1 = |n: u64| -> Item { (4, Some(n), None) };
        let push_all: Item = (5, None, None);
        let bm = bm_names[0];
        let tg = tag_names[0];
        let stale_bookmark = |bm: u64, tg: u64| -> Vec<Item> {
            vec![jj(bm, a), push1(bm), ext(bm, e), jj(bm, b2), jj(tg, a), push_all.clone(), jj(tg, b2), push_all.clone()]
        };
        let stale_tag = |bm: u64, tg: u64| -> Vec<Item> {
            vec![jj(tg, a), push1(tg), ext(tg, e), jj(tg, b2), jj(bm, a), push_all.clone(), jj(bm, b2), push_all.clone()]
        };
        let k = if fixed.is_some() { 9 } else { rng.below(4) };
        let items: Vec<Item> = match k {
            9 => {
                script = "script:tags-fixed-stale-bookmark-then-stale-tag";
                let mut v = stale_bookmark(bm_names[0], tag_names[0]);
                v.extend(stale_tag(bm_names[1], tag_names[1]));
                v
            }
            0 => {
                script = "script:tags-stale-bookmark-accepted-tag";
                stale_bookmark(bm, tg)
            }
            1 => {
                script = "script:tags-stale-tag-accepted-bookmark";
                stale_tag(bm, tg)
            }
            2 => {
                script = "script:tags-both-accepted-then-tag-delete";
                vec![jj(bm, a), jj(tg, a), push_all.clone(), jj(tg, 0), jj(bm, b2), push_all.clone()]
            }
            _ => {
                script = "script:tags-ext-tag-delete-and-bookmark-move";
                vec![jj(bm, a), jj(tg, a), push_all.clone(), ext(tg, 0), jj(tg, b2), jj(bm, b2), push_all.clone()]
            }
        };
        plan.extend(items);
    } else if !denied.is_empty() && (fixed.is_some() || rng.chance(4, 5)) {
        // hook pool: pushes that mix accepted, lease-stale and hook-denied refs
        let d = *denied.last().unwrap();
        let m = ok_names[0];
        let s2 = if ok_names.len() > 1 { ok_names[1] } else { m };
        let a = jj_commits[0];
        let b = jj_commits[1];
        let e = ext_commits[0];
        let e2 = if ext_commits.len() > 1 { ext_commits[1] } else { 0 };
        let ext = |n: u64, c: u64| -> Item { (0, Some(n), Some(c)) };
        let jj = |n: u64, c: u64| -> Item { (1, Some(n), Some(c)) };
        let track = |n: u64| -> Item { (2, Some(n), Some(1)) };
        let fetch: Item = (3, None, None);
        let push1 = |n: u64| -> Item { (4, Some(n), None) };
        let push_all: Item = (5, None, None);
        let k = match fixed {
            Some(0) => 0,
            Some(_) => 1,
            None => rng.below(5),
        };
        let items: Vec<Item> = match k {
            0 if s2 != m => {
                script = "script:hook-mixed-accepted-stale-denied";
                vec![
                    jj(s2, a), push1(s2), ext(d, e), fetch, track(d), ext(s2, e2), jj(s2, b), jj(m, a),
                    jj(d, a), push_all, jj(d, 0), push1(d), jj(m, b), push_all,
                ]
            }
            1 => {
                script = "script:hook-single-denied-create";
                vec![jj(d, a), push1(d), jj(m, a), push_all]
            }
            2 => {
                script = "script:hook-denied-move";
                vec![ext(d, e), fetch, track(d), jj(d, a), jj(m, a), push_all, jj(m, b), push_all]
            }
            3 => {
                script = "script:hook-denied-delete";
                vec![ext(d, e), fetch, track(d), jj(d, 0), jj(m, a), push_all, push1(d)]
            }
            _ => {
                script = "script:hook-denied-create-with-accepted";
                vec![jj(m, a), jj(d, b), push_all, jj(m, b), push_all]
            }
        };
        plan.extend(items);
    } else if rng.chance(7, 10) {
        // edge pool: a scripted race on one name, then a random tail
        let n = *rng.pick(&names);
        let m = if names.len() > 1 { names[(names.iter().position(|x| *x == n).unwrap() + 1) % names.len()] } else { n };
        let a = jj_commits[0];
        let b = jj_commits[1];
        let e = ext_commits[0];
        let ext = |c: u64| -> Item { (0, Some(n), Some(c)) };
        let jj = |c: u64| -> Item { (1, Some(n), Some(c)) };
        let fetch: Item = (3, None, None);
        let push: Item = (4, Some(n), None);
        let items: Vec<Item> = match rng.below(9) {
            0 => {
                script = "script:create-move-delete";
                vec![jj(a), push, jj(b), push, jj(0), push]
            }
            1 => {
                script = "script:ext-move-between-pushes";
                vec![jj(a), push, ext(e), jj(b), push, fetch, push]
            }
            2 => {
                script = "script:ext-delete-between-pushes";
                vec![jj(a), push, ext(0), jj(b), push]
            }
            3 => {
                script = "script:ext-move-then-jj-delete";
                vec![jj(a), push, ext(e), jj(0), push]
            }
            4 => {
                script = "script:ext-create-vs-jj-create";
                vec![ext(e), jj(a), push, fetch, push]
            }
            5 if m != n => {
                // the remote already has the value jj is about to push ("up to date")
                script = "script:remote-already-at-new-value";
                vec![jj(a), push, (1, Some(m), Some(b)), (4, Some(m), None), jj(b), ext(b), push]
            }
            6 => {
                script = "script:ext-update-between-fetch-and-push";
                vec![ext(e), fetch, jj(a), ext(if ext_commits.len() > 1 { ext_commits[1] } else { 0 }), push]
            }
            7 => {
                script = "script:ext-delete-vs-jj-delete";
                vec![jj(a), push, ext(0), jj(0), push]
            }
            _ => {
                script = "script:fetch-then-push-no-race";
                vec![ext(e), fetch, jj(a), push, jj(b), push]
            }
        };
        plan.extend(items);
    }
    for _ in 0..len {
        let r = rng.below(100);
        let op = if r < 25 {
            0 // external update of the remote
        } else if r < 50 {
            1 // jj sets a local bookmark
        } else if r < 56 {
            2 // track / untrack
        } else if r < 72 {
            3 // fetch
        } else {
            4 // push
        };
        let op = if tag_mode && (op == 3 || op == 2) { 1 } else { op };
        plan.push((op, None, None));
    }
    if fixed.is_none() {
        plan.push((4, None, None));
    }

    let mut steps: Vec<String> = vec![];
    let mut tx = repo.start_transaction();
    let (mut n_push, mut n_pushed, mut n_rejected, mut n_ext_race) = (0u32, 0u32, 0u32, 0u32);
    let mut n_remote_rejected = 0u32;
    let mut kinds: Vec<&'static str> = vec![];
    let mut ext_since_sync: Vec<u64> = vec![];

    for (op, forced_name, forced_val) in plan {
        match op {
            0 => {
                let n = forced_name.unwrap_or_else(|| *rng.pick(&names));
                let full = if is_tag(n) {
                    format!("refs/tags/{}", bname(n))
                } else {
                    format!("refs/heads/{}", bname(n))
                };
                let src = testutils::git::open(&source_dir);
                // candidates: external commits, and jj commits that have reached the remote
                let cands: Vec<u64> = all_commits
                    .iter()
                    .copied()
                    .filter(|k| src.find_object(w.oid(*k)).is_ok())
                    .collect();
                let c = match forced_val {
                    Some(v) if v == 0 || cands.contains(&v) => v,
                    Some(_) => 0,
                    None => {
                        if rng.chance(1, 4) || cands.is_empty() { 0 } else { *rng.pick(&cands) }
                    }
                };
                // the hook would refuse the second clone's push too: somebody with direct
                // access to the remote repository moves denied branches
                if real_other && !is_denied(n) {
                    let spec = if c == 0 { format!(":{full}") } else { format!("{}:{full}", w.oid(c)) };
                    // deleting a branch that does not exist is an error for git; skip quietly
                    let exists = src.find_reference(&full).is_ok();
                    if c != 0 || exists {
                        if !run_git(&other_dir, &["push", "-q", "-f", "origin", &spec]) {
                            w.bad("second clone: git push failed");
                        }
                    }
                } else if c == 0 {
                    if let Ok(r) = src.find_reference(&full) {
                        r.delete().unwrap();
                    }
                } else {
                    src.reference(full.as_str(), w.oid(c), gix::refs::transaction::PreviousValue::Any, "ext")
                        .unwrap();
                }
                ext_since_sync.push(n);
                steps.push(coq::app("Ext", &[coq::n(n), coq::n(c)]));
            }
            1 => {
                let n = forced_name.unwrap_or_else(|| *rng.pick(&names));
                let known: Vec<u64> = all_commits
                    .iter()
                    .copied()
                    .filter(|k| {
                        tx.repo().index().has_id(w.ids[*k as usize].as_ref().unwrap()).block_on().unwrap_or(false)
                    })
                    .collect();
                let r = rng.below(100);
                let t: Vec<u64> = if let Some(v) = forced_val {
                    vec![v]
                } else if r < 20 {
                    vec![0]
                } else if r < 25 && known.len() >= 2 {
                    vec![known[0], 0, known[1]]
                } else {
                    vec![*rng.pick(&known)]
                };
                let target = w.to_target(&t);
                if is_tag(n) {
                    tx.repo_mut().set_local_tag_target(RefName::new(&bname(n)), target);
                } else {
                    tx.repo_mut().set_local_bookmark_target(RefName::new(&bname(n)), target);
                }
                steps.push(coq::app("JjSet", &[coq::n(n), tgt_term(&t)]));
            }
            2 => {
                let n = forced_name.unwrap_or_else(|| *rng.pick(&bm_names));
                let name = bname(n);
                let sym = RemoteRefSymbol { name: RefName::new(&name), remote: origin };
                let track = match forced_val {
                    Some(v) => v != 0,
                    None => rng.chance(2, 3),
                };
                if track {
                    tx.repo_mut().track_remote_bookmark(sym).block_on().unwrap();
                } else {
                    tx.repo_mut().untrack_remote_bookmark(sym);
                }
                steps.push(coq::app("JjTrack", &[coq::n(n), coq::b(track)]));
            }
            3 => {
                let view = tx.repo().view().clone();
                let pre = w.snapshot(&view);
                if !run_git(&backing_dir, &["fetch", "-q", "--no-tags", "--prune", "origin"]) {
                    w.bad("git fetch failed");
                }
                match jjv::catch(|| git::import_refs(tx.repo_mut(), &import_options).block_on()) {
                    Some(Ok(stats)) => {
                        if !stats.failed_ref_names.is_empty() {
                            w.bad("import: failed_ref_names");
                        }
                    }
                    Some(Err(e)) => w.bad(format!("import error: {e}")),
                    None => w.bad("import panicked"),
                }
                if jjv::catch(|| tx.repo_mut().rebase_descendants().block_on().unwrap()).is_none() {
                    w.bad("rebase_descendants failed");
                }
                let view = tx.repo().view().clone();
                let post = w.snapshot(&view);
                ext_since_sync.clear();
                kinds.push("fetch");
                steps.push(coq::app("Fetch", &[snap_term(&pre), snap_term(&post)]));
            }
            _ => {
                // the bookmarks considered by this push (like -b / --all), ascending
                let ns: Vec<u64> = if let Some(n) = forced_name {
                    vec![n]
                } else if op == 5 || rng.chance(2, 3) {
                    names.clone()
                } else {
                    names.iter().copied().filter(|_| rng.chance(1, 2)).collect()
                };
                let view = tx.repo().view().clone();
                let pre = w.snapshot(&view);
                let mut targets = GitPushRefTargets::default();
                for n in &ns {
                    let name = bname(*n);
                    let sym = RemoteRefSymbol { name: RefName::new(&name), remote: origin };
                    let (local_target, remote_ref) = if is_tag(*n) {
                        (view.get_local_tag(sym.name), view.get_remote_tag(sym))
                    } else {
                        (view.get_local_bookmark(sym.name), view.get_remote_bookmark(sym))
                    };
                    let action = classify_ref_push_action(LocalAndRemoteRef { local_target, remote_ref });
                    if let RefPushAction::Update(Diff { before, after }) = action {
                        let item = (RefName::new(&name).to_owned(), Diff::new(before, after));
                        if is_tag(*n) {
                            targets.tags.push(item);
                        } else {
                            targets.bookmarks.push(item);
                        }
                    }
                }
                let (mut pushed, mut rejected, mut unexported) = (vec![], vec![], 0u64);
                let mut remote_rejected: Vec<u64> = vec![];
                let mixed_kinds = !targets.bookmarks.is_empty() && !targets.tags.is_empty();
                if !targets.bookmarks.is_empty() || !targets.tags.is_empty() {
                    n_push += 1;
                    let res = jjv::catch(|| {
                        git::push_refs(
                            tx.repo_mut(),
                            subprocess_options.clone(),
                            origin,
                            &targets,
                            &mut NullCallback,
                            &GitPushOptions::default(),
                        )
                    });
                    match res {
                        Some(Ok(stats)) => {
                            let to_num = |s: &str| {
                                s.strip_prefix("refs/heads/")
                                    .and_then(name_num)
                                    .or_else(|| s.strip_prefix("refs/tags/").and_then(tag_num))
                                    .unwrap_or(9999)
                            };
                            pushed = stats.pushed.iter().map(|r| to_num(r.as_str())).collect();
                            rejected = stats.rejected.iter().map(|(r, _)| to_num(r.as_str())).collect();
                            remote_rejected = stats.remote_rejected.iter().map(|(r, _)| to_num(r.as_str())).collect();
                            unexported = stats.unexported_bookmarks.len() as u64;
                        }
                        Some(Err(e)) => w.bad(format!("push error: {e}")),
                        None => w.bad("push panicked"),
                    }
                }
                pushed.sort();
                rejected.sort();
                remote_rejected.sort();
                n_remote_rejected += remote_rejected.len() as u32;
                n_pushed += pushed.len() as u32;
                n_rejected += rejected.len() as u32;
                let view = tx.repo().view().clone();
                let post = w.snapshot(&view);
                for n in &rejected {
                    if ext_since_sync.contains(n) {
                        n_ext_race += 1;
                    }
                    if gget(&pre.remote, *n) != gget(&post.remote, *n) {
                        kinds.push("REMOTE-CHANGED-ON-REJECT");
                    }
                }
                for n in &pushed {
                    let (a, b) = (gget(&pre.remote, *n), gget(&post.remote, *n));
                    kinds.push(if a == b {
                        "pushed:up-to-date"
                    } else if a == 0 {
                        "pushed:create"
                    } else if b == 0 {
                        "pushed:delete"
                    } else {
                        "pushed:move"
                    });
                }
                for n in &remote_rejected {
                    let (a, l) = (gget(&pre.remote, *n), pre.local.iter().find(|(k, _)| k == n));
                    kinds.push(if a == 0 {
                        "remote-rejected:create"
                    } else if l.is_none() {
                        "remote-rejected:delete"
                    } else {
                        "remote-rejected:move"
                    });
                    if gget(&pre.remote, *n) != gget(&post.remote, *n) {
                        kinds.push("REMOTE-CHANGED-ON-REJECT");
                    }
                }
                if !remote_rejected.is_empty() && !pushed.is_empty() {
                    kinds.push("push-mixing-accepted-and-remote-rejected");
                }
                if mixed_kinds {
                    kinds.push("push-with-bookmarks-and-tags");
                    let stale_bm = rejected.iter().any(|n| !is_tag(*n));
                    let stale_tag = rejected.iter().any(|n| is_tag(*n));
                    if stale_bm && pushed.iter().any(|n| is_tag(*n)) {
                        kinds.push("mixed-push:stale-bookmark-accepted-tag");
                    }
                    if stale_tag && pushed.iter().any(|n| !is_tag(*n)) {
                        kinds.push("mixed-push:stale-tag-accepted-bookmark");
                    }
                }
                if !remote_rejected.is_empty() && !rejected.is_empty() && !pushed.is_empty() {
                    kinds.push("push-mixing-accepted-stale-and-remote-rejected");
                }
                if !remote_rejected.is_empty() && pushed.is_empty() && rejected.is_empty() {
                    kinds.push("push-with-only-remote-rejected-refs");
                }
                for n in &rejected {
                    let (a, l) = (gget(&pre.remote, *n), pre.local.iter().find(|(k, _)| k == n));
                    kinds.push(if a == 0 {
                        "rejected:remote-deleted"
                    } else if l.is_none() {
                        "rejected:delete"
                    } else {
                        "rejected:move-or-create"
                    });
                }
                steps.push(coq::app(
                    "Push",
                    &[
                        coq::list(ns.iter(), |n| coq::n(*n)),
                        snap_term(&pre),
                        snap_term(&post),
                        coq::list(pushed.iter(), |n| coq::n(*n)),
                        coq::list(rejected.iter(), |n| coq::n(*n)),
                        coq::list(remote_rejected.iter(), |n| coq::n(*n)),
                        coq::n(unexported),
                    ],
                ));
            }
        }
    }
    drop(tx);

    let term = coq::app(
        "mk_case",
        &[
            coq::list(names.iter(), |n| coq::n(*n)),
            coq::list(graph.iter(), |(k, ps)| coq::pair(coq::n(*k), coq::list(ps.iter(), |p| coq::n(*p)))),
            coq::b(auto_track),
            coq::list(denied.iter(), |n| coq::n(*n)),
            coq::list(steps.iter(), |s| s.clone()),
            coq::b(w.flags_ok),
        ],
    );
    let mut feats: Vec<&'static str> = vec![];
    kinds.sort();
    kinds.dedup();
    feats.extend(kinds);
    if n_ext_race > 0 {
        feats.push("rejected-after-external-update-since-last-fetch");
    }
    if real_other {
        feats.push("external-updates-by-second-clone-git-push");
    }
    feats.push(script);
    if !w.flags_ok {
        feats.push("flags-not-ok");
    }
    let nontrivial = n_pushed + n_rejected + n_remote_rejected > 0;
    let _ = n_push;
    let shape = format!(
        "pushed={} stale={} hook_denied={} auto_track={} second_clone={}",
        n_pushed.min(1),
        n_rejected.min(1),
        n_remote_rejected.min(1),
        auto_track,
        real_other
    );
    if fixed.is_some() {
        feats.push("fixed-corpus-case");
    }
    (term, nontrivial, shape, feats, w.notes.clone())
}
