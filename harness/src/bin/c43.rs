//! C43: histories of repo-directory operations (create, write id / legacy files, copy, move,
//! delete, symlink alias, edits under the user's config root) interleaved with
//! SecureConfig::load_config / maybe_load_config on the real file system.
use std::collections::BTreeSet;
use std::fs;
use std::path::Path;
use std::path::PathBuf;

use jj_lib::protos::secure_config::ConfigMetadata;
use jj_lib::secure_config::SecureConfig;
use jj_lib::secure_config::SecureConfigError;
use jjv::Rng;
use jjv::coq;
use prost::Message as _;
use rand::SeedableRng as _;
use rand_chacha::ChaCha20Rng;

fn by(x: &[u8]) -> String {
    coq::bytes(x)
}

/// Absolute path as its '/'-separated components (no normalisation).
fn comps(p: &Path) -> Vec<Vec<u8>> {
    let s = p.to_str().expect("utf8 path");
    s.split('/').skip(1).map(|c| c.as_bytes().to_vec()).collect()
}

thread_local! {
    static BASE: std::cell::RefCell<Vec<Vec<u8>>> = const { std::cell::RefCell::new(vec![]) };
}

/// Paths below the case's base directory are printed as `(b ++ [..])`, `b` being bound once
/// per case (keeps the terms small).
fn c_path(p: &Path) -> String {
    let cs = comps(p);
    BASE.with(|b| {
        let b = b.borrow();
        if !b.is_empty() && cs.len() >= b.len() && cs[..b.len()] == b[..] {
            format!("(b ++ {})", coq::list(cs[b.len()..].iter(), |c| by(c)))
        } else {
            coq::list(cs.iter(), |c| by(c))
        }
    })
}

#[derive(Clone, PartialEq)]
enum IdFile {
    Missing,
    Content(Vec<u8>),
    Unreadable,
}

fn c_id_file(f: &IdFile) -> String {
    match f {
        IdFile::Missing => "IdMissing".into(),
        IdFile::Content(b) => format!("(IdContent {})", by(b)),
        IdFile::Unreadable => "IdUnreadable".into(),
    }
}

fn read_id_file(repo: &Path) -> IdFile {
    match fs::read(repo.join("config-id")) {
        Ok(b) => match String::from_utf8(b) {
            Ok(s) => IdFile::Content(s.into_bytes()),
            Err(_) => IdFile::Unreadable,
        },
        Err(e) if e.kind() == std::io::ErrorKind::NotFound => IdFile::Missing,
        Err(_) => IdFile::Unreadable,
    }
}

enum Md {
    Missing,
    Corrupt,
    Ok(Option<PathBuf>),
}

fn c_md(m: &Md) -> String {
    match m {
        Md::Missing => "MdMissing".into(),
        Md::Corrupt => "MdCorrupt".into(),
        Md::Ok(p) => format!("(MdOk {})", coq::opt(p.as_ref(), |p| c_path(p))),
    }
}

fn read_md(dir: &Path) -> Md {
    match fs::read(dir.join("metadata.binpb")) {
        Ok(b) => match ConfigMetadata::decode(b.as_slice()) {
            Ok(m) => Md::Ok(m.path.map(|p| PathBuf::from(String::from_utf8(p).expect("utf8")))),
            Err(_) => Md::Corrupt,
        },
        Err(_) => Md::Missing,
    }
}

const HEX: &[u8] = b"0123456789abcdef";

fn gen_valid_id(rng: &mut Rng) -> Vec<u8> {
    (0..20)
        .map(|_| {
            let n = if rng.chance(1, 2) { 2 } else { 16 };
            HEX[rng.usize(n)]
        })
        .collect()
}

/// Mostly malformed id-file contents; some valid ones (also upper case).
fn gen_id_content(rng: &mut Rng, known: &[Vec<u8>]) -> IdFile {
    let v = gen_valid_id(rng);
    match rng.below(16) {
        0 => IdFile::Content(b"..".to_vec()),
        1 => IdFile::Content(b"../../../../etc/x".to_vec()),
        2 => IdFile::Content(v[..19].to_vec()),
        3 => IdFile::Content([&v[..], b"0"].concat()),
        4 => IdFile::Content([&v[..19], b"g"].concat()),
        5 => IdFile::Content([&v[..9], b"/", &v[..10]].concat()),
        6 => IdFile::Content([&v[..], b"\n"].concat()),
        7 => IdFile::Content(vec![]),
        8 => IdFile::Content(b"../aaaaaaaaaaaaaaaaa".to_vec()), // 20 chars, escapes if accepted
        9 => IdFile::Content(v.to_ascii_uppercase()),
        10 => IdFile::Unreadable,
        11 => IdFile::Content([&v[..18], "\u{e9}".as_bytes()].concat()), // 20 bytes, 19 chars
        12 | 13 if !known.is_empty() => IdFile::Content(rng.pick(known).clone()),
        _ => IdFile::Content(v),
    }
}

fn main() {
    jjv::run("C43", "C43", |ctx| {
        if std::env::var("C43_DEBUG").is_ok() {
            std::panic::set_hook(Box::new(|info| eprintln!("PANIC {info}")));
        }
        for i in ctx.indices() {
            let mut rng = ctx.rng(i);
            let base = fs::canonicalize(&ctx.scratch).unwrap().join(format!("c{i}"));
            let root = base.join("config");
            fs::create_dir_all(&root).unwrap();
            BASE.with(|b| *b.borrow_mut() = vec![]);
            let base_term = c_path(&base);
            BASE.with(|b| *b.borrow_mut() = comps(&base));
            let mut chacha = ChaCha20Rng::seed_from_u64(rng.next_u64());
            let names = ["r0", "r1", "r2", "r3", "r4"];
            let path_of = |k: usize| base.join(names[k]);
            let mut live: BTreeSet<usize> = BTreeSet::new(); // directories (or aliases) that exist
            let mut aliased: BTreeSet<usize> = BTreeSet::new(); // targets or sources of symlinks
            let mut known_ids: Vec<Vec<u8>> = vec![];
            let mut migrated: Vec<Vec<u8>> = vec![];
            let mut ops: Vec<String> = vec![];
            let mut shape: BTreeSet<&'static str> = BTreeSet::new();
            let mut loads = 0;
            let nops = rng.range(7, 16);
            for step in 0..nops {
                let free: Vec<usize> = (0..names.len()).filter(|k| !live.contains(k)).collect();
                let livev: Vec<usize> = live.iter().copied().collect();
                let movable: Vec<usize> = livev.iter().copied().filter(|k| !aliased.contains(k)).collect();
                let choice = if step == 0 {
                    0
                } else if step == 1 {
                    19
                } else {
                    *rng.pick(&[0u64, 1, 2, 3, 3, 4, 5, 6, 6, 7, 8, 9, 10, 11, 12, 13, 14, 15, 16, 17, 18, 19, 19, 19])
                };
                if std::env::var("C43_DEBUG").is_ok() {
                    eprintln!("case {i} step {step} choice {choice} live {live:?} ops {}", ops.last().cloned().unwrap_or_default().chars().take(150).collect::<String>());
                }
                match choice {
                    0 if !free.is_empty() => {
                        let k = *rng.pick(&free);
                        fs::create_dir(path_of(k)).unwrap();
                        live.insert(k);
                        ops.push(coq::app("OMkRepo", &[c_path(&path_of(k))]));
                    }
                    1 | 2 if !livev.is_empty() => {
                        let k = *rng.pick(&livev);
                        let c = gen_id_content(&mut rng, &known_ids);
                        let f = path_of(k).join("config-id");
                        let _ = fs::remove_file(&f);
                        match &c {
                            IdFile::Missing => {}
                            IdFile::Content(b) => fs::write(&f, b).unwrap(),
                            IdFile::Unreadable => fs::write(&f, [0xffu8, 0xfe, 0x30]).unwrap(),
                        }
                        shape.insert("write-id");
                        ops.push(coq::app("OWriteId", &[c_path(&path_of(k)), c_id_file(&c)]));
                    }
                    3 if !livev.is_empty() => {
                        let k = *rng.pick(&livev);
                        // only on repos that never had an id (legacy migration replaces the
                        // file by a symlink afterwards)
                        if read_id_file(&path_of(k)) == IdFile::Missing
                            && !path_of(k).join("config.toml").exists()
                        {
                            let content = *rng.pick(&["", "a = 1\n", "[ui]\npager = \"x\"\n"]);
                            fs::write(path_of(k).join("config.toml"), content).unwrap();
                            shape.insert("legacy");
                            ops.push(coq::app(
                                "OWriteLegacy",
                                &[c_path(&path_of(k)), format!("(Some {})", by(content.as_bytes()))],
                            ));
                        }
                    }
                    4..=6 if !livev.is_empty() && !free.is_empty() => {
                        // copy: a new directory with copies of the id and legacy files
                        let k = *rng.pick(&livev);
                        let j = *rng.pick(&free);
                        fs::create_dir(path_of(j)).unwrap();
                        for f in ["config-id", "config.toml"] {
                            if let Ok(b) = fs::read(path_of(k).join(f)) {
                                fs::write(path_of(j).join(f), b).unwrap();
                            }
                        }
                        live.insert(j);
                        shape.insert("copy");
                        ops.push(coq::app("OCopy", &[c_path(&path_of(k)), c_path(&path_of(j))]));
                    }
                    7 | 8 if !movable.is_empty() && !free.is_empty() => {
                        let k = *rng.pick(&movable);
                        let j = *rng.pick(&free);
                        fs::rename(path_of(k), path_of(j)).unwrap();
                        live.remove(&k);
                        live.insert(j);
                        shape.insert("move");
                        ops.push(coq::app("OMove", &[c_path(&path_of(k)), c_path(&path_of(j))]));
                    }
                    9 if !movable.is_empty() => {
                        let k = *rng.pick(&movable);
                        fs::remove_dir_all(path_of(k)).unwrap();
                        live.remove(&k);
                        shape.insert("delete");
                        ops.push(coq::app("ODelete", &[c_path(&path_of(k))]));
                    }
                    10 if !livev.is_empty() && !free.is_empty() => {
                        let k = *rng.pick(&livev);
                        let j = *rng.pick(&free);
                        std::os::unix::fs::symlink(path_of(k), path_of(j)).unwrap();
                        live.insert(j);
                        aliased.insert(k);
                        aliased.insert(j);
                        shape.insert("alias");
                        ops.push(coq::app("OAlias", &[c_path(&path_of(k)), c_path(&path_of(j))]));
                    }
                    11 if !known_ids.is_empty() => {
                        // tamper with / remove the metadata of a config directory
                        let id = rng.pick(&known_ids).clone();
                        let dir = root.join(std::str::from_utf8(&id).unwrap());
                        fs::create_dir_all(&dir).unwrap();
                        let f = dir.join("metadata.binpb");
                        let m = match rng.below(4) {
                            0 => {
                                let _ = fs::remove_file(&f);
                                Md::Missing
                            }
                            1 => {
                                fs::write(&f, [0xffu8, 0xff, 0xff]).unwrap();
                                Md::Corrupt
                            }
                            2 => {
                                fs::write(&f, ConfigMetadata { path: None }.encode_to_vec()).unwrap();
                                Md::Ok(None)
                            }
                            _ => {
                                let p = path_of(rng.usize(names.len()));
                                let bytes = p.to_str().unwrap().as_bytes().to_vec();
                                fs::write(&f, ConfigMetadata { path: Some(bytes) }.encode_to_vec()).unwrap();
                                Md::Ok(Some(p))
                            }
                        };
                        shape.insert("set-md");
                        ops.push(coq::app("OSetMd", &[by(&id), c_md(&m)]));
                    }
                    12 | 13 if !known_ids.is_empty() => {
                        let id = rng.pick(&known_ids).clone();
                        if !migrated.contains(&id) {
                            let dir = root.join(std::str::from_utf8(&id).unwrap());
                            fs::create_dir_all(&dir).unwrap();
                            let f = dir.join("config.toml");
                            let c = if rng.chance(1, 4) {
                                let _ = fs::remove_file(&f);
                                None
                            } else {
                                let content = *rng.pick(&["", "x = 1\n", "secret = \"s\"\n"]);
                                fs::write(&f, content).unwrap();
                                Some(content.as_bytes().to_vec())
                            };
                            shape.insert("edit-toml");
                            ops.push(coq::app("OSetToml", &[by(&id), coq::opt(c, |c| by(&c))]));
                        }
                    }
                    _ if !livev.is_empty() => {
                        // load on a live path (rarely on a path that does not exist)
                        let k = if rng.chance(1, 12) { rng.usize(names.len()) } else { *rng.pick(&livev) };
                        let p = path_of(k);
                        let generate = rng.chance(2, 3);
                        let seen = read_id_file(&p);
                        let list_root = |root: &Path| -> BTreeSet<Vec<u8>> {
                            fs::read_dir(root)
                                .unwrap()
                                .map(|e| e.unwrap().file_name().to_str().unwrap().as_bytes().to_vec())
                                .collect()
                        };
                        let before = list_root(&root);
                        let sc = SecureConfig::new_repo(p.clone());
                        let res = jjv::catch(|| {
                            if generate {
                                sc.load_config(&mut chacha, &root)
                            } else {
                                sc.maybe_load_config(&mut chacha, &root)
                            }
                        });
                        loads += 1;
                        // freshly generated ids = new directories under the root other than
                        // the id the repo already carried; recover the random bytes
                        let mut fresh: Vec<Vec<u8>> = vec![];
                        for id in list_root(&root).difference(&before) {
                            if seen != IdFile::Content(id.clone()) {
                                let raw: Vec<u8> = id
                                    .chunks(2)
                                    .map(|c| u8::from_str_radix(std::str::from_utf8(c).unwrap(), 16).unwrap())
                                    .collect();
                                fresh.push(raw);
                            }
                        }
                        let result = match res {
                            None => {
                                ctx.panicked();
                                "(LErr EPath)".to_string() // never equal: the model does not panic
                            }
                            Some(Ok(l)) => {
                                let warn = if l.warnings.is_empty() {
                                    "WNone"
                                } else if l.warnings[0].contains("been copied") {
                                    shape.insert("copied");
                                    "WCopied"
                                } else if l.warnings[0].contains("migrated") {
                                    shape.insert("migrated");
                                    "WMigrated"
                                } else {
                                    "WNotFound"
                                };
                                if let Some(f) = &l.config_file {
                                    let id = f.parent().unwrap().file_name().unwrap().to_str().unwrap().as_bytes().to_vec();
                                    if warn == "WMigrated" {
                                        migrated.push(id.clone());
                                    }
                                    if !known_ids.contains(&id) {
                                        known_ids.push(id);
                                    }
                                }
                                let md = l.metadata.path.as_ref().map(|b| PathBuf::from(String::from_utf8(b.clone()).unwrap()));
                                format!(
                                    "(LOk (mk_loaded {} {} {}))",
                                    coq::opt(l.config_file.as_ref(), |f| c_path(f)),
                                    coq::opt(md.as_ref(), |p| c_path(p)),
                                    warn
                                )
                            }
                            Some(Err(e)) => {
                                let k = match e {
                                    SecureConfigError::BadConfigIdError => {
                                        shape.insert("bad-id");
                                        "EBadConfigId"
                                    }
                                    SecureConfigError::DecodeError(_) => "EDecode",
                                    _ => "EPath",
                                };
                                format!("(LErr {k})")
                            }
                        };
                        ops.push(coq::app(
                            "OLoad",
                            &[coq::b(generate), c_path(&p), coq::list(fresh.iter(), |b| by(b)), c_id_file(&seen), result],
                        ));
                    }
                    _ => {}
                }
            }
            // final observation
            let final_repos: Vec<String> = live
                .iter()
                .map(|k| coq::pair(c_path(&path_of(*k)), c_id_file(&read_id_file(&path_of(*k)))))
                .collect();
            let mut cfg: Vec<(Vec<u8>, String)> = vec![];
            for e in fs::read_dir(&root).unwrap() {
                let e = e.unwrap();
                let name = e.file_name().to_str().unwrap().as_bytes().to_vec();
                let md = read_md(&e.path());
                let toml = fs::read(e.path().join("config.toml")).ok();
                cfg.push((
                    name.clone(),
                    coq::pair(by(&name), coq::app("mk_cfg", &[c_md(&md), coq::opt(toml, |t| by(&t))])),
                ));
            }
            cfg.sort();
            let term = format!("(let b := {base_term} in {})", coq::app(
                "mk_case",
                &[
                    c_path(&root),
                    coq::list(ops.iter(), |s| s.clone()),
                    coq::list(final_repos.iter(), |s| s.clone()),
                    coq::list(cfg.iter(), |(_, s)| s.clone()),
                ],
            ));
            let shape_s = shape.iter().copied().collect::<Vec<_>>().join("+");
            let key: String = ["copied", "migrated", "bad-id"]
                .iter()
                .filter(|k| shape.contains(*k))
                .copied()
                .collect::<Vec<_>>()
                .join("+");
            let _ = shape_s;
            ctx.emit(i, term, loads >= 2, &format!("loads={} {}", if loads >= 3 { "3+".to_string() } else { loads.to_string() }, key));
            let _ = fs::remove_dir_all(&base);
        }
    });
}
