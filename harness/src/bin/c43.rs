//! C43: histories of repo-directory operations (create, write id / legacy files, copy, move,
//! delete, symlink alias, edits under the user's config root) interleaved with
//! SecureConfig::load_config / maybe_load_config on the real file system.
//!
//! Nothing here trusts the implementation: every call is made under `jjv::catch`, the whole
//! case directory (config root, a sentinel directory next to it, the repo directories and
//! two levels above them) is fingerprinted before and after each call, and everything the
//! call created, changed or removed outside the allowed files is recorded in the case as
//! an observation that the proved checker rejects. A harness-side impossibility becomes an
//! `OUnexpected` op (also rejected), never a crash.
use std::cell::RefCell;
use std::collections::BTreeMap;
use std::collections::BTreeSet;
use std::fs;
use std::path::Path;
use std::path::PathBuf;

use jj_lib::protos::secure_config::ConfigMetadata;
use jj_lib::secure_config::SecureConfig;
use jj_lib::secure_config::SecureConfigError;
use jjv::Rng;
use jjv::coq;
use prost::Message as _;
use rand::SeedableRng as _;
use rand_chacha::ChaCha20Rng;

fn by(x: &[u8]) -> String {
    coq::bytes(x)
}

/// Absolute path as its '/'-separated components (no normalisation, lossy on non-UTF-8).
fn comps(p: &Path) -> Vec<Vec<u8>> {
    let s = p.to_string_lossy().into_owned();
    s.split('/').skip(1).map(|c| c.as_bytes().to_vec()).collect()
}

thread_local! {
    static BASE: RefCell<Vec<Vec<u8>>> = const { RefCell::new(vec![]) };
}

/// Paths below the case's base directory are printed as `(b ++ [..])`, `b` being bound once
/// per case (keeps the terms small).
fn c_path(p: &Path) -> String {
    let cs = comps(p);
    BASE.with(|b| {
        let b = b.borrow();
        if !b.is_empty() && cs.len() >= b.len() && cs[..b.len()] == b[..] {
            format!("(b ++ {})", coq::list(cs[b.len()..].iter(), |c| by(c)))
        } else {
            coq::list(cs.iter(), |c| by(c))
        }
    })
}

#[derive(Clone, PartialEq)]
enum IdFile {
    Missing,
    Content(Vec<u8>),
    Unreadable,
}

fn c_id_file(f: &IdFile) -> String {
    match f {
        IdFile::Missing => "IdMissing".into(),
        IdFile::Content(b) => format!("(IdContent {})", by(b)),
        IdFile::Unreadable => "IdUnreadable".into(),
    }
}

fn read_id_file(repo: &Path) -> IdFile {
    match fs::read(repo.join("config-id")) {
        Ok(b) => match String::from_utf8(b) {
            Ok(s) => IdFile::Content(s.into_bytes()),
            Err(_) => IdFile::Unreadable,
        },
        Err(e) if e.kind() == std::io::ErrorKind::NotFound => IdFile::Missing,
        Err(_) => IdFile::Unreadable,
    }
}

enum Md {
    Missing,
    Corrupt,
    Ok(Option<PathBuf>),
}

fn c_md(m: &Md) -> String {
    match m {
        Md::Missing => "MdMissing".into(),
        Md::Corrupt => "MdCorrupt".into(),
        Md::Ok(p) => format!("(MdOk {})", coq::opt(p.as_ref(), |p| c_path(p))),
    }
}

fn read_md(dir: &Path) -> Md {
    match fs::read(dir.join("metadata.binpb")) {
        Ok(b) => match ConfigMetadata::decode(b.as_slice()) {
            Ok(m) => Md::Ok(m.path.map(|p| PathBuf::from(String::from_utf8_lossy(&p).into_owned()))),
            Err(_) => Md::Corrupt,
        },
        Err(_) => Md::Missing,
    }
}

const HEX: &[u8] = b"0123456789abcdef";

fn is_wf_id(id: &[u8]) -> bool {
    id.len() == 20 && id.iter().all(|b| b.is_ascii_hexdigit())
}

fn gen_valid_id(rng: &mut Rng) -> Vec<u8> {
    (0..20)
        .map(|_| {
            let n = if rng.chance(1, 2) { 2 } else { 16 };
            HEX[rng.usize(n)]
        })
        .collect()
}

/// Forged ids of the two dangerous kinds: (A) exactly 20 bytes containing path characters,
/// (B) hex digits only but of the wrong length (incl. empty).
fn forged_id(rng: &mut Rng, kind_a: bool) -> Vec<u8> {
    if kind_a {
        rng.pick(&[
            &b"../sentinel/aaaaaaaa"[..], // lands in the sentinel directory next to the root
            &b"../../evil/.././evil"[..], // lands two levels up
            &b"../aaaaaaaaaaaaaaaaa"[..],
            &b"./../sentinel/../s/x"[..],
            &b"aaaaaaaaa/aaaaaaaaaa"[..],
        ])
        .to_vec()
    } else {
        let v = gen_valid_id(rng);
        match rng.below(5) {
            0 => vec![],
            1 => b"ab".to_vec(),
            2 => v[..19].to_vec(),
            3 => [&v[..], b"0"].concat(),
            _ => v[..10].to_vec(),
        }
    }
}

/// Mostly malformed id-file contents; some valid ones (also upper case).
fn gen_id_content(rng: &mut Rng, known: &[Vec<u8>]) -> IdFile {
    let v = gen_valid_id(rng);
    match rng.below(20) {
        0 => IdFile::Content(b"..".to_vec()),
        1 => IdFile::Content(b"../../../../etc/x".to_vec()),
        2 | 3 => IdFile::Content(forged_id(rng, true)),
        4 | 5 => IdFile::Content(forged_id(rng, false)),
        6 => IdFile::Content([&v[..19], b"g"].concat()),
        7 => IdFile::Content([&v[..], b"\n"].concat()),
        8 => IdFile::Content(v.to_ascii_uppercase()),
        9 => IdFile::Unreadable,
        10 => IdFile::Content([&v[..18], "\u{e9}".as_bytes()].concat()), // 20 bytes, 19 chars
        11..=14 if !known.is_empty() => IdFile::Content(rng.pick(known).clone()),
        _ => IdFile::Content(v),
    }
}

/// Fingerprint of everything below `dir` (symlinks are not followed).
#[derive(Clone, PartialEq)]
enum Node {
    Dir,
    File(Vec<u8>),
    Link(PathBuf),
    Other,
}

fn snapshot(dir: &Path) -> BTreeMap<PathBuf, Node> {
    let mut out = BTreeMap::new();
    let mut stack = vec![dir.to_path_buf()];
    while let Some(d) = stack.pop() {
        let Ok(rd) = fs::read_dir(&d) else { continue };
        for e in rd.flatten() {
            let p = e.path();
            let node = match fs::symlink_metadata(&p) {
                Ok(m) if m.file_type().is_symlink() => Node::Link(fs::read_link(&p).unwrap_or_default()),
                Ok(m) if m.is_dir() => {
                    stack.push(p.clone());
                    Node::Dir
                }
                Ok(m) if m.is_file() => Node::File(fs::read(&p).unwrap_or_default()),
                _ => Node::Other,
            };
            out.insert(p, node);
        }
    }
    out
}

/// Paths that differ between two snapshots.
fn diff(a: &BTreeMap<PathBuf, Node>, b: &BTreeMap<PathBuf, Node>) -> BTreeSet<PathBuf> {
    let mut out = BTreeSet::new();
    for (p, n) in a {
        if b.get(p) != Some(n) {
            out.insert(p.clone());
        }
    }
    for p in b.keys() {
        if !a.contains_key(p) {
            out.insert(p.clone());
        }
    }
    out
}

struct World {
    case_dir: PathBuf,
    base: PathBuf,
    root: PathBuf,
    names: [&'static str; 5],
}

impl World {
    fn path_of(&self, k: usize) -> PathBuf {
        self.base.join(self.names[k])
    }
}

/// One load on a fresh SecureConfig, fully observed. Returns the Coq term of the op and the
/// well-formed ids learnt.
fn do_load(
    w: &World,
    chacha: &mut ChaCha20Rng,
    p: &Path,
    generate: bool,
    shape: &mut BTreeSet<&'static str>,
    migrated: &mut Vec<Vec<u8>>,
    known_ids: &mut Vec<Vec<u8>>,
    panics: &mut u64,
) -> String {
    let seen = read_id_file(p);
    let before = snapshot(&w.case_dir);
    let real_repo = fs::canonicalize(p).unwrap_or_else(|_| p.to_path_buf());
    let sc = SecureConfig::new_repo(p.to_path_buf());
    let res = jjv::catch(|| {
        if generate {
            sc.load_config(chacha, &w.root)
        } else {
            sc.maybe_load_config(chacha, &w.root)
        }
    });
    let after = snapshot(&w.case_dir);
    // classify every difference
    let mut fresh: Vec<Vec<u8>> = vec![];
    let mut unexpected: Vec<PathBuf> = vec![];
    for d in diff(&before, &after) {
        let allowed = if let Ok(rel) = d.strip_prefix(&w.root) {
            let cs: Vec<Vec<u8>> = rel.components().map(|c| c.as_os_str().to_string_lossy().as_bytes().to_vec()).collect();
            match cs.as_slice() {
                [id] => is_wf_id(id) && after.get(&d) == Some(&Node::Dir),
                [id, f] => is_wf_id(id) && (f == b"metadata.binpb" || f == b"config.toml"),
                _ => false,
            }
        } else if let Ok(rel) = d.strip_prefix(&real_repo) {
            rel == Path::new("config-id") || rel == Path::new("config.toml")
        } else {
            false
        };
        if !allowed {
            unexpected.push(d.clone());
        }
        // a new well-formed directory directly under the root that is not the id the repo
        // carried: a freshly drawn id; recover the random bytes
        if let Ok(rel) = d.strip_prefix(&w.root) {
            let name = rel.to_string_lossy().as_bytes().to_vec();
            if rel.components().count() == 1
                && !before.contains_key(&d)
                && is_wf_id(&name)
                && name.iter().all(|b| !b.is_ascii_uppercase())
                && seen != IdFile::Content(name.clone())
            {
                let raw: Option<Vec<u8>> = name
                    .chunks(2)
                    .map(|c| std::str::from_utf8(c).ok().and_then(|s| u8::from_str_radix(s, 16).ok()))
                    .collect();
                if let Some(raw) = raw {
                    fresh.push(raw);
                }
            }
        }
    }
    if !unexpected.is_empty() {
        shape.insert("escape");
    }
    let result = match res {
        None => {
            *panics += 1;
            unexpected.push(PathBuf::from("/panic"));
            "(LErr EPath)".to_string()
        }
        Some(Ok(l)) => {
            let warn = if l.warnings.is_empty() {
                "WNone"
            } else if l.warnings[0].contains("been copied") {
                shape.insert("copied");
                "WCopied"
            } else if l.warnings[0].contains("migrated") {
                shape.insert("migrated");
                "WMigrated"
            } else {
                "WNotFound"
            };
            if let Some(f) = &l.config_file {
                let id: Option<Vec<u8>> = f
                    .parent()
                    .and_then(|d| d.file_name())
                    .map(|n| n.to_string_lossy().as_bytes().to_vec());
                if let Some(id) = id {
                    // only ids that really name a directory directly under the root are used
                    // by later operations of the history
                    if is_wf_id(&id) && f.parent() == Some(w.root.join(String::from_utf8_lossy(&id).as_ref()).as_path()) {
                        if warn == "WMigrated" {
                            migrated.push(id.clone());
                        }
                        if !known_ids.contains(&id) {
                            known_ids.push(id);
                        }
                    }
                }
            }
            let md = l.metadata.path.as_ref().map(|b| PathBuf::from(String::from_utf8_lossy(b).into_owned()));
            format!(
                "(LOk (mk_loaded {} {} {}))",
                coq::opt(l.config_file.as_ref(), |f| c_path(f)),
                coq::opt(md.as_ref(), |p| c_path(p)),
                warn
            )
        }
        Some(Err(e)) => {
            let k = match e {
                SecureConfigError::BadConfigIdError => {
                    shape.insert("bad-id");
                    "EBadConfigId"
                }
                SecureConfigError::DecodeError(_) => "EDecode",
                _ => "EPath",
            };
            format!("(LErr {k})")
        }
    };
    coq::app(
        "OLoad",
        &[
            coq::b(generate),
            c_path(p),
            coq::list(fresh.iter(), |b| by(b)),
            c_id_file(&seen),
            result,
            coq::list(unexpected.iter(), |u| c_path(u)),
        ],
    )
}

fn write_id(repo: &Path, c: &IdFile) -> std::io::Result<()> {
    let f = repo.join("config-id");
    let _ = fs::remove_file(&f);
    match c {
        IdFile::Missing => Ok(()),
        IdFile::Content(b) => fs::write(&f, b),
        IdFile::Unreadable => fs::write(&f, [0xffu8, 0xfe, 0x30]),
    }
}

fn main() {
    jjv::run("C43", "C43", |ctx| {
        if std::env::var("C43_DEBUG").is_ok() {
            std::panic::set_hook(Box::new(|info| eprintln!("PANIC {info}")));
        }
        let scratch = fs::canonicalize(&ctx.scratch).unwrap_or_else(|_| ctx.scratch.clone());
        for i in ctx.indices() {
            let mut rng = ctx.rng(i);
            let case_dir = scratch.join(format!("c{i}"));
            // two spare levels so that "../../x" stays inside the observed case directory
            let base = case_dir.join("a").join("b");
            let root = base.join("config");
            let sentinel = base.join("sentinel");
            let w = World { case_dir: case_dir.clone(), base: base.clone(), root: root.clone(), names: ["r0", "r1", "r2", "r3", "r4"] };
            BASE.with(|b| *b.borrow_mut() = vec![]);
            let base_term = c_path(&base);
            BASE.with(|b| *b.borrow_mut() = comps(&base));
            let ops: RefCell<Vec<String>> = RefCell::new(vec![]);
            let shape: RefCell<BTreeSet<&'static str>> = RefCell::new(BTreeSet::new());
            let loads = RefCell::new(0u32);
            let mut panics = 0u64;
            let forged_loads = RefCell::new(0u32);
            let body = jjv::catch(|| -> std::io::Result<()> {
                fs::create_dir_all(&root)?;
                fs::create_dir_all(&sentinel)?;
                let mut chacha = ChaCha20Rng::seed_from_u64(rng.next_u64());
                let mut live: BTreeSet<usize> = BTreeSet::new();
                let mut aliased: BTreeSet<usize> = BTreeSet::new();
                let mut known_ids: Vec<Vec<u8>> = vec![];
                let mut migrated: Vec<Vec<u8>> = vec![];
                let mut load = |p: &Path, generate: bool, known_ids: &mut Vec<Vec<u8>>, migrated: &mut Vec<Vec<u8>>| {
                    let term = do_load(&w, &mut chacha, p, generate, &mut shape.borrow_mut(), migrated, known_ids, &mut panics);
                    *loads.borrow_mut() += 1;
                    ops.borrow_mut().push(term);
                };
                if i == 0 {
                    // corpus case: a repo, its copy, and forged id files of both kinds in the copy
                    let (r0, r1) = (w.path_of(0), w.path_of(1));
                    fs::create_dir(&r0)?;
                    ops.borrow_mut().push(coq::app("OMkRepo", &[c_path(&r0)]));
                    load(&r0, true, &mut known_ids, &mut migrated);
                    fs::create_dir(&r1)?;
                    if let Ok(b) = fs::read(r0.join("config-id")) {
                        fs::write(r1.join("config-id"), b)?;
                    }
                    ops.borrow_mut().push(coq::app("OCopy", &[c_path(&r0), c_path(&r1)]));
                    let forged: [&[u8]; 8] = [
                        b"../sentinel/aaaaaaaa",
                        b"../../evil/.././evil",
                        b"",
                        b"ab",
                        b"0123456789abcdef012",
                        b"0123456789abcdef01234",
                        b"..",
                        b"aaaaaaaaa/aaaaaaaaaa",
                    ];
                    for (n, f) in forged.iter().enumerate() {
                        let c = IdFile::Content(f.to_vec());
                        write_id(&r1, &c)?;
                        ops.borrow_mut().push(coq::app("OWriteId", &[c_path(&r1), c_id_file(&c)]));
                        load(&r1, n % 2 == 0, &mut known_ids, &mut migrated);
                        *forged_loads.borrow_mut() += 1;
                    }
                    // and finally the honest copy scenario
                    if let Some(id) = known_ids.first().cloned() {
                        let c = IdFile::Content(id);
                        write_id(&r1, &c)?;
                        ops.borrow_mut().push(coq::app("OWriteId", &[c_path(&r1), c_id_file(&c)]));
                        load(&r1, true, &mut known_ids, &mut migrated);
                    }
                    return Ok(());
                }
                let nops = rng.range(7, 16);
                let forced_forgery = rng.chance(2, 5);
                let forced_kind_a = rng.chance(1, 2);
                for step in 0..nops + 2 {
                    let free: Vec<usize> = (0..w.names.len()).filter(|k| !live.contains(k)).collect();
                    let livev: Vec<usize> = live.iter().copied().collect();
                    let movable: Vec<usize> = livev.iter().copied().filter(|k| !aliased.contains(k)).collect();
                    let choice = if step == 0 {
                        0
                    } else if step == 1 {
                        19
                    } else if step == nops {
                        if forced_forgery { 100 } else { 200 }
                    } else if step == nops + 1 {
                        if forced_forgery { 101 } else { 200 }
                    } else {
                        *rng.pick(&[0u64, 1, 2, 3, 3, 4, 5, 6, 6, 7, 8, 9, 10, 11, 12, 13, 14, 15, 16, 17, 18, 19, 19, 19])
                    };
                    match choice {
                        0 if !free.is_empty() => {
                            let k = *rng.pick(&free);
                            fs::create_dir(w.path_of(k))?;
                            live.insert(k);
                            ops.borrow_mut().push(coq::app("OMkRepo", &[c_path(&w.path_of(k))]));
                        }
                        1 | 2 | 100 if !livev.is_empty() => {
                            let k = *rng.pick(&livev);
                            let c = if choice == 100 {
                                IdFile::Content(forged_id(&mut rng, forced_kind_a))
                            } else {
                                gen_id_content(&mut rng, &known_ids)
                            };
                            write_id(&w.path_of(k), &c)?;
                            if let IdFile::Content(b) = &c {
                                if !is_wf_id(b) {
                                    shape.borrow_mut().insert("forged");
                                }
                            }
                            ops.borrow_mut().push(coq::app("OWriteId", &[c_path(&w.path_of(k)), c_id_file(&c)]));
                            if choice == 100 {
                                // load exactly that repo next
                                load(&w.path_of(k), rng.chance(2, 3), &mut known_ids, &mut migrated);
                                *forged_loads.borrow_mut() += 1;
                            }
                        }
                        3 if !livev.is_empty() => {
                            let k = *rng.pick(&livev);
                            // only on repos that never had an id (legacy migration replaces the
                            // file by a symlink afterwards)
                            if read_id_file(&w.path_of(k)) == IdFile::Missing
                                && fs::symlink_metadata(w.path_of(k).join("config.toml")).is_err()
                            {
                                let content = *rng.pick(&["", "a = 1\n", "[ui]\npager = \"x\"\n"]);
                                fs::write(w.path_of(k).join("config.toml"), content)?;
                                ops.borrow_mut().push(coq::app(
                                    "OWriteLegacy",
                                    &[c_path(&w.path_of(k)), format!("(Some {})", by(content.as_bytes()))],
                                ));
                            }
                        }
                        4..=6 if !livev.is_empty() && !free.is_empty() => {
                            // copy: a new directory with copies of the id and legacy files
                            let k = *rng.pick(&livev);
                            let j = *rng.pick(&free);
                            fs::create_dir(w.path_of(j))?;
                            for f in ["config-id", "config.toml"] {
                                if let Ok(b) = fs::read(w.path_of(k).join(f)) {
                                    fs::write(w.path_of(j).join(f), b)?;
                                }
                            }
                            live.insert(j);
                            ops.borrow_mut().push(coq::app("OCopy", &[c_path(&w.path_of(k)), c_path(&w.path_of(j))]));
                        }
                        7 | 8 if !movable.is_empty() && !free.is_empty() => {
                            let k = *rng.pick(&movable);
                            let j = *rng.pick(&free);
                            fs::rename(w.path_of(k), w.path_of(j))?;
                            live.remove(&k);
                            live.insert(j);
                            ops.borrow_mut().push(coq::app("OMove", &[c_path(&w.path_of(k)), c_path(&w.path_of(j))]));
                        }
                        9 if !movable.is_empty() => {
                            let k = *rng.pick(&movable);
                            fs::remove_dir_all(w.path_of(k))?;
                            live.remove(&k);
                            ops.borrow_mut().push(coq::app("ODelete", &[c_path(&w.path_of(k))]));
                        }
                        10 if !livev.is_empty() && !free.is_empty() => {
                            let k = *rng.pick(&livev);
                            let j = *rng.pick(&free);
                            std::os::unix::fs::symlink(w.path_of(k), w.path_of(j))?;
                            live.insert(j);
                            aliased.insert(k);
                            aliased.insert(j);
                            ops.borrow_mut().push(coq::app("OAlias", &[c_path(&w.path_of(k)), c_path(&w.path_of(j))]));
                        }
                        11 if !known_ids.is_empty() => {
                            // tamper with / remove the metadata of a config directory
                            let id = rng.pick(&known_ids).clone();
                            let dir = root.join(String::from_utf8_lossy(&id).as_ref());
                            fs::create_dir_all(&dir)?;
                            let f = dir.join("metadata.binpb");
                            let m = match rng.below(4) {
                                0 => {
                                    let _ = fs::remove_file(&f);
                                    Md::Missing
                                }
                                1 => {
                                    fs::write(&f, [0xffu8, 0xff, 0xff])?;
                                    Md::Corrupt
                                }
                                2 => {
                                    fs::write(&f, ConfigMetadata { path: None }.encode_to_vec())?;
                                    Md::Ok(None)
                                }
                                _ => {
                                    let p = w.path_of(rng.usize(w.names.len()));
                                    let bytes = p.to_string_lossy().as_bytes().to_vec();
                                    fs::write(&f, ConfigMetadata { path: Some(bytes) }.encode_to_vec())?;
                                    Md::Ok(Some(p))
                                }
                            };
                            ops.borrow_mut().push(coq::app("OSetMd", &[by(&id), c_md(&m)]));
                        }
                        12 | 13 if !known_ids.is_empty() => {
                            let id = rng.pick(&known_ids).clone();
                            if !migrated.contains(&id) {
                                let dir = root.join(String::from_utf8_lossy(&id).as_ref());
                                fs::create_dir_all(&dir)?;
                                let f = dir.join("config.toml");
                                let c = if rng.chance(1, 4) {
                                    let _ = fs::remove_file(&f);
                                    None
                                } else {
                                    let content = *rng.pick(&["", "x = 1\n", "secret = \"s\"\n"]);
                                    fs::write(&f, content)?;
                                    Some(content.as_bytes().to_vec())
                                };
                                ops.borrow_mut().push(coq::app("OSetToml", &[by(&id), coq::opt(c, |c| by(&c))]));
                            }
                        }
                        100 | 101 | 200 => {}
                        _ if !livev.is_empty() => {
                            // load on a live path (rarely on a path that does not exist)
                            let k = if rng.chance(1, 12) { rng.usize(w.names.len()) } else { *rng.pick(&livev) };
                            let generate = rng.chance(2, 3);
                            load(&w.path_of(k), generate, &mut known_ids, &mut migrated);
                        }
                        _ => {}
                    }
                }
                Ok(())
            });
            // a failure of the harness's own file operations is an observation too: it can only
            // happen if the implementation left the directories in an impossible state
            match body {
                Some(Ok(())) => {}
                _ => {
                    ops.borrow_mut().push("OUnexpected".to_string());
                    shape.borrow_mut().insert("harness-failure");
                }
            }
            for _ in 0..panics {
                ctx.panicked();
            }
            // final observation: live repo directories and everything directly under the root
            let mut final_repos: Vec<String> = vec![];
            for k in 0..w.names.len() {
                let p = w.path_of(k);
                if p.is_dir() {
                    final_repos.push(coq::pair(c_path(&p), c_id_file(&read_id_file(&p))));
                }
            }
            let mut cfg: Vec<(Vec<u8>, String)> = vec![];
            if let Ok(rd) = fs::read_dir(&root) {
                for e in rd.flatten() {
                    let name = e.file_name().to_string_lossy().as_bytes().to_vec();
                    let md = read_md(&e.path());
                    let toml = fs::read(e.path().join("config.toml")).ok();
                    cfg.push((
                        name.clone(),
                        coq::pair(by(&name), coq::app("mk_cfg", &[c_md(&md), coq::opt(toml, |t| by(&t))])),
                    ));
                }
            }
            cfg.sort();
            let term = format!(
                "(let b := {base_term} in {})",
                coq::app(
                    "mk_case",
                    &[
                        c_path(&root),
                        coq::list(ops.borrow().iter(), |s| s.clone()),
                        coq::list(final_repos.iter(), |s| s.clone()),
                        coq::list(cfg.iter(), |(_, s)| s.clone()),
                    ],
                )
            );
            let shape = shape.borrow();
            let key: String = ["copied", "migrated", "bad-id", "forged", "escape", "harness-failure"]
                .iter()
                .filter(|k| shape.contains(*k))
                .copied()
                .collect::<Vec<_>>()
                .join("+");
            let loads = *loads.borrow();
            let forged_loads = *forged_loads.borrow();
            ctx.emit(
                i,
                term,
                loads >= 2,
                &format!(
                    "loads={} {}{}",
                    if loads >= 3 { "3+".to_string() } else { loads.to_string() },
                    key,
                    if forged_loads > 0 { " forged-load" } else { "" }
                ),
            );
            let _ = fs::remove_dir_all(&case_dir);
        }
    });
}
