//! C25: one real checkout per case on a workspace whose disk was edited behind jj's back
//! (untracked files / directories / symlinked directories in the way at every depth, a
//! symlink to a sentinel directory OUTSIDE the workspace as a parent component, deleted
//! and replaced tracked files), trees with file<->directory replacements, exec flips,
//! symlink retargets and names `.jj` / `.git` / `..`. Emits the full disk listing before
//! and after, the real diff order, the result and the file states.
#[path = "../wcc.rs"]
mod wcc;

use jjv::coq;
use wcc::*;

struct CaseOut {
    term: String,
    nontrivial: bool,
    shape: String,
    panicked: bool,
    note: Option<String>,
}

fn run_case(i: usize, mut rng: jjv::Rng) -> CaseOut {
    let odd = *rng.pick(&[0u64, 0, 0, 5, 15, 40]);
    let t1 = gen_tree(&mut rng, odd);
    let t2 = mutate_tree(&mut rng, &t1, odd);
    let mut ws = Ws::new();
    let store = ws.store();
    let t1m = write_tree(&store, &t1);
    let t2m = write_tree(&store, &t2);

    // sparse patterns first (on the empty tree: no disk effect)
    let sparse: Vec<P> = if rng.chance(1, 4) { gen_sparse(&mut rng, &t1, &t2) } else { vec![vec![]] };
    let is_sparse = sparse != vec![Vec::<String>::new()];
    if is_sparse {
        let r = outcome(ws.set_sparse(&sparse));
        assert!(matches!(r, Outcome::Ok(_)), "set_sparse on empty tree: {r:?}");
    }
    // bring the working copy to t1: a real checkout, or (always when that fails because of
    // reserved / invalid names) only the recorded state via reset()
    let want_reset = rng.chance(1, 5);
    let mut via_reset = want_reset;
    if !want_reset {
        match outcome(ws.check_out(&t1m)) {
            Outcome::Ok(_) => {}
            _ => via_reset = true,
        }
    }
    if via_reset {
        assert!(ws.reset(&t1m));
        // materialize part of t1 by hand so that removals have something to remove
        for (p, v) in &t1 {
            if matches_sparse(&sparse, p) && rng.chance(2, 3) {
                let e = match v {
                    TVal::File(c, x) => Edit::WriteFile(p.clone(), c.clone(), *x),
                    TVal::Sym(t) => Edit::Symlink(p.clone(), t.clone()),
                };
                apply_edit(&ws.root, &e);
            }
        }
    }
    let intensity = *rng.pick(&[0u64, 2, 4, 6]);
    let edits = gen_edits(&mut rng, &t1, &t2, intensity);
    for e in &edits {
        apply_edit(&ws.root, e);
    }

    let disk0 = list_disk(&ws.root);
    let states0 = ws.file_states();
    let outside0 = ws.outside_listing();
    let matcher = prefix_matcher(&sparse);
    let diff = real_diff(&ws.wc_tree(), &t2m, &matcher).expect("plain diff");
    fs_trace_start();
    let res = outcome(ws.check_out(&t2m));
    let calls = fs_trace_stop(&ws.root);
    let disk1 = list_disk(&ws.root);
    let states1 = ws.file_states();
    let outside_ok = ws.outside_listing() == outside0;

    // micro-correspondence of the primitives: a few real std::fs calls on safe paths
    let mut prims: Vec<String> = vec![];
    {
        use std::io::ErrorKind;
        let mut cands: Vec<P> = disk1.keys().filter(|p| p[0] != ".jj").cloned().collect();
        for p in t1.keys().chain(t2.keys()) {
            for k in 1..=p.len() {
                cands.push(p[..k].to_vec());
            }
        }
        for n in NAMES {
            cands.push(vec![n.to_string()]);
        }
        cands.sort();
        cands.dedup();
        let k = rng.below(6);
        for _ in 0..k {
            let mut p = rng.pick(&cands).clone();
            if rng.chance(1, 3) {
                p.push(rng.pick(NAMES).to_string());
            }
            if p.iter().any(|c| c == "." || c == ".." || c.is_empty() || c == ".jj" || c == ".git") {
                continue;
            }
            // only where the model defines the call: every proper prefix is a real directory
            let mut cur = ws.root.clone();
            let mut safe = true;
            for c in &p[..p.len() - 1] {
                cur.push(c);
                safe &= cur.symlink_metadata().map(|m| m.file_type().is_dir()).unwrap_or(false);
            }
            if !safe {
                continue;
            }
            let full = disk_path(&ws.root, &p);
            let code_of = |r: std::io::Result<()>| -> u64 {
                match r {
                    Ok(()) => 0,
                    Err(e) => match (e.kind(), e.raw_os_error()) {
                        (ErrorKind::AlreadyExists, _) => 1,
                        (ErrorKind::NotFound, _) => 2,
                        (_, Some(21)) => 3,  // EISDIR
                        (_, Some(20)) => 4,  // ENOTDIR
                        (_, Some(39)) => 5,  // ENOTEMPTY
                        _ => 98,
                    },
                }
            };
            let (call, code) = match rng.below(6) {
                0 => (format!("(PcCreateDir {})", coq_path(&p)), code_of(std::fs::create_dir(&full))),
                1 => (
                    format!("(PcCreateNew {})", coq_path(&p)),
                    code_of(std::fs::OpenOptions::new().write(true).create_new(true).open(&full).map(|_| ())),
                ),
                2 => (format!("(PcRemoveFile {})", coq_path(&p)), code_of(std::fs::remove_file(&full))),
                3 => (format!("(PcRemoveDir {})", coq_path(&p)), code_of(std::fs::remove_dir(&full))),
                4 => (
                    format!("(PcSymlink {} {})", coq_path(&p), coq_content(b"t")),
                    code_of(std::os::unix::fs::symlink("t", &full)),
                ),
                _ => (
                    format!("(PcLstat {})", coq_path(&p)),
                    match full.symlink_metadata() {
                        Err(_) => 10,
                        Ok(m) if m.file_type().is_symlink() => 12,
                        Ok(m) if m.file_type().is_dir() => 13,
                        Ok(_) => 11,
                    },
                ),
            };
            prims.push(format!("({call}, {code})"));
        }
    }
    let disk2 = list_disk(&ws.root);

    let term = coq::app(
        "mk_case",
        &[
            coq_disk(&disk0),
            coq_states(&states0),
            coq_tree(&t1),
            coq_tree(&t2),
            coq_paths(&sparse),
            coq_diff(&diff),
            coq_outcome(&res),
            coq_disk(&disk1),
            coq_states(&states1),
            coq::b(outside_ok),
            coq_calls(&calls),
            coq::list(prims.iter(), |s| s.clone()),
            coq_disk(&disk2),
        ],
    );
    let skipped = matches!(&res, Outcome::Ok(s) if s.skipped_files > 0);
    let link_obstacle = disk0.values().any(|n| matches!(n, Node::Sym(t) if t.contains("outside")));
    let shape = format!(
        "{}{}{}{}{}",
        match &res {
            Outcome::Ok(_) => "ok",
            Outcome::Reserved => "reserved",
            Outcome::InvalidPath => "invalid",
            Outcome::Other(_) => "other",
            Outcome::Panic => "panic",
        },
        if skipped { " skipped" } else { "" },
        if link_obstacle { " outlink" } else { "" },
        if via_reset { " reset" } else { "" },
        if is_sparse { " sparse" } else { "" },
    );
    CaseOut {
        term,
        nontrivial: !diff.is_empty() && !edits.is_empty(),
        shape,
        panicked: res == Outcome::Panic,
        note: if let Outcome::Other(m) = &res { Some(format!("case {i}: {m}")) } else { None },
    }
}

fn main() {
    jjv::run("C25", "C25", |ctx| {
        // TestEnvironment creates its directories under TMPDIR: keep them in our scratch
        unsafe { std::env::set_var("TMPDIR", &ctx.scratch) };
        install_fs_trace();
        let outs = par_cases(ctx, run_case);
        for (i, o) in outs {
            if o.panicked {
                ctx.panicked();
            }
            if let Some(n) = o.note {
                ctx.note(n);
            }
            ctx.emit(i, o.term, o.nontrivial, &o.shape);
        }
    });
}

