//! C44: elide_start / elide_end, write_truncated_*, write_padded_*, wrap_bytes of
//! jj_cli::text_util on seeded unicode strings; the two width measures of the unicode-width
//! crate *as linked into jj-cli* are observed through jj's own public functions.
use std::collections::HashMap;
use std::io::Write as _;

use jj_cli::formatter::FormatRecorder;
use jj_cli::formatter::Formatter as _;
use jj_cli::formatter::PlainTextFormatter;
use jj_cli::text_util;
use jjv::Rng;
use jjv::coq;

/// UnicodeWidthChar::width(c).unwrap_or(0) as jj computes it (elide_end returns the sum of the
/// character widths of a text that fits).
fn cw(c: char, memo: &mut HashMap<char, usize>) -> usize {
    *memo.entry(c).or_insert_with(|| text_util::elide_end(&c.to_string(), "", usize::MAX / 2).1)
}

fn recorder(s: &str, rng: &mut Rng) -> FormatRecorder {
    // split the content over up to three labelled regions (at character boundaries)
    let mut rec = FormatRecorder::new(false);
    let cs: Vec<char> = s.chars().collect();
    let a = rng.usize(cs.len() + 1);
    let b = a + rng.usize(cs.len() - a + 1);
    let piece = |r: std::ops::Range<usize>| cs[r].iter().collect::<String>();
    rec.write_all(piece(0..a).as_bytes()).unwrap();
    rec.push_label("l1");
    rec.write_all(piece(a..b).as_bytes()).unwrap();
    rec.push_label("l2");
    rec.write_all(piece(b..cs.len()).as_bytes()).unwrap();
    rec.pop_label();
    rec.pop_label();
    rec
}

/// UnicodeWidthStr::width(s) as jj computes it: write_padded_end pads to min_width with
/// min_width - width fill characters.
fn sw(s: &str) -> usize {
    let content = FormatRecorder::with_data(s);
    let fill = FormatRecorder::with_data("\u{1}");
    let mut out = Vec::new();
    let mut f = PlainTextFormatter::new(&mut out);
    text_util::write_padded_end(&mut f, &content, &fill, 100_000).unwrap();
    drop(f);
    let fills = out.len() - s.len();
    100_000 - fills
}

fn hexcps(s: &str) -> String {
    let mut o = String::from("\"");
    for c in s.chars() {
        o.push_str(&format!("{:06x}", c as u32));
    }
    o.push('"');
    o
}

fn chars_term(s: &str, memo: &mut HashMap<char, usize>) -> String {
    let mut w = String::from("\"");
    for c in s.chars() {
        w.push_str(&cw(c, memo).to_string());
    }
    w.push('"');
    format!("(chars {} {})", hexcps(s), w)
}

fn cps_term(s: &str) -> String {
    format!("(cps {})", hexcps(s))
}

const NARROW: &[char] = &['a', 'b', 'c', 'é', '…', '·', '.', '-', 'x'];
const WIDE: &[char] = &['漢', '字', 'あ', 'Ａ', '😀', '한'];
const ZERO: &[char] = &['\u{301}', '\u{200b}', '\u{200d}', '\u{fe0f}', '\u{1160}', '\u{ad}'];
const CONTROL: &[char] = &['\t', '\x01', '\x7f', '\u{85}', '\r'];
const CLUSTER: &[&str] = &["👨\u{200d}👩\u{200d}👧", "❤\u{fe0f}", "🇯🇵", "1\u{fe0f}\u{20e3}", "a\u{301}", "\r\n"];

fn gen_text(rng: &mut Rng, allow_disagree: bool, max_len: u64) -> String {
    let mut s = String::new();
    let len = rng.below(max_len + 1);
    let profile = rng.below(5); // 0 narrow only, 1 narrow+wide, 2 +zero width, 3 everything, 4 wide heavy
    for _ in 0..len {
        let k = rng.below(10);
        match profile {
            0 => s.push(*rng.pick(NARROW)),
            1 => s.push(if k < 6 { *rng.pick(NARROW) } else { *rng.pick(WIDE) }),
            2 => s.push(if k < 5 {
                *rng.pick(NARROW)
            } else if k < 8 {
                *rng.pick(WIDE)
            } else {
                *rng.pick(ZERO)
            }),
            4 => s.push(if k < 2 { *rng.pick(NARROW) } else { *rng.pick(WIDE) }),
            _ => {
                if k < 4 {
                    s.push(*rng.pick(NARROW))
                } else if k < 6 {
                    s.push(*rng.pick(WIDE))
                } else if k < 8 {
                    s.push(*rng.pick(ZERO))
                } else if allow_disagree && k == 8 {
                    s.push(*rng.pick(CONTROL))
                } else if allow_disagree {
                    s.push_str(*rng.pick::<&str>(CLUSTER))
                } else {
                    s.push(' ')
                }
            }
        }
    }
    s
}

const ELLIPSES: &[&str] = &[
    "", "…", "...", "..", ".", "漢", "漢字", "\u{301}…", "…\u{301}", "\u{200b}", ">>", "あ…", "…あ",
    "\u{301}\u{301}", "abcdefgh",
];
const ELLIPSES_DISAGREE: &[&str] = &["\t", "👨\u{200d}👩\u{200d}👧", "❤\u{fe0f}", "\x01…"];

/// Fixed corpus for write_truncated_start: content that fits and begins with zero-width
/// characters (finding F-C44b, repaired by /repo commit a58816e: these must come back unchanged;
/// with the fix reverted the checker rejects them).
const TRUNC_START_CORPUS: &[(&str, &str, usize)] = &[
    ("\u{ad}x漢", ".", 6),
    ("\u{301}abc", "…", 10),
    ("\u{200b}.-あ한漢\u{200d}a", "abcdefgh", 1000),
    ("\u{ad}\u{1160}.\u{1160}b", "abcdefgh", 9),
    ("\u{200d}漢é한x", "漢", 1000),
    ("\u{301}\u{301}a", "", 1),
];

fn gen_max(rng: &mut Rng) -> usize {
    match rng.below(12) {
        0 => 0,
        1 => 1,
        2 => 2,
        3 => 1000,
        _ => rng.below(13) as usize,
    }
}

fn char_sum(s: &str, memo: &mut HashMap<char, usize>) -> usize {
    s.chars().map(|c| cw(c, memo)).sum()
}

fn main() {
    jjv::run("C44", "C44", |ctx| {
        let mut memo: HashMap<char, usize> = HashMap::new();
        for i in ctx.indices() {
            let mut rng = ctx.rng(i);
            match i % 10 {
                0..=3 => {
                    // elide_start / elide_end
                    let start = rng.chance(1, 2);
                    let text = gen_text(&mut rng, true, 10);
                    let ell = if rng.chance(1, 10) { gen_text(&mut rng, true, 4) } else { rng.pick(ELLIPSES).to_string() };
                    let max = gen_max(&mut rng);
                    let r = jjv::catch(|| {
                        let (o, w) = if start {
                            text_util::elide_start(&text, &ell, max)
                        } else {
                            text_util::elide_end(&text, &ell, max)
                        };
                        (o.into_owned(), w)
                    });
                    let (out, w, p) = match r {
                        Some((o, w)) => (o, w, false),
                        None => {
                            ctx.panicked();
                            (String::new(), 0, true)
                        }
                    };
                    let tw = char_sum(&text, &mut memo);
                    let ew = char_sum(&ell, &mut memo);
                    let term = coq::app(
                        "CElide",
                        &[
                            coq::b(start),
                            chars_term(&text, &mut memo),
                            chars_term(&ell, &mut memo),
                            coq::n(max as u64),
                            cps_term(&out),
                            coq::n(w as u64),
                            coq::b(p),
                        ],
                    );
                    let class = if tw <= max { "fits" } else if ew <= max { "elided" } else { "ellipsis-cut" };
                    let shape = format!("elide_{} {}", if start { "start" } else { "end" }, class);
                    ctx.emit(i, term, tw > max && !text.is_empty(), &shape);
                }
                4..=6 => {
                    // write_truncated_start / write_truncated_end
                    let mut start = rng.chance(1, 2);
                    let disagree = rng.chance(1, 5);
                    let mut data = gen_text(&mut rng, disagree, 10);
                    let mut ell = if disagree && rng.chance(1, 3) {
                        rng.pick(ELLIPSES_DISAGREE).to_string()
                    } else {
                        rng.pick(ELLIPSES).to_string()
                    };
                    let mut max = gen_max(&mut rng);
                    let corpus_slot = (i / 10) * 3 + (i % 10 - 4);
                    if corpus_slot < TRUNC_START_CORPUS.len() {
                        let (d, e, m) = TRUNC_START_CORPUS[corpus_slot];
                        (start, data, ell, max) = (true, d.to_string(), e.to_string(), m);
                    }
                    let content = recorder(&data, &mut rng);
                    let ellipsis = recorder(&ell, &mut rng);
                    let r = jjv::catch(|| {
                        let mut out = Vec::new();
                        let mut f = PlainTextFormatter::new(&mut out);
                        let w = if start {
                            text_util::write_truncated_start(&mut f, &content, &ellipsis, max)
                        } else {
                            text_util::write_truncated_end(&mut f, &content, &ellipsis, max)
                        }
                        .unwrap();
                        drop(f);
                        (String::from_utf8(out).expect("valid UTF-8 output"), w)
                    });
                    let (out, w, p) = match r {
                        Some((o, w)) => (o, w, false),
                        None => {
                            ctx.panicked();
                            (String::new(), 0, true)
                        }
                    };
                    let swd = sw(&data);
                    let swe = sw(&ell);
                    let agree = swd == char_sum(&data, &mut memo) && swe == char_sum(&ell, &mut memo);
                    let term = coq::app(
                        "CTrunc",
                        &[
                            coq::b(start),
                            chars_term(&data, &mut memo),
                            chars_term(&ell, &mut memo),
                            coq::n(max as u64),
                            coq::n(swd as u64),
                            coq::n(swe as u64),
                            cps_term(&out),
                            coq::n(w as u64),
                            coq::b(p),
                        ],
                    );
                    let shape = format!(
                        "truncate_{} {} {}",
                        if start { "start" } else { "end" },
                        if swd <= max { "fits" } else { "cut" },
                        if agree { "measures-agree" } else { "measures-differ" }
                    );
                    ctx.emit(i, term, swd > max && agree, &shape);
                }
                7 => {
                    let kind = rng.below(3);
                    let data = gen_text(&mut rng, false, 8);
                    let fill = if rng.chance(1, 6) { rng.pick(&["", "ab", "漢", "\u{301}"]).to_string() } else { rng.pick(&[" ", "-", "·", "x"]).to_string() };
                    let min = gen_max(&mut rng).min(40);
                    let content = recorder(&data, &mut rng);
                    // write_padding repeats every recorded range separately ("the byte sequence
                    // shouldn't be broken up to multiple labeled regions", text_util.rs:377-379):
                    // the fill is recorded as one labelled region
                    let fillr = {
                        let mut rec = FormatRecorder::new(false);
                        rec.push_label("fill");
                        rec.write_all(fill.as_bytes()).unwrap();
                        rec.pop_label();
                        rec
                    };
                    let r = jjv::catch(|| {
                        let mut out = Vec::new();
                        let mut f = PlainTextFormatter::new(&mut out);
                        match kind {
                            0 => text_util::write_padded_start(&mut f, &content, &fillr, min),
                            1 => text_util::write_padded_end(&mut f, &content, &fillr, min),
                            _ => text_util::write_padded_centered(&mut f, &content, &fillr, min),
                        }
                        .unwrap();
                        drop(f);
                        String::from_utf8(out).expect("valid UTF-8 output")
                    });
                    let (out, p) = match r {
                        Some(o) => (o, false),
                        None => {
                            ctx.panicked();
                            (String::new(), true)
                        }
                    };
                    let swd = sw(&data);
                    let term = coq::app(
                        "CPad",
                        &[
                            coq::n(kind),
                            chars_term(&data, &mut memo),
                            chars_term(&fill, &mut memo),
                            coq::n(min as u64),
                            coq::n(swd as u64),
                            cps_term(&out),
                            coq::b(p),
                        ],
                    );
                    let shape = format!("pad kind={kind} {}", if swd >= min { "fits" } else { "padded" });
                    ctx.emit(i, term, swd < min, &shape);
                }
                _ => {
                    // wrap_bytes
                    let mut text = String::new();
                    let words = rng.below(9);
                    for k in 0..words {
                        if k > 0 {
                            match rng.below(10) {
                                0 => text.push('\n'),
                                1 => text.push_str("  "),
                                2 => text.push_str(" \n"),
                                3 => text.push_str("\n "),
                                _ => text.push(' '),
                            }
                        }
                        let wl = 1 + rng.below(4) + if rng.chance(1, 8) { 8 } else { 0 };
                        for _ in 0..wl {
                            let k = rng.below(10);
                            text.push(if k < 6 {
                                *rng.pick(NARROW)
                            } else if k < 8 {
                                *rng.pick(WIDE)
                            } else if k < 9 {
                                *rng.pick(ZERO)
                            } else {
                                *rng.pick(&['\t', '\u{a0}', '\u{3000}', '-'])
                            });
                        }
                    }
                    if rng.chance(1, 6) {
                        text.insert(0, ' ');
                    }
                    if rng.chance(1, 6) {
                        text.push_str(*rng.pick::<&str>(&[" ", "  ", "\n", " \n"]));
                    }
                    let width = gen_max(&mut rng).min(30);
                    let bytes = text.as_bytes();
                    let r = jjv::catch(|| {
                        text_util::wrap_bytes(bytes, width)
                            .into_iter()
                            .map(|l| (l.as_ptr() as usize - bytes.as_ptr() as usize, l.to_vec()))
                            .collect::<Vec<_>>()
                    });
                    let (lines, p) = match r {
                        Some(l) => (l, false),
                        None => {
                            ctx.panicked();
                            (vec![], true)
                        }
                    };
                    let mut soft = 0;
                    let mut prev_end: Option<usize> = None;
                    let mut lt: Vec<String> = vec![];
                    for (start, l) in &lines {
                        let s = String::from_utf8_lossy(l);
                        let w = char_sum(&s, &mut memo);
                        let first = s.split(' ').next().unwrap_or("");
                        let fw = char_sum(first, &mut memo);
                        if let Some(e) = prev_end {
                            if !bytes[e..*start].contains(&b'\n') {
                                soft += 1;
                            }
                        }
                        prev_end = Some(start + l.len());
                        lt.push(format!("(mk_wline {} {} {} {})", start, coq::bytes(l), w, fw));
                    }
                    let lterms = coq::list(lt.iter(), |t| t.clone());
                    // write_wrapped on the same text, recorded in three labelled regions
                    let content = recorder(&text, &mut rng);
                    let wrapped = jjv::catch(|| {
                        let mut out = Vec::new();
                        let mut f = PlainTextFormatter::new(&mut out);
                        text_util::write_wrapped(&mut f, &content, width).unwrap();
                        drop(f);
                        out
                    });
                    let (wrapped, p) = match wrapped {
                        Some(o) => (o, p),
                        None => {
                            ctx.panicked();
                            (vec![], true)
                        }
                    };
                    let term = coq::app(
                        "CWrap",
                        &[coq::bytes(bytes), coq::n(width as u64), lterms, coq::bytes(&wrapped), coq::b(p)],
                    );
                    let shape = format!("wrap soft_breaks={}", soft.min(4));
                    ctx.emit(i, term, soft > 0, &shape);
                }
            }
        }
    });
}
