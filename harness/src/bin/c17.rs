//! C17: Store::write_commit then Backend::read_commit in a fresh store on the same
//! directory, for the Git backend and the simple backend; generated commits per the
//! property's quantifier, plus collision scenarios (same Git commit, different extras).
use std::sync::Arc;

use jj_lib::backend::ChangeId;
use jj_lib::backend::Commit;
use jj_lib::backend::CommitId;
use jj_lib::backend::MillisSinceEpoch;
use jj_lib::backend::Signature;
use jj_lib::backend::Timestamp;
use jj_lib::backend::TreeId;
use jj_lib::content_hash::ContentHash;
use jj_lib::content_hash::DigestUpdate;
use jj_lib::merge::Merge;
use jj_lib::object_id::ObjectId as _;
use jj_lib::repo::Repo as _;
use jjv::Rng;
use jjv::coq;
use pollster::FutureExt as _;
use testutils::TestRepo;
use testutils::TestRepoBackend;
use testutils::TestTreeBuilder;
use testutils::repo_path;

struct Collect(Vec<u8>);
impl DigestUpdate for Collect {
    fn update(&mut self, data: &[u8]) {
        self.0.extend_from_slice(data);
    }
}

const PLACEHOLDER: &str = "JJ_EMPTY_STRING";

fn gen_name(rng: &mut Rng, email: bool) -> String {
    // mostly ordinary; every special class at a low rate
    let ordinary: &[&str] = if email {
        &["a@example.com", "b@example.com", "\u{e9}@x.org", "a"]
    } else {
        &["Ann", "Bob B", "\u{c9}mile Zol\u{e0}", "a"]
    };
    match rng.below(480) {
        0..=59 => String::new(),
        60..=63 => PLACEHOLDER.to_string(),
        64 => " Ann".to_string(),
        65 => "Ann ".to_string(),
        66 => "\u{a0}Ann\u{2003}".to_string(),
        67 => " ".to_string(),
        68 => "a<b".to_string(),
        69 => "a>b".to_string(),
        70 => "a\nb".to_string(),
        71 => format!("{PLACEHOLDER} "),
        72..=83 => "Ann  B".to_string(),
        84 => "\t".to_string(),
        85 => "\u{3000}".to_string(),
        _ => (*rng.pick(ordinary)).to_string(),
    }
}

fn gen_millis(rng: &mut Rng) -> i64 {
    *rng.pick(&[
        0i64,
        1_000_123,
        1_000_000,
        999,
        1,
        -1,
        -1001,
        -1000,
        1_700_000_000_123,
        1_700_000_000_000,
        1_700_000_001_000,
        -62_135_596_800_000,
        (1i64 << 53) + 1,
        4_102_444_800_999,
    ])
}

fn gen_tz(rng: &mut Rng) -> i32 {
    match rng.below(120) {
        0..=2 => 5999,
        3..=5 => -5999,
        6 => 6000,
        7 => -6000,
        8..=10 => 1439,
        11..=13 => -1440,
        _ => *rng.pick(&[0, 0, 60, -330, 120, 345, -1]),
    }
}

fn gen_sig(rng: &mut Rng) -> Signature {
    Signature {
        name: gen_name(rng, false),
        email: gen_name(rng, true),
        timestamp: Timestamp { timestamp: MillisSinceEpoch(gen_millis(rng)), tz_offset: gen_tz(rng) },
    }
}

fn gen_bytes20(rng: &mut Rng) -> Vec<u8> {
    let fill = *rng.pick(&[0x11u8, 0x22, 0xab]);
    let mut v = vec![fill; 20];
    v[19] = rng.below(3) as u8;
    v
}

fn gen_change_id(rng: &mut Rng) -> ChangeId {
    match rng.below(80) {
        0 => ChangeId::new(vec![]),
        1 => ChangeId::new(vec![1, 2, 3]),
        2 => ChangeId::new(vec![0xff; 17]),
        _ => {
            let fill = *rng.pick(&[0x00u8, 0x5a, 0xff]);
            let mut v = vec![fill; 16];
            v[0] = rng.below(4) as u8;
            ChangeId::new(v)
        }
    }
}

fn gen_description(rng: &mut Rng) -> String {
    (*rng.pick(&[
        "", "msg", "msg\n", "two\nlines\n", "\n", "a\n\nb", " lead", "trail ", "h\u{e9}llo \u{1f600}\n", "x\0y",
        "tree 1234\nauthor x\n",
    ]))
    .to_string()
}

fn gen_label(rng: &mut Rng) -> String {
    match rng.below(100) {
        0 => "a\nb".to_string(),
        _ => (*rng.pick(&["", "side A", "base", "x y", " lead", "trail ", "\u{e9}t\u{e9}", "rebase destination"]))
            .to_string(),
    }
}

struct Env {
    root: CommitId,
    trees: Vec<TreeId>, // [empty, t1, t2]
}

fn gen_tree_id(rng: &mut Rng, env: &Env) -> TreeId {
    match rng.below(120) {
        0 => TreeId::new(vec![1, 2, 3]),
        1 => TreeId::new(vec![0x33; 21]),
        _ => rng.pick(&env.trees).clone(),
    }
}

fn gen_commit(rng: &mut Rng, env: &Env, earlier: &[CommitId]) -> Commit {
    // parents
    let mut pool: Vec<CommitId> = vec![env.root.clone()];
    pool.extend(earlier.iter().cloned());
    let parents = match rng.below(80) {
        0 => vec![],
        1 => vec![env.root.clone(), rng.pick(&pool).clone()],
        2 => vec![CommitId::new(vec![1, 2, 3])],
        3 | 4 => vec![CommitId::new(gen_bytes20(rng))], // well-formed id of a missing object
        _ => {
            let n = if earlier.len() >= 2 && rng.chance(1, 3) { 2 } else { 1 };
            let non_root: Vec<CommitId> = earlier.to_vec();
            if n == 2 {
                vec![non_root[0].clone(), non_root[non_root.len() - 1].clone()]
            } else {
                rng.pick(&pool).clone().into_iter_one()
            }
        }
    };
    let sides = match rng.below(10) {
        0..=5 => 1,
        6..=8 => 2,
        _ => 3,
    };
    let root_tree = Merge::from_vec((0..2 * sides - 1).map(|_| gen_tree_id(rng, env)).collect::<Vec<_>>());
    let conflict_labels = if sides == 1 {
        if rng.chance(1, 100) { Merge::resolved("stray".to_string()) } else { Merge::resolved(String::new()) }
    } else {
        match rng.below(20) {
            0 => Merge::resolved(String::new()), // conflict without labels
            1 => Merge::from_vec((0..2 * sides + 1).map(|_| gen_label(rng)).collect::<Vec<_>>()),
            // all labels empty: ConflictLabels (simple backend) reads them as "no labels"
            2 => Merge::from_vec((0..2 * sides - 1).map(|_| String::new()).collect::<Vec<_>>()),
            _ => Merge::from_vec((0..2 * sides - 1).map(|_| gen_label(rng)).collect::<Vec<_>>()),
        }
    };
    Commit {
        parents,
        predecessors: (0..rng.below(3)).map(|_| CommitId::new(gen_bytes20(rng))).collect(),
        root_tree,
        conflict_labels,
        change_id: gen_change_id(rng),
        description: gen_description(rng),
        author: gen_sig(rng),
        committer: gen_sig(rng),
        secure_sig: None,
    }
}

trait OneVec {
    fn into_iter_one(self) -> Vec<CommitId>;
}
impl OneVec for CommitId {
    fn into_iter_one(self) -> Vec<CommitId> {
        vec![self]
    }
}

/// A commit related to an earlier input so that encodings collide or nearly collide.
fn gen_related(rng: &mut Rng, base: &Commit) -> Commit {
    let mut c = base.clone();
    match rng.below(10) {
        0 | 1 => {} // identical
        2..=4 => {
            // same Git commit, different extras: committer timestamp must be decremented
            c.predecessors.push(CommitId::new(gen_bytes20(rng)));
        }
        5 => {
            // F2 twins
            if c.author.name.is_empty() {
                c.author.name = PLACEHOLDER.to_string();
            } else if c.author.name == PLACEHOLDER {
                c.author.name = String::new();
            } else if c.committer.email.is_empty() {
                c.committer.email = PLACEHOLDER.to_string();
            } else {
                c.committer.email = String::new();
            }
        }
        6 => {
            // differs below second precision only
            c.author.timestamp.timestamp.0 += 1;
        }
        7 => {
            c.committer.timestamp.timestamp.0 -= 1000;
            c.predecessors.push(CommitId::new(gen_bytes20(rng)));
        }
        8 => c.description.push('x'),
        _ => c.author.timestamp.tz_offset += 1,
    }
    c
}

// ------------------------------------------------------------------ printers

fn by(x: &[u8]) -> String {
    coq::bytes(x)
}

fn c_sig(s: &Signature) -> String {
    coq::app(
        "mk_sig",
        &[by(s.name.as_bytes()), by(s.email.as_bytes()), coq::z(s.timestamp.timestamp.0), coq::z(s.timestamp.tz_offset as i64)],
    )
}

fn c_commit(c: &Commit) -> String {
    coq::app(
        "mk_commit",
        &[
            coq::list(c.parents.iter(), |p| by(p.as_bytes())),
            coq::list(c.predecessors.iter(), |p| by(p.as_bytes())),
            coq::list(c.root_tree.iter(), |t| by(t.as_bytes())),
            coq::list(c.conflict_labels.iter(), |l| by(l.as_bytes())),
            by(c.change_id.as_bytes()),
            by(c.description.as_bytes()),
            c_sig(&c.author),
            c_sig(&c.committer),
        ],
    )
}

enum W {
    Ok(CommitId, Commit),
    Err,
    Panic,
}

fn main() {
    jjv::run("C17", "C17", |ctx| {
        // TestRepo puts its directories under TMPDIR
        // SAFETY: single-threaded at this point.
        unsafe { std::env::set_var("TMPDIR", &ctx.scratch) };
        let debug = std::env::var("C17_DEBUG").is_ok();
        if debug {
            std::panic::set_hook(Box::new(|info| eprintln!("PANIC {info}")));
        }
        for i in ctx.indices() {
            let mut rng = ctx.rng(i);
            let git = i % 3 != 2;
            let test_repo = TestRepo::init_with_backend(if git { TestRepoBackend::Git } else { TestRepoBackend::Simple });
            let repo = test_repo.repo.clone();
            let store = repo.store().clone();
            let mk_tree = |name: &str, content: &str| {
                let mut b = TestTreeBuilder::new(store.clone());
                b.file(repo_path(name), content);
                b.write_single_tree().id().clone()
            };
            let env = Env {
                root: store.root_commit_id().clone(),
                trees: vec![store.empty_tree_id().clone(), mk_tree("f", "1"), mk_tree("g", "2")],
            };
            // inputs
            let nsteps = if i == 0 { 1 } else { rng.range(1, 3) as usize };
            let mut inputs: Vec<Commit> = vec![];
            let mut outs: Vec<W> = vec![];
            let mut cached_now: Vec<bool> = vec![]; // Store's cache right after each write
            let mut ok_ids: Vec<CommitId> = vec![];
            for k in 0..nsteps {
                let input = if i == 0 {
                    // corpus case 0: the F1 scenario (sub-second author timestamp)
                    Commit {
                        parents: vec![env.root.clone()],
                        predecessors: vec![],
                        root_tree: Merge::resolved(env.trees[0].clone()),
                        conflict_labels: Merge::resolved(String::new()),
                        change_id: ChangeId::new(vec![7; 16]),
                        description: "f1".to_string(),
                        author: Signature {
                            name: "A".into(),
                            email: "a@x".into(),
                            timestamp: Timestamp { timestamp: MillisSinceEpoch(1_000_123), tz_offset: 0 },
                        },
                        committer: Signature {
                            name: "A".into(),
                            email: "a@x".into(),
                            timestamp: Timestamp { timestamp: MillisSinceEpoch(2_000_456), tz_offset: 60 },
                        },
                        secure_sig: None,
                    }
                } else if k > 0 && rng.chance(1, 2) {
                    let base = rng.pick(&inputs).clone();
                    gen_related(&mut rng, &base)
                } else {
                    gen_commit(&mut rng, &env, &ok_ids)
                };
                let out = if input.parents.is_empty() {
                    // Store::write_commit asserts; ask the backend directly
                    match jjv::catch(|| store.backend().write_commit(input.clone(), None).block_on()) {
                        None => W::Panic,
                        Some(Ok((id, c))) => W::Ok(id, c),
                        Some(Err(_)) => W::Err,
                    }
                } else {
                    match jjv::catch(|| store.write_commit(input.clone(), None).block_on()) {
                        None => W::Panic,
                        Some(Ok(c)) => W::Ok(c.id().clone(), c.store_commit().as_ref().clone()),
                        Some(Err(_)) => W::Err,
                    }
                };
                if let W::Ok(id, returned) = &out {
                    ok_ids.push(id.clone());
                    cached_now.push(
                        store.get_commit(id).map(|c| c.store_commit().as_ref() == returned).unwrap_or(false),
                    );
                } else {
                    cached_now.push(true);
                }
                let panicked = matches!(out, W::Panic);
                inputs.push(input);
                outs.push(out);
                if panicked {
                    break; // a panic inside the Git backend poisons its mutex
                }
            }
            // read back in a fresh store on the same directory
            let fresh = test_repo.env.load_repo_at_head(&testutils::user_settings(), test_repo.repo_path());
            let fresh_store: Arc<jj_lib::store::Store> = fresh.store().clone();
            let mut steps = vec![];
            let mut all_equal = true;
            let mut any_ok = false;
            let mut ids_are_hashes = true;
            for ((input, out), cached_at_write) in inputs.iter().zip(outs.iter()).zip(cached_now.iter()) {
                let (wres, rres, cached, hashed) = match out {
                    W::Panic => ("IPanic".to_string(), "RNone".to_string(), true, vec![]),
                    W::Err => ("IErr".to_string(), "RNone".to_string(), true, vec![]),
                    W::Ok(id, returned) => {
                        any_ok = true;
                        let cached = *cached_at_write;
                        let read = jjv::catch(|| fresh_store.backend().read_commit(id).block_on());
                        let r = match &read {
                            None => "RPanic".to_string(),
                            Some(Err(_)) => "RErr".to_string(),
                            Some(Ok(c)) => format!("(ROk {})", c_commit(c)),
                        };
                        if !matches!(&read, Some(Ok(c)) if c == returned) {
                            all_equal = false;
                            if debug {
                                eprintln!("case {i} git={git}: returned {:?}\n   read {:?}", returned, read.as_ref().map(|r| r.as_ref().ok()));
                            }
                        }
                        let hashed = if git {
                            vec![]
                        } else {
                            let mut c = Collect(vec![]);
                            returned.hash(&mut c);
                            use digest::Digest as _;
                            let mut h = blake2::Blake2b512::default();
                            digest::Update::update(&mut h, &c.0);
                            if h.finalize().to_vec() != id.as_bytes() {
                                ids_are_hashes = false;
                            }
                            c.0
                        };
                        (format!("(IOk {} {})", by(id.as_bytes()), c_commit(returned)), r, cached, hashed)
                    }
                };
                steps.push(coq::app("mk_step", &[c_commit(input), wres, rres, coq::b(cached), by(&hashed)]));
            }
            // files, symlinks and a tree: written through the first store, read through the
            // freshly loaded one
            let mut objects: Vec<String> = vec![];
            let mut objects_equal = true;
            // (a panic inside the Git backend has poisoned the writing store's mutex)
            if !outs.iter().any(|o| matches!(o, W::Panic)) {
                use jj_lib::backend::TreeValue;
                use jj_lib::repo_path::RepoPathComponentBuf;
                use futures::io::AsyncReadExt as _;
                let path = repo_path("dir/file");
                let blobs: [&[u8]; 8] = [b"", b"a", b"\0", b"\r\n\n", b"\xff\xfe", "h\u{e9}".as_bytes(), b"blob 3\0abc", b"tree 0\0"];
                let mut file_ids = vec![];
                for _ in 0..rng.range(1, 3) {
                    let mut content: Vec<u8> = rng.pick(&blobs).to_vec();
                    if rng.chance(1, 4) {
                        content.extend(std::iter::repeat_n(*rng.pick(&[0u8, 10, 120]), rng.range(1, 300) as usize));
                    }
                    let id = store.write_file(path, &mut &content[..]).block_on().unwrap();
                    let read = jjv::catch(|| {
                        let mut r = fresh_store.read_file(path, &id).block_on().ok()?;
                        let mut out = vec![];
                        r.read_to_end(&mut out).block_on().ok()?;
                        Some(out)
                    })
                    .flatten();
                    objects_equal &= read.as_deref() == Some(&content[..]);
                    objects.push(coq::pair(by(&content), coq::opt(read, |r| by(&r))));
                    file_ids.push(id);
                }
                let targets = ["", "a", "../x", "/abs/\u{e9}", "a\nb", " "];
                let target = *rng.pick(&targets);
                let mut symlink_id = None;
                // the Git backend cannot store an empty blob as a symlink target differently
                // from a file: ids are content hashes, reads are by id
                if let Ok(id) = store.write_symlink(path, target).block_on() {
                    let read = jjv::catch(|| fresh_store.read_symlink(path, &id).block_on().ok()).flatten();
                    objects_equal &= read.as_deref() == Some(target);
                    objects.push(coq::pair(by(target.as_bytes()), coq::opt(read, |r| by(r.as_bytes()))));
                    symlink_id = Some(id);
                }
                // a tree with every kind of entry, in sorted order
                let mut entries: Vec<(RepoPathComponentBuf, TreeValue)> = vec![];
                let names = ["a", "b.txt", "c d", "\u{e9}", "z"];
                for (n, name) in names.iter().enumerate() {
                    if rng.chance(1, 3) {
                        continue;
                    }
                    let value = match (n + rng.usize(4)) % 4 {
                        0 => TreeValue::File {
                            id: file_ids[0].clone(),
                            executable: rng.chance(1, 2),
                            copy_id: jj_lib::backend::CopyId::placeholder(),
                        },
                        1 if symlink_id.is_some() => TreeValue::Symlink(symlink_id.clone().unwrap()),
                        2 => TreeValue::Tree(env.trees[rng.usize(env.trees.len())].clone()),
                        _ => TreeValue::File {
                            id: file_ids[file_ids.len() - 1].clone(),
                            executable: false,
                            copy_id: jj_lib::backend::CopyId::placeholder(),
                        },
                    };
                    entries.push((RepoPathComponentBuf::new(*name).unwrap(), value));
                }
                entries.sort_by(|a, b| a.0.cmp(&b.0));
                let ser = |t: &jj_lib::backend::Tree| -> Vec<u8> {
                    let mut out = vec![];
                    for e in t.entries() {
                        out.extend_from_slice(e.name().as_internal_str().as_bytes());
                        out.push(0);
                        match e.value() {
                            TreeValue::File { id, executable, .. } => {
                                out.push(if *executable { 2 } else { 1 });
                                out.push(id.as_bytes().len() as u8);
                                out.extend_from_slice(id.as_bytes());
                            }
                            TreeValue::Symlink(id) => {
                                out.push(3);
                                out.push(id.as_bytes().len() as u8);
                                out.extend_from_slice(id.as_bytes());
                            }
                            TreeValue::Tree(id) => {
                                out.push(4);
                                out.push(id.as_bytes().len() as u8);
                                out.extend_from_slice(id.as_bytes());
                            }
                            TreeValue::GitSubmodule(id) => {
                                out.push(5);
                                out.push(id.as_bytes().len() as u8);
                                out.extend_from_slice(id.as_bytes());
                            }
                        }
                    }
                    out
                };
                let tree = jj_lib::backend::Tree::from_sorted_entries(entries);
                let dir = repo_path("dir");
                if let Ok(id) = store.backend().write_tree(dir, &tree).block_on() {
                    let read = jjv::catch(|| fresh_store.backend().read_tree(dir, &id).block_on().ok()).flatten();
                    let written = ser(&tree);
                    let read_ser = read.as_ref().map(|t| ser(t));
                    objects_equal &= read_ser.as_deref() == Some(&written[..]);
                    objects.push(coq::pair(by(&written), coq::opt(read_ser, |r| by(&r))));
                }
            }
            if !objects_equal {
                all_equal = false;
            }
            let term = coq::app(
                "mk_case",
                &[
                    coq::b(git),
                    by(env.root.as_bytes()),
                    coq::list(steps.iter(), |s| s.clone()),
                    coq::b(ids_are_hashes),
                    coq::list(objects.iter(), |s| s.clone()),
                ],
            );
            let outcome: Vec<&str> = outs
                .iter()
                .map(|o| match o {
                    W::Ok(..) => "ok",
                    W::Err => "err",
                    W::Panic => "panic",
                })
                .collect();
            let shape = format!(
                "{} {} {}",
                if git { "git" } else { "simple" },
                outcome.join(","),
                if all_equal { "read=returned" } else { "read!=returned" }
            );
            ctx.emit(i, term, any_ok, &shape);
        }
    });
}
