//! C01: Merge::simplify / flatten / update_from_simplified on Merge<u8>.
use jj_lib::merge::Merge;
use jjv::coq;
use jjv::Rng;

fn gen_terms(rng: &mut Rng, max_sides: u64, alphabet: u64) -> Vec<u8> {
    // arity 1,3,5,... geometric, small alphabet so equalities happen
    let sides = 1 + rng.geometric(max_sides - 1);
    let len = (2 * sides - 1) as usize;
    match rng.below(10) {
        0 => vec![rng.below(alphabet) as u8; len], // all equal
        1 => (0..len).map(|i| (i % 2) as u8).collect(), // alternating a b a b a
        _ => (0..len).map(|_| rng.below(alphabet) as u8).collect(),
    }
}

fn main() {
    jjv::run("C01", "C01", |ctx| {
        for i in ctx.indices() {
            let mut rng = ctx.rng(i);
            let alphabet = rng.range(2, 4);
            let terms = gen_terms(&mut rng, 8, alphabet);
            let m = Merge::from_vec(terms.clone());
            let simplified = m.simplify();
            // nested merge: outer arity 1..3 sides, inner arity 1..3 sides
            let outer_sides = 1 + rng.geometric(2);
            let nested_terms: Vec<Vec<u8>> = (0..2 * outer_sides - 1)
                .map(|_| gen_terms(&mut rng, 3, alphabet))
                .collect();
            let nested = Merge::from_vec(
                nested_terms
                    .iter()
                    .map(|t| Merge::from_vec(t.clone()))
                    .collect::<Vec<_>>(),
            );
            let flat = nested.flatten();
            // edit the simplified form at random positions with fresh or existing values
            let mut edit: Vec<u8> = simplified.iter().copied().collect();
            let edits = rng.geometric(3);
            for _ in 0..edits {
                let k = rng.usize(edit.len());
                edit[k] = if rng.chance(1, 2) { 100 + rng.below(3) as u8 } else { rng.below(alphabet) as u8 };
            }
            let updated = m.clone().update_from_simplified(Merge::from_vec(edit.clone()));
            let l = |v: &[u8]| coq::list(v.iter(), |x| coq::n(*x as u64));
            let term = coq::app(
                "C01.mk_case",
                &[
                    l(&terms),
                    l(simplified.as_slice()),
                    coq::list(nested_terms.iter(), |t| l(t)),
                    l(flat.as_slice()),
                    l(&edit),
                    l(updated.as_slice()),
                ],
            );
            let nontrivial = simplified.as_slice().len() < terms.len() && terms.len() >= 3;
            let shape = format!("arity={} simplified={}", terms.len(), simplified.as_slice().len());
            ctx.emit(i, term, nontrivial, &shape);
        }
    });
}
