//! C01: Merge::simplify / flatten / update_from_simplified on Merge<u8>.
//!
//! Index layout (a case is a function of (seed, tier, index) only):
//!   0..E       exhaustive supplement: every merge of arity 1,3,5 over 3 values (quick, E = 273),
//!              plus arity 7 in the thorough tier (E = 2460);
//!   E..        seeded cases from the pools below (arity >= 3 dominant).
use jj_lib::merge::Merge;
use jjv::Rng;
use jjv::coq;

const FRESH: u8 = 100; // first of the pairwise distinct probe values; terms are < 50

/// (pool name, terms)
fn gen_terms(rng: &mut Rng, max_extra_sides: u64, alphabet: u64) -> (&'static str, Vec<u8>) {
    // arity 1 is rare; 3.. dominant
    let sides = if rng.chance(1, 16) {
        1
    } else {
        2 + rng.below(3) + rng.geometric(max_extra_sides)
    };
    let len = (2 * sides - 1) as usize;
    match rng.below(16) {
        0 => ("allequal", vec![rng.below(alphabet) as u8; len]),
        1 => ("alternating", (0..len).map(|i| (i % 2) as u8).collect()),
        2 | 3 | 4 => {
            // Permutation pool: adds are pairwise distinct, removes are a shuffled selection of
            // the add values (sometimes with one foreign value). Every cancellation moves an
            // add to another slot, so later pairs cancel only after earlier cancellations and
            // all three cursor/remove orders (before, at, after the cursor) occur.
            let k = sides as usize;
            let mut adds: Vec<u8> = (0..k as u8).collect();
            rng.shuffle(&mut adds);
            let mut pool: Vec<u8> = adds.clone();
            rng.shuffle(&mut pool);
            let mut removes: Vec<u8> = pool.into_iter().take(k - 1).collect();
            if !removes.is_empty() && rng.chance(1, 3) {
                let j = rng.usize(removes.len());
                removes[j] = 40 + rng.below(2) as u8;
            }
            if !removes.is_empty() && rng.chance(1, 4) {
                // a repeated remove: only one of the two can cancel
                let j = rng.usize(removes.len());
                let j2 = rng.usize(removes.len());
                removes[j] = removes[j2];
            }
            let mut t = Vec::with_capacity(len);
            for i in 0..k {
                t.push(adds[i]);
                if i + 1 < k {
                    t.push(removes[i]);
                }
            }
            ("perm", t)
        }
        5 | 6 => {
            // Chain pool: start from a short merge and repeatedly splice in a cancelling
            // (remove v, add v) pair whose two halves are far apart, around existing terms.
            let mut t: Vec<u8> = vec![rng.below(alphabet) as u8];
            while t.len() < len {
                let v = if rng.chance(1, 2) { rng.below(alphabet) as u8 } else { 10 + rng.below(3) as u8 };
                // insert v as a new add and as a new remove at independent places
                let adds_n = t.len() / 2 + 1;
                let a_slot = rng.usize(adds_n + 1); // new add becomes add number a_slot
                let r_slot = rng.usize(adds_n); // new remove becomes remove number r_slot
                let mut adds: Vec<u8> = t.iter().copied().step_by(2).collect();
                let mut removes: Vec<u8> = t.iter().copied().skip(1).step_by(2).collect();
                adds.insert(a_slot, v);
                removes.insert(r_slot, v);
                t = Vec::with_capacity(adds.len() + removes.len());
                for i in 0..adds.len() {
                    t.push(adds[i]);
                    if i < removes.len() {
                        t.push(removes[i]);
                    }
                }
            }
            ("chain", t)
        }
        _ => ("random", (0..len).map(|_| rng.below(alphabet) as u8).collect()),
    }
}

fn exhaustive(max_len: usize) -> Vec<Vec<u8>> {
    let mut out = vec![];
    for len in (1..=max_len).step_by(2) {
        for code in 0..3usize.pow(len as u32) {
            let mut c = code;
            out.push(
                (0..len)
                    .map(|_| {
                        let d = (c % 3) as u8;
                        c /= 3;
                        d
                    })
                    .collect(),
            );
        }
    }
    out
}

fn main() {
    jjv::run("C01", "C01", |ctx| {
        let thorough = ctx.tier == "thorough";
        let exh = exhaustive(if thorough { 7 } else { 5 });
        ctx.note(format!("exhaustive supplement: indices 0..{} (arity <= {} over 3 values)", exh.len(), if thorough { 7 } else { 5 }));
        for i in ctx.indices() {
            let mut rng = ctx.rng(i);
            let alphabet = rng.range(2, 4);
            let (pool, terms) = if i < exh.len() {
                ("exhaustive", exh[i].clone())
            } else {
                gen_terms(&mut rng, if thorough { 14 } else { 7 }, alphabet)
            };
            let m = Merge::from_vec(terms.clone());
            let simplified = m.simplify();
            let resimplified = simplified.simplify();
            let slen = simplified.as_slice().len();

            // Observe get_simplified_mapping(): write pairwise distinct fresh values back.
            let fresh: Vec<u8> = (0..slen).map(|j| FRESH + j as u8).collect();
            let probed = m.clone().update_from_simplified(Merge::from_vec(fresh.clone()));
            let mapping: Vec<u64> = fresh
                .iter()
                .map(|f| {
                    let hits: Vec<usize> =
                        probed.iter().enumerate().filter(|(_, x)| *x == f).map(|(p, _)| p).collect();
                    if hits.len() == 1 { hits[0] as u64 } else { 9999 }
                })
                .collect();

            // nested merge: outer arity 1..7, inner arity 1..7; pools: all inner terms
            // resolved / removes conflicted / mixed
            let outer_sides = 1 + rng.geometric(3);
            let nest_pool = rng.below(5);
            let nested_terms: Vec<Vec<u8>> = (0..2 * outer_sides - 1)
                .map(|k| match nest_pool {
                    0 => vec![rng.below(alphabet) as u8],
                    1 if k % 2 == 0 => vec![rng.below(alphabet) as u8],
                    _ => {
                        let sides = 1 + rng.geometric(3);
                        (0..2 * sides - 1).map(|_| rng.below(alphabet) as u8).collect()
                    }
                })
                .collect();
            let nested = Merge::from_vec(
                nested_terms.iter().map(|t| Merge::from_vec(t.clone())).collect::<Vec<_>>(),
            );
            let flat = nested.flatten();

            // three levels: Merge<Merge<Merge<u8>>>, flattened twice; small arities, with
            // resolved (arity 1) merges at every level in a third of the cases
            let n3_pool = rng.below(3);
            let small = |rng: &mut Rng| -> u64 { if n3_pool == 0 && rng.chance(1, 2) { 1 } else { 1 + rng.geometric(2) } };
            let outer3 = small(&mut rng);
            let nested3_terms: Vec<Vec<Vec<u8>>> = (0..2 * outer3 - 1)
                .map(|_| {
                    let mid = small(&mut rng);
                    (0..2 * mid - 1)
                        .map(|_| {
                            let inner = small(&mut rng);
                            (0..2 * inner - 1).map(|_| rng.below(alphabet) as u8).collect()
                        })
                        .collect()
                })
                .collect();
            let nested3 = Merge::from_vec(
                nested3_terms
                    .iter()
                    .map(|mm| Merge::from_vec(mm.iter().map(|t| Merge::from_vec(t.clone())).collect::<Vec<_>>()))
                    .collect::<Vec<_>>(),
            );
            let flat3 = nested3.flatten().flatten();

            // edit the simplified form at random positions with fresh or existing values
            let mut edit: Vec<u8> = simplified.iter().copied().collect();
            let edits = rng.geometric(4);
            for _ in 0..edits {
                let k = rng.usize(edit.len());
                edit[k] = if rng.chance(1, 2) { 60 + rng.below(3) as u8 } else { rng.below(alphabet) as u8 };
            }
            let updated = m.clone().update_from_simplified(Merge::from_vec(edit.clone()));

            let l = |v: &[u8]| coq::list(v.iter(), |x| coq::n(*x as u64));
            let term = coq::app(
                "C01.mk_case",
                &[
                    l(&terms),
                    l(simplified.as_slice()),
                    l(resimplified.as_slice()),
                    coq::list(mapping.iter(), |x| coq::n(*x)),
                    coq::list(nested_terms.iter(), |t| l(t)),
                    l(flat.as_slice()),
                    coq::list(nested3_terms.iter(), |mm| coq::list(mm.iter(), |t| l(t))),
                    l(flat3.as_slice()),
                    l(&edit),
                    l(updated.as_slice()),
                ],
            );
            let nontrivial = slen < terms.len() && terms.len() >= 3;
            let bucket = |n: usize| if n >= 9 { "9+".to_string() } else { n.to_string() };
            let shape = format!("{} arity={}", pool, bucket(terms.len()));
            ctx.count(&format!("cancelled_pairs={}", ((terms.len() - slen) / 2).min(5)));
            ctx.emit(i, term, nontrivial, &shape);
        }
    });
}
