//! C29: EOL conversion observed through the real working copy.
//!
//! One real `TreeState` per conversion mode (none / input / input-output). KStored cases: the
//! content is written to the store verbatim, checked out (→ bytes on disk), the file's mtime is
//! bumped, and the working copy is snapshotted again (→ bytes in the store). KDisk cases: the
//! bytes are written to a new file in the working copy and snapshotted.
use std::fs;
use std::path::Path;
use std::sync::Arc;
use std::time::Duration;
use std::time::SystemTime;

use jj_lib::backend::TreeValue;
use jj_lib::local_working_copy::EolConversionMode;
use jj_lib::local_working_copy::ExecChangeSetting;
use jj_lib::local_working_copy::TreeState;
use jj_lib::local_working_copy::TreeStateSettings;
use jj_lib::repo::Repo as _;
use jj_lib::repo_path::RepoPathBuf;
use jj_lib::store::Store;
use jjv::coq;
use pollster::FutureExt as _;
use testutils::TestRepo;
use testutils::TestTreeBuilder;

const LIMIT: usize = 8 << 10; // only used to aim the generator at the boundary

fn settings(mode: EolConversionMode) -> TreeStateSettings {
    TreeStateSettings {
        conflict_marker_style: jj_lib::conflicts::ConflictMarkerStyle::Diff,
        eol_conversion_mode: mode,
        exec_change_setting: ExecChangeSetting::Respect,
        fsmonitor_settings: jj_lib::fsmonitor::FsmonitorSettings::None,
    }
}

/// Byte string as a Coq term: hex for short / incompressible data, run-length otherwise.
fn enc(xs: &[u8]) -> String {
    let mut runs: Vec<(u8, usize)> = vec![];
    for &x in xs {
        match runs.last_mut() {
            Some((b, n)) if *b == x => *n += 1,
            _ => runs.push((x, 1)),
        }
    }
    if xs.len() > 64 && runs.len() * 10 < xs.len() * 2 {
        let segs = coq::list(runs.iter(), |(b, n)| format!("({b}, {n})"));
        format!("(rle {segs})")
    } else {
        coq::bytes(xs)
    }
}

fn has_crlf(xs: &[u8]) -> bool {
    xs.windows(2).any(|w| w == b"\r\n")
}

fn small_content(rng: &mut jjv::Rng) -> Vec<u8> {
    const POOL: &[&[u8]] = &[
        b"", b"\n", b"\r", b"\r\n", b"a", b"a\n", b"a\r", b"a\r\n", b"\n\n", b"a\nb", b"\0",
        b"a\0\n", b"\r\r\n", b"\n\r", b"\r\n\r\n", b"a\r\nb\n", b"a\nb\r\n", b"\n\r\n", b"a\n\rb\n",
    ];
    if rng.chance(1, 6) {
        return rng.pick(POOL).to_vec();
    }
    let len = rng.below(8) + rng.geometric(6) * 5;
    let cr_weight = *rng.pick(&[0u64, 0, 4, 10]);
    let nul_weight = *rng.pick(&[0u64, 0, 0, 3]);
    (0..len)
        .map(|_| {
            let total = 30 + 10 + 25 + 5 + cr_weight + nul_weight;
            let mut r = rng.below(total);
            for (w, b) in [
                (30, b'a'),
                (10, b'b'),
                (25, b'\n'),
                (5, b' '),
                (cr_weight, b'\r'),
                (nul_weight, 0u8),
            ] {
                if r < w {
                    return b;
                }
                r -= w;
            }
            b'a'
        })
        .collect()
}

fn normalize(mut v: Vec<u8>) -> Vec<u8> {
    // drop the CR of every CRLF (repeat: "\r\r\n" -> "\r\n" -> "\n")
    while has_crlf(&v) {
        let mut out = Vec::with_capacity(v.len());
        let mut i = 0;
        while i < v.len() {
            if v[i] == b'\r' && v.get(i + 1) == Some(&b'\n') {
                i += 1;
                continue;
            }
            out.push(v[i]);
            i += 1;
        }
        v = out;
    }
    v
}

const SPECIALS: &[&[u8]] = &[b"\r", b"\0", b"\n", b"b", b"\n\n", b"\r\n", b"\r\r\n"];
const TAILS: &[&[u8]] = &[b"", b"a", b"\n", b"\r", b"\0", b"a\n", b"aaaa\n\0", b"\r\n"];

/// Content aimed at the probe boundary: `k` line ends (LF for stored, CRLF for disk contents)
/// in one of three layouts, filler, then `special` starting at byte offset `target`, then `tail`.
fn boundary_content(stored: bool, k: usize, layout: u64, target: usize, special: &[u8], tail: &[u8]) -> Vec<u8> {
    let eol: &[u8] = if stored { b"\n" } else { b"\r\n" };
    let mut v: Vec<u8> = vec![];
    match layout {
        0 => {
            for _ in 0..k {
                v.extend_from_slice(eol);
            }
        }
        1 => {
            for j in 0..k {
                v.extend(std::iter::repeat_n(b'a', 10 + 7 * j));
                v.extend_from_slice(eol);
            }
        }
        _ => {
            if k > 0 {
                v.extend(std::iter::repeat_n(b'a', 4000));
                for _ in 0..k {
                    v.extend_from_slice(eol);
                }
            }
        }
    }
    let target = target.max(v.len());
    v.extend(std::iter::repeat_n(b'a', target - v.len()));
    v.extend_from_slice(special);
    v.extend_from_slice(tail);
    v
}

/// Random boundary content. Stored contents: the special byte is aimed at the boundary either in
/// the content itself or in its LF->CRLF expansion (shifted by the k line ends before it).
fn large_content(rng: &mut jjv::Rng, stored: bool) -> Vec<u8> {
    let k = rng.usize(4);
    let shift = if rng.chance(1, 2) { k } else { 0 };
    let target = LIMIT - 3 + rng.usize(6) - if stored { shift } else { 0 };
    let special = SPECIALS[rng.usize(if stored { 5 } else { 7 })];
    let layout = rng.below(3);
    let tail: &[u8] = *rng.pick(TAILS);
    let v = boundary_content(stored, k, layout, target, special, tail);
    if stored && rng.chance(5, 6) { normalize(v) } else { v }
}

/// The first EXHAUSTIVE indices enumerate the boundary systematically (see main).
const EXH_STORED: usize = 4 * 5 * 6;
const EXH_DISK: usize = 2 * 7 * 6;
const EXHAUSTIVE: usize = EXH_STORED + EXH_DISK;

struct Job {
    index: usize,
    stored: bool,
    input: Vec<u8>,
    large: bool,
}

fn run_mode(
    store: &Arc<Store>,
    dir: &Path,
    mode: EolConversionMode,
    jobs: &[Job],
) -> Vec<(Vec<u8>, Vec<u8>)> {
    let wc = dir.join("wc");
    let state = dir.join("state");
    fs::create_dir_all(&wc).unwrap();
    fs::create_dir_all(&state).unwrap();
    let mut ts = TreeState::init(store.clone(), wc.clone(), state, &settings(mode)).unwrap();
    let name = |j: &Job| format!("{}{:06}", if j.stored { "s" } else { "d" }, j.index);
    // 1. store the KStored contents verbatim and check the tree out
    let mut tb = TestTreeBuilder::new(store.clone());
    for j in jobs.iter().filter(|j| j.stored) {
        let path = RepoPathBuf::from_internal_string(name(j)).unwrap();
        tb.file(&path, &j.input);
    }
    let tree = tb.write_merged_tree();
    ts.check_out(&tree).unwrap();
    // 2. read what was written, make every file look modified, add the KDisk files
    let mut disk = vec![];
    let later = SystemTime::now() + Duration::from_secs(100);
    for j in jobs {
        let p = wc.join(name(j));
        if j.stored {
            disk.push(fs::read(&p).unwrap());
            let f = fs::File::options().write(true).open(&p).unwrap();
            f.set_modified(later).unwrap();
        } else {
            fs::write(&p, &j.input).unwrap();
            disk.push(j.input.clone());
        }
    }
    // 3. snapshot and read the store
    let opts = testutils::empty_snapshot_options();
    ts.snapshot(&opts).block_on().unwrap();
    let mut out = vec![];
    for (j, d) in jobs.iter().zip(disk) {
        let path = RepoPathBuf::from_internal_string(name(j)).unwrap();
        let value = ts.current_tree().path_value(&path).block_on().unwrap();
        let stored = match value.into_resolved() {
            Ok(Some(TreeValue::File { id, .. })) => testutils::read_file(store, &path, &id),
            other => panic!("unexpected tree value {other:?}"),
        };
        out.push((d, stored));
    }
    out
}

fn main() {
    jjv::run("C29", "C29", |ctx| {
        unsafe { std::env::set_var("TMPDIR", &ctx.scratch) };
        let test_repo = TestRepo::init();
        let store = test_repo.repo.store().clone();
        let modes = [
            (EolConversionMode::None, "MNone"),
            (EolConversionMode::Input, "MInput"),
            (EolConversionMode::InputOutput, "MInputOutput"),
        ];
        let mut jobs: Vec<Vec<Job>> = vec![vec![], vec![], vec![]];
        for i in ctx.indices() {
            let mut rng = ctx.rng(i);
            let (m, stored, large, input);
            if i < EXHAUSTIVE && ctx.tier != "replay-random" {
                // systematic boundary enumeration: line ends before x special x offset
                large = true;
                let tail: &[u8] = *rng.pick(TAILS);
                let layout = rng.below(3);
                if i < EXH_STORED {
                    let (k, sp, off) = (i / 30, (i / 6) % 5, i % 6);
                    stored = true;
                    m = 2;
                    // aimed so that the EXPANDED content has the special at LIMIT-3+off
                    let v = boundary_content(true, k, layout, LIMIT - 3 + off - k, SPECIALS[sp], tail);
                    input = normalize(v);
                } else {
                    let j = i - EXH_STORED;
                    let (k, sp, off) = (2 * (j / 42), (j / 6) % 7, j % 6);
                    stored = false;
                    m = 1 + (j % 2);
                    input = boundary_content(false, k, layout, LIMIT - 3 + off, SPECIALS[sp], tail);
                }
            } else {
                // input-output gets half of the cases
                m = match rng.below(4) {
                    0 => 0,
                    1 => 1,
                    _ => 2,
                };
                stored = rng.chance(3, 5);
                large = i % 10 == 7;
                input = if large {
                    large_content(&mut rng, stored)
                } else {
                    let c = small_content(&mut rng);
                    if stored && rng.chance(3, 4) {
                        normalize(c)
                    } else if !stored && rng.chance(1, 2) {
                        // disk contents with (mostly) CRLF line ends
                        let mut v = vec![];
                        for b in c {
                            if b == b'\n' && rng.chance(3, 4) {
                                v.push(b'\r');
                            }
                            v.push(b);
                        }
                        v
                    } else {
                        c
                    }
                };
            }
            jobs[m].push(Job { index: i, stored, input, large });
        }
        for (m, (mode, mode_name)) in modes.iter().enumerate() {
            let dir = ctx.scratch.join(format!("mode{m}"));
            let res = jjv::catch(|| run_mode(&store, &dir, *mode, &jobs[m]));
            let _ = fs::remove_dir_all(&dir);
            for (k, j) in jobs[m].iter().enumerate() {
                let (disk, stored_bytes, panicked) = match &res {
                    Some(r) => (r[k].0.clone(), r[k].1.clone(), false),
                    None => (vec![], vec![], true),
                };
                if panicked {
                    ctx.panicked();
                }
                let term = coq::app(
                    "C29.mk_case",
                    &[
                        mode_name.to_string(),
                        if j.stored { "KStored".into() } else { "KDisk".into() },
                        enc(&j.input),
                        enc(&disk),
                        enc(&stored_bytes),
                        coq::b(panicked),
                    ],
                );
                let crlf = has_crlf(&j.input);
                let changed = disk != j.input || stored_bytes != j.input;
                let shape = format!(
                    "{mode_name} {} {}{}{}",
                    if j.stored { "stored" } else { "disk" },
                    if j.large { "boundary " } else { "" },
                    if crlf { "crlf " } else { "" },
                    if changed { "converted" } else { "unchanged" },
                );
                // non-trivial: some conversion happened, or the content sits at the boundary
                ctx.emit(j.index, term, changed || j.large, &shape);
            }
        }
    });
}
